#!/venv/bin/python
"""Merge known_findings.d/*.json and the table of repaired defects below into the single known_findings.json
(the file the checks read; never written at run time).  After merging, known_findings.d/ is removed."""
import glob
import json
import os
import shutil

HERE = os.path.dirname(os.path.dirname(os.path.abspath(__file__)))

# repaired defects that were recorded in DESIGN.md 7.2 only: (property, id, commit, signature, what failed, replay)
FIXED = [
    ("C01", "C01-chained-comparison", "c24037e", ["C01", "output-differs", "chained_comparison"], "`3 < 0 < 7` was lowered to `3 < 7`: only the first and the last operand of a chained comparison were compared", "replays/C01/fixed-chained-comparison.json"),
    ("C01", "C01-continue-stale-condition", "e8e4b62", ["C01", "output-differs", "continue"], "`while x < 7: x += 1; if x == 7: continue` ran once more: the condition temporary was not re-evaluated before continue", "replays/C01/fixed-continue-in-while.json"),
    ("C01", "C01-quote-in-string", "fa75f92", ["C01", "output-differs", "string_literal"], "the literal '\"' was lowered to the operand \" and '\"x\"' to \"x\": string content that looks quoted was not quoted again", "replays/C01/fixed-quote-in-string.json"),
    ("C01", "C01-for-else-dropped", "8f9f158", ["C01", "output-differs", "for_else"], "the else clause of a Python for loop was not lowered", "replays/C01/fixed-for-else.json"),
    ("C02", "C02-continue-stale-condition-js-ts-php", "10e5c0b", ["C02", "trace-differs", "continue"], "JavaScript / TypeScript / PHP while loops with a compound condition ran once more after continue (stale condition temporary)", "replays/C02/fixed-continue-in-while-javascript.json"),
    ("C02", "C02-go-switch-body", "ab24223", ["C02", "out-of-vocabulary", "go", "switch_stmt"], "Go switch statements stored their cases in switch_body instead of body", "replays/C02/fixed-go-vocabulary.json"),
    ("C02", "C02-go-return", "389f6c6", ["C02", "out-of-vocabulary", "go", "return"], "Go return statements were lowered to an operation `return {target}` instead of return_stmt", "replays/C02/fixed-go-vocabulary.json"),
    ("C02", "C02-go-call-args", "09e1514", ["C02", "out-of-vocabulary", "go", "call_stmt"], "Go call arguments were stored in `args` instead of positional_args", "replays/C02/fixed-go-vocabulary.json"),
    ("C02", "C02-go-array-read", "fd9fd31", ["C02", "out-of-vocabulary", "go", "array_read"], "Go index expressions named the indexed operand receiver_object instead of array", "replays/C02/fixed-go-vocabulary.json"),
    ("C02", "C02-go-composite-literal", "efdc7da", ["C02", "out-of-vocabulary", "go", "composite_literal"], "Go struct literals were lowered to composite_literal without a target", "replays/C02/fixed-go-vocabulary.json"),
    ("C02", "C02-php-property-init", "e762851", ["C02", "trace-differs", "php", "property"], "PHP `public $p = 0;` was lowered to an assignment to a variable $p instead of a field write on the object", "replays/C02/fixed-php-property-init.json"),
    ("C02", "C02-java-constant-folding", "6e45f40", ["C02", "trace-differs", "java", "constant-folding"], "Java `false && true` became the operand `false&&true`, `7 / 2` became 3.5 and `1 < 2` became True", "replays/C02/fixed-java-constant-folding.json"),
    ("C02", "C02-ts-operand-order", "e2a0d0c", ["C02", "trace-differs", "typescript", "operand-order"], "TypeScript binary expressions evaluated the right operand before the left one", "replays/C02/fixed-ts-operand-order.json"),
    ("C04", "C04-switch-without-default", "462cbd2", ["C04", "path-not-in-cfg", "switch"], "a switch without default had no edge to the statement after it", "replays/C04/fixed-switch-without-default.json"),
    ("C04", "C04-for-continue-update", "fedc062", ["C04", "path-not-in-cfg", "for", "continue"], "continue inside a C-style for loop skipped the update statements (which were absent from the CFG)", "replays/C04/fixed-for-continue-update.json"),
    ("C04", "C04-condition-prebody", "65aeed5", ["C04", "path-not-in-cfg", "while", "condition_prebody"], "condition_prebody of while / do-while loops was not in the CFG and its block marker was a CFG node", "replays/C04/fixed-while-prebody-java.json"),
    ("C04", "C04-while-else", "fcf0b34", ["C04", "path-not-in-cfg", "while", "else"], "Python while..else with break in the else arm / while True: the else arm did not hang off the false edge", "replays/C04/fixed-while-else.json"),
    ("C04", "C04-continue-in-switch", "d279d0c", ["C04", "path-not-in-cfg", "switch", "continue"], "continue inside a switch inside a loop was linked to the statement after the switch", "replays/C04/fixed-continue-in-switch.json"),
    ("C04", "C04-ts-try-vocabulary", "0c717e9", ["C04", "path-not-in-cfg", "typescript", "try"], "TypeScript try statements used try_body / finally_body attribute names the CFG builder does not read", "replays/C04/fixed-ts-try-vocabulary.json"),
    ("C04", "C04-php-catch-stmt", "163aff8", ["C04", "path-not-in-cfg", "php", "catch_stmt"], "the CFG builder did not follow catch_stmt rows (PHP) like catch_clause rows", "replays/C04/fixed-php-catch-stmt.json"),
    ("C04", "C04-parameterless-loop-entry", "04d0624", ["C04", "entry", "no-entry-node"], "a parameterless method that starts with a loop had no CFG entry node", "replays/C04/fixed-parameterless-loop-entry-java.json"),
    ("C04", "C04-first-statement-entry", "e24f18c", ["C04", "entry", "wrong-entry-node"], "the first statement of a method was not made an entry when other nodes had no predecessor", "replays/C04/fixed-parameterless-loop-entry-c.json"),
    ("C04", "C04-for-header-linked-late", "f1e2d30", ["C04", "entry", "for-header"], "a for_stmt header was linked after its body, so the body looked like the entry", "replays/C04/fixed-parameterless-loop-entry-c.json"),
    ("C06", "C06-worklist-heap-order", "594cce2", ["C06", "unsound", "no-loop-between"], "a definition three ifs deep did not reach the join: SimpleWorkList.pop broke the heap order", "replays/C06/fixed-join-after-nested-if.json"),
    ("C06", "C06-cfg-restored-as-multigraph", "783e082", ["C06", "unsound", "via-loop-header"], "a CFG restored from its bundle was a MultiDiGraph without edge weights: loop back edges were not recognised", "replays/C06/fixed-def-in-loop-reaches-after-loop.json"),
    ("C06", "C06-successors-before-pop", "ef467ee", ["C06", "unsound", "via-loop-header"], "CFG successors were added before the analysed statement was popped: the loop header was discarded instead and never analysed again", "replays/C06/fixed-def-in-loop-reaches-after-loop.json"),
    ("C06", "C06-loop-header-merge", "d5337b6", ["C06", "unsound", "via-loop-header"], "loop headers merged only LOOP_BACK-labelled predecessors after the first round, and a re-visited definition did not kill", "replays/C06/fixed-redefinition-in-loop-kills.json"),
    ("C08", "C08-literal-evaluated-as-code", "6d3682c", ["C08", "hostile-literal-not-covered", "quote"], "`a = 'x\" * 3 + \"'; c = a + \"y\"` gave xxxy: string operands were pasted into the evaluated expression", "replays/C08/fixed-literal-evaluated-as-code.json"),
    ("C08", "C08-partial-fold-loses-values", "f2d2f71", ["C08", "not-covered", "assign_stmt:op", "prim", "prim"], "{\"\", \"x y\"} + \"a\" gave {\"x ya\"}: an operand combination that could not be folded was silently dropped", "replays/C08/fixed-partial-fold-loses-values.json"),
    ("C09", "C09-zero-results", "d492ad9", ["C09", "extra-value", "assign_stmt:op"], "a folded binary operation that evaluates to 0, False or \"\" produced no value", "replays/C09/fixed-zero-results.json"),
    ("C09", "C09-zero-operand", "392ae35", ["C09", "extra-value", "assign_stmt:op"], "a numeric operand 0 was treated as a missing operand (`x * 0`, `q + 1` with q = 0 were unknown)", "replays/C09/fixed-zero-results.json"),
    ("C09", "C09-operand-float-conversion", "c9efa42", ["C09", "crash", "OverflowError"], "operands were tested for a missing value by converting them to float: OverflowError on large integers", "replays/C09/fixed-zero-results.json"),
    ("C10", "C10-call-source-pos", "3b37be2", ["C10", "rule-kind", "src:call"], "call_stmt source rules looked up the callee at the wrong operand position: no call source was ever found", "replays/C10/calibration-src-call.json"),
]


def main():
    base = json.load(open(os.path.join(HERE, "known_findings.json")))
    entries = list(base.get("findings", []))
    have = {e["id"] for e in entries}
    for p in sorted(glob.glob(os.path.join(HERE, "known_findings.d", "*.json"))):
        for e in json.load(open(p)).get("findings", []):
            key = (e["id"], json.dumps(e.get("signature")))
            if key in {(x["id"], json.dumps(x.get("signature"))) for x in entries}:
                continue
            if e["id"] == "C10-call-source-pos":
                continue
            entries.append(e)
    have_sig = {(e["id"], json.dumps(e.get("signature"))) for e in entries}
    for prop, fid, commit, sig, what, replay in FIXED:
        if (fid, json.dumps(sig)) in have_sig:
            continue
        entries.append({"id": fid, "property": prop, "status": "fixed", "signature": sig, "commit": commit, "what": what,
                        "record": "fixed: property=%s %s %s" % (prop, commit, what), "replay": replay})
    for e in entries:
        if e.get("status") == "fixed" and not e.get("record"):
            e["record"] = "fixed: property=%s %s %s" % (e["property"], e.get("commit", "?"), e.get("what", ""))
        if e.get("replay") and not os.path.exists(os.path.join(HERE, e["replay"])):
            print("warning: replay file missing for %s: %s" % (e["id"], e["replay"]))
    entries.sort(key=lambda e: (e["property"], 0 if e["status"] == "open" else 1, e["id"]))
    base["comment"] = ("Known findings of the lian verification checks. status=open: printed as KNOWN-FINDING, does not fail the check; "
                       "status=fixed: repaired by the named fix: commit in /repo, suppresses nothing (the replay file fails again if the "
                       "defect returns). A signature element '*' matches any value. Never written at run time.")
    base["findings"] = entries
    json.dump(base, open(os.path.join(HERE, "known_findings.json"), "w"), indent=1)
    d = os.path.join(HERE, "known_findings.d")
    if os.path.isdir(d):
        shutil.rmtree(d)
    from collections import Counter
    print("known_findings.json:", dict(Counter(e["status"] for e in entries)), "entries for", len({e["property"] for e in entries}), "properties")


if __name__ == "__main__":
    main()
