#!/venv/bin/python
"""Sensitivity experiments: apply a textual mutation (or a patch file) to /repo, run a check, revert.

usage: try_mutant.py <Cxx> <file-relative-to-repo> <old> <new> [--tier quick]
       try_mutant.py <Cxx> --patch <patch.diff>
Works in a scratch git worktree of /repo's HEAD under /tmp (removed afterwards); checks run with LIAN_REPO pointing at it; does not rewrite evidence.
"""
import os
import subprocess
import sys

REPO = "/repo"
VERIF = os.path.dirname(os.path.dirname(os.path.abspath(__file__)))


def main():
    args = sys.argv[1:]
    prop = args[0]
    tier = "quick"
    if "--tier" in args:
        i = args.index("--tier")
        tier = args[i + 1]
        del args[i:i + 2]
    wt = "/tmp/lianmut-%d" % os.getpid()
    subprocess.run(["git", "-C", "/repo", "worktree", "add", "-q", "--detach", wt, "HEAD"], check=True)
    global REPO
    REPO = wt
    try:
        if args[1] == "--patch":
            r = subprocess.run(["git", "-C", REPO, "apply", args[2]])
            if r.returncode != 0:
                print("patch does not apply")
                return 3
        else:
            path = os.path.join(REPO, args[1])
            s = open(path).read()
            old, new = args[2], args[3]
            old = old.encode().decode("unicode_escape")
            new = new.encode().decode("unicode_escape")
            if s.count(old) < 1:
                print("mutation target not found in", path)
                return 3
            s = s.replace(old, new, 1)
            open(path, "w").write(s)
        env = dict(os.environ)
        env["VERIF_NO_EVIDENCE"] = "1"
        env["LIAN_REPO"] = wt
        p = subprocess.run(["/venv/bin/python", os.path.join(VERIF, "check.py"), prop, "--tier", tier],
                           env=env, capture_output=True, text=True)
        lines = [l for l in (p.stdout + p.stderr).splitlines() if "conda" not in l]
        keep = [l for l in lines if l.startswith(("VIOLATION", "KNOWN", "HARNESS", "  signature", prop))]
        print("\n".join(keep[-12:]))
        print("MUTANT exit=%d => %s" % (p.returncode, {0: "MISSED", 1: "CAUGHT", 2: "HARNESS-ERROR"}.get(p.returncode, "?")))
        return 0
    finally:
        subprocess.run(["git", "-C", "/repo", "worktree", "remove", "--force", wt])


if __name__ == "__main__":
    sys.exit(main())
