#!/bin/bash
# usage: tools/run_all.sh <seed> [tier] [props...]   -- runs the registered checks one after the other, prints one line each
cd "$(dirname "$0")/.."
seed=${1:-1}; tier=${2:-quick}; shift; shift
props="$@"
if [ -z "$props" ]; then props=$(/venv/bin/python -c "import json; print(' '.join(c['property_id'] for c in json.load(open('MANIFEST.json'))['checks']))" 2>/dev/null); fi
for p in $props; do
  start=$(date +%s)
  out=$(VERIF_SEED=$seed /venv/bin/python check.py $p --tier $tier 2>&1 | grep -v conda)
  rc=$?
  line=$(echo "$out" | grep "^$p tier=" | tail -1)
  echo "$p rc=$(echo "$line" | sed 's/.*exit=//') $(( $(date +%s) - start ))s | $line"
  echo "$out" | grep "VIOLATION\|HARNESS-ERROR" | head -5
done
