#!/venv/bin/python
"""Compare a junit xml of the repository test-suite with /root/.vp/BASELINE.json stable_pass."""
import json, sys
import xml.etree.ElementTree as ET
base = json.load(open("/root/.vp/BASELINE.json"))
stable = set(base["stable_pass"])
root = ET.parse(sys.argv[1]).getroot()
passed = set()
seen = set()
for tc in root.iter("testcase"):
    tid = "%s::%s" % (tc.get("classname"), tc.get("name"))
    seen.add(tid)
    if not any(ch.tag in ("failure", "error", "skipped") for ch in tc):
        passed.add(tid)
missing = sorted(stable - passed)
print("stable_pass=%d passed_now=%d stable_but_not_passing=%d" % (len(stable), len(passed), len(missing)))
for m in missing[:40]:
    print("  NOT PASSING:", m, "(seen)" if m in seen else "(absent)")
sys.exit(1 if missing else 0)
