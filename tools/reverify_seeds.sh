#!/bin/bash
# Re-run every seeded mutation of /verif/seeded against /repo's HEAD with the current checks (refreshes meta.json).
cd "$(dirname "$0")/.."
for d in seeded/*/; do
  sid=$(basename $d)
  prop=$(/venv/bin/python -c "import json;print(json.load(open('$d/meta.json'))['property'])")
  checks=$(/venv/bin/python -c "import json;print(','.join(json.load(open('$d/meta.json')).get('checks',{}).keys()) or '$prop')")
  echo "=== $sid ($checks)"
  /venv/bin/python tools/ingest_seed.py $prop $PWD/$d $sid --checks $checks 2>&1 | grep -v conda | grep "demo\|check \|DOES\|PATCH" | cut -c1-160
done
