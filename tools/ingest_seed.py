#!/venv/bin/python
"""Confirm a seeded mutation and record it under /verif/seeded/<id>/.

usage: ingest_seed.py <Cxx> <seed dir holding patch.diff demo.py README.md> <seed id> [--tier quick] [--checks C01,C04]

In a scratch worktree of /repo's HEAD: run the demo (must pass), apply the patch (must apply), byte-compile the tree,
run the demo again (must fail), run the named checks (default: the property's own) against the mutated tree, then
remove the worktree.  Writes patch.diff, demo.py, README.md (the seeder's) and meta.json.
"""
import json
import os
import shutil
import subprocess
import sys
import time

VERIF = os.path.dirname(os.path.dirname(os.path.abspath(__file__)))


def run(cmd, **kw):
    return subprocess.run(cmd, capture_output=True, text=True, **kw)


def main():
    args = sys.argv[1:]
    prop, sdir, sid = args[0], args[1], args[2]
    tier = "quick"
    checks = [prop]
    if "--tier" in args:
        tier = args[args.index("--tier") + 1]
    if "--checks" in args:
        checks = args[args.index("--checks") + 1].split(",")
    demo_args = []
    wt = "/tmp/ingest-%d" % os.getpid()
    subprocess.run(["git", "-C", "/repo", "worktree", "add", "-q", "--detach", wt, "HEAD"], check=True)
    head = run(["git", "-C", "/repo", "rev-parse", "--short", "HEAD"]).stdout.strip()
    meta = {"property": prop, "seed": sid, "repo_head": head, "ran": []}
    try:
        env = dict(os.environ)
        env["PYTHONPATH"] = os.path.join(wt, "src")
        # same layout as the seeder used: <worktree>/SEED/<mX>/demo.py (demos locate the tree relative to themselves)
        ddir = os.path.join(wt, "SEED", os.path.basename(os.path.normpath(sdir)))
        os.makedirs(ddir, exist_ok=True)
        for n in os.listdir(sdir):
            if n.endswith((".py", ".md", ".diff", ".json", ".yaml", ".txt")) and os.path.isfile(os.path.join(sdir, n)):
                shutil.copy(os.path.join(sdir, n), os.path.join(ddir, n))
        demo_path = os.path.join(ddir, "demo.py")

        def run_demo():
            e = dict(env)
            e["LIAN_ROOT"] = wt
            e["SEED_WORKTREE"] = wt
            e["LIAN_WT"] = wt
            e["LIAN_TREE"] = wt
            e["WT"] = wt
            e["WORKTREE"] = wt
            e["LIAN_SRC"] = os.path.join(wt, "src")
            p = run(["/venv/bin/python", demo_path] + demo_args, env=e, cwd=wt, timeout=1800)
            return p.returncode, (p.stdout + p.stderr)[-600:]
        rc0, out0 = run_demo()
        meta["ran"].append({"what": "demo on unchanged HEAD %s" % head, "exit": rc0})
        ap = run(["git", "-C", wt, "apply", os.path.join(sdir, "patch.diff")])
        meta["ran"].append({"what": "git apply patch.diff", "exit": ap.returncode, "stderr": ap.stderr[-300:]})
        if ap.returncode != 0:
            print("PATCH DOES NOT APPLY to HEAD %s:\n%s" % (head, ap.stderr))
            return 3
        cc = run(["/venv/bin/python", "-m", "compileall", "-q", os.path.join(wt, "src", "lian")])
        meta["ran"].append({"what": "compileall src/lian", "exit": cc.returncode})
        rc1, out1 = run_demo()
        meta["ran"].append({"what": "demo with the patch", "exit": rc1, "tail": out1[-300:]})
        print("demo clean exit=%d, mutated exit=%d" % (rc0, rc1))
        if rc0 != 0 or rc1 == 0:
            print("DEMO DOES NOT DISCRIMINATE\n--- clean:\n%s\n--- mutated:\n%s" % (out0, out1))
        meta["demo_discriminates"] = (rc0 == 0 and rc1 != 0)
        results = {}
        for c in checks:
            e = dict(os.environ)
            e["LIAN_REPO"] = wt
            e["VERIF_NO_EVIDENCE"] = "1"
            t = time.time()
            p = run(["/venv/bin/python", os.path.join(VERIF, "check.py"), c, "--tier", tier], env=e, timeout=7200)
            lines = [l for l in (p.stdout + p.stderr).splitlines() if "conda" not in l]
            sigs = [l.strip() for l in lines if l.strip().startswith("signature=")]
            results[c] = {"exit": p.returncode, "caught": p.returncode == 1, "signatures": sigs[:6], "wall_s": round(time.time() - t, 1),
                          "tier": tier}
            print("check %s (%s): exit=%d %s" % (c, tier, p.returncode, "CAUGHT" if p.returncode == 1 else "MISSED" if p.returncode == 0 else "HARNESS-ERROR"))
            for s in sigs[:4]:
                print("   ", s[:220])
        meta["checks"] = results
        dst = os.path.join(VERIF, "seeded", sid)
        os.makedirs(dst, exist_ok=True)
        for n in ("patch.diff", "demo.py", "README.md"):
            if os.path.exists(os.path.join(sdir, n)) and os.path.abspath(sdir) != os.path.abspath(dst):
                shutil.copy(os.path.join(sdir, n), os.path.join(dst, n))
        old = {}
        mp = os.path.join(dst, "meta.json")
        if os.path.exists(mp):
            old = json.load(open(mp))
        for k in ("breaks", "needs", "notes"):
            if k in old:
                meta[k] = old[k]
        json.dump(meta, open(mp, "w"), indent=1)
        return 0
    finally:
        subprocess.run(["git", "-C", "/repo", "worktree", "remove", "--force", wt])


if __name__ == "__main__":
    sys.exit(main())
