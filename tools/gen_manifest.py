#!/venv/bin/python
"""Regenerates /verif/MANIFEST.json from the table below (kept valid at all times)."""
import json
import os
import sys

HERE = os.path.dirname(os.path.dirname(os.path.abspath(__file__)))

PY = "/venv/bin/python"

# property -> (technique, level text, level note, design ref)
CHECKS = {
    "C19": ("exhaustive enumeration of add/remove histories + Hypothesis sequence sampling against a set model",
            "All add/remove sequences over small path universes (2-3 call sites, paths <= 3, up to 4-6 operations) are "
            "enumerated and PathManager.paths, the return values and path_exists for every path of the universe are "
            "compared with a set model after every step; deeper histories (3 call sites, paths <= 4, <= 40 steps) are "
            "sampled. Exhaustive only within the stated bounds.",
            "Trusts the 20-line set model in harness/props/c19.py as the meaning of 'maximal paths'; empty paths are not "
            "generated (not constructible through CallPath.add_call callers).",
            "DESIGN.md 3/C19"),
    "C17": ("exhaustive enumeration of handler registrations against a reference dispatcher model; recorder over the default registration table",
            "Every registration of up to 3 (quick) / 4 (thorough) handlers over 4 language sets x 8 return behaviours x 3 event "
            "languages (plus all list/str/set spellings for up to 2/3 handlers, an unregistered event kind, and sampled 4-6 handler "
            "registrations) is dispatched through a fresh EventManager and compared with a model of the documented rules: which handlers "
            "ran, in which order, the payload each saw, the combined return flags and the final out_data. The default table is checked by "
            "recording registrations and dispatches for every event kind x language and during real lowering of seven frontends.",
            "Model = my reading of docs 5-1 + event_return.py predicates (None counts as processed for data hand-over and carries no flag); "
            "handlers are registered only through EventManager.register.",
            "DESIGN.md 3/C17"),
    "C01": ("differential testing: CPython output trace vs reference GIR interpreter over Hypothesis-generated typed Python programs",
            "Thousands of generated Python programs (typed grammar over the constructs the property lists) are executed by CPython and, "
            "after lowering with the real frontend + event handlers + flattening, by a reference GIR interpreter; the sequences of values "
            "passed to out(...) (which include the entry functions' return values) and the error/no-error outcome must agree. Failures are "
            "bucketed by construct class; known lowering defects are stepped over by construct and kept as replay files.",
            "Trusted base: harness/girsem.py, my executable reading of the documented GIR instruction meanings (validated by agreement with "
            "CPython on the large majority of generated programs); run-time error classes are not compared.",
            "DESIGN.md 3/C01"),
    "C04": ("exhaustive enumeration + Hypothesis sampling of control-structure shapes in seven frontends; structural path walker vs lian's CFG",
            "Every method body built from <= 3-4 control constructs (quick; 4-5 thorough) plus sampled bodies up to 9 constructs, in each of the "
            "seven frontends, is analysed by lian (lang + P1); every statement sequence allowed by the GIR control constructs (all branch "
            "decisions, loops entered 0/1/2 times) must be a path of the method's CFG: entry node, every consecutive pair an edge, exits reach "
            "node -1, no foreign nodes.",
            "Trusted base: harness/walker.py (structural semantics of GIR control constructs incl. per-language switch fall-through); exceptional "
            "control flow is not generated; branch conditions are opaque so structural = concrete feasibility.",
            "DESIGN.md 3/C04"),
    "C06": ("Hypothesis-sampled + enumerated control shapes with def/use payloads; walker paths and classical reaching definitions over lian's CFG vs the SYMBOL_IS_USED edges of the entry's state-flow graph",
            "Python and JavaScript methods made of control shapes whose simple statements define or copy two variables are analysed with the method as entry; "
            "for every use, (1) every definition that is last-before-the-use on some structural path with loops run <= once must be in the set "
            "the analysis links to the use, (2) every definition in that set must reach the use in lian's CFG without passing another definition, "
            "(3) on loop-free methods the set must equal the classical reaching-definitions solution.",
            "Trusted base: harness/walker.py path semantics; the analysis' set is read from the in-memory state-flow graph (SYMBOL_IS_USED edges); "
            "Python and JavaScript frontends.",
            "DESIGN.md 3/C06"),
    "C02": ("differential testing: Hypothesis-generated programs of a typed core language rendered in seven languages; reference K interpreter vs one common GIR interpreter over each frontend's GIR",
            "Each generated core-language program (ints, bools, strings, locals, arithmetic, comparisons, logical operators, if/else, while, counted for, "
            "break/continue, functions, calls, return, records, arrays) is rendered in python, javascript, typescript, java, go, c and php; lian lowers "
            "each rendering and the GIR is executed by the same reference interpreter; the out() trace must equal the K interpreter's and no executed "
            "instruction or operand column may be outside the shared vocabulary.",
            "Trusted base: harness/girsem.py (common GIR semantics), the K interpreter and harness/gen_core.py renderers (self-checked natively: "
            "CPython on every program, node / gcc / javac on a sample; Go, PHP and TypeScript have no toolchain on this image).",
            "DESIGN.md 3/C02"),
    "C08": ("Hypothesis-generated value programs; CPython ground truth over all 2^k branch valuations vs lian's P3 state sets (cover relation); metamorphic hostile-literal substitution",
            "For generated Python programs (constants incl. blank runs, arithmetic, concatenation, allocation, fields, lists of 2-6 elements, aliases, "
            "fixed helpers and generated callees that write the fields of their parameter through aliases / under branches / on both sides of an "
            "early return, branches, one-iteration loops) every concrete value of every executed definition must be covered by the abstract state set of that definition "
            "(equal constant / state of the object's class / explicit unknown). Metamorphic clause: substituting one string constant by a hostile one "
            "must not change the abstract values of unrelated definitions, the outcome or the number of statement visits, and the hostile constant "
            "itself must be covered.",
            "Trusted base: harness/valcheck.py (reading of Symbol/State records; object coverage is class-level at definitions, field contents are "
            "checked at reads); step count = wrapped compute_stmt_states calls.",
            "DESIGN.md 3/C08"),
    "C09": ("Hypothesis-generated loop-free value programs; exact collecting semantics by enumerating all 2^k branch valuations under CPython vs lian's abstract constants",
            "For loop-free generated programs (no correlated binary operands by construction) the set of regular abstract constants of every integer / "
            "string definition must EQUAL the set of concrete values over all executions (no missing value, no retained overwritten value, no value "
            "from another field, object or call site, no unknown state); binary operations must yield exactly the results of the operand combinations.",
            "Trusted base: harness/valcheck.py; every CFG path is feasible because each branch has its own opaque parameter; lists are excluded.",
            "DESIGN.md 3/C09"),
    "C12": ("metamorphic testing: Hypothesis-generated base projects (Python projects; core-language programs in seven frontends) and corpus files x sequences of meaning-preserving edits; call sites, bindings and taint flows compared after mapping positions back",
            "Generated Python projects (call chains, class + method, parameter sources, sink calls, unique identifiers) are edited by 1-3 of: blank / "
            "comment lines, consistent renaming of a local, parameter, function, class or method (also of a local that shadows a module-level "
            "variable, renamed inside its function only), no-op insertion, swapping adjacent top-level definitions, moving a function to a new "
            "file and importing it (also out of a second file that a third one imports it from). Both versions run through the whole pipeline; the call sites of all "
            "stored call paths, the P1 binding of every identifier occurrence and the (source, sink) flows must be identical after the line / "
            "unit / name mapping of the edit is applied. The same relation is checked on core-language programs rendered in python, javascript, "
            "typescript, java, go, c and php (blank / comment lines, renamings) and on the repository's small corpus files (a line in front).",
            "Structural edits (swap, move, no-op) on the Python projects only; the other six frontends get blank / comment lines and renamings on "
            "generated core-language programs and one line in front of small corpus files; bindings of the moved function's own name are excluded "
            "for the move edit; observation helpers are shared with C05 (harness/c05_lian.py).",
            "DESIGN.md 3/C12"),
    "C13": ("parameterised adversarial program families with swept size; deterministic step counters and a growth bound between consecutive sizes; forked children under watchdog and memory limit",
            "Twenty-two program families (recursion, mutual-recursion rings, higher-order self-application, cyclic imports, cyclic object graphs, nested loops, "
            "call chains with 2-3 call sites per function, branch / alias / literal / assignment chains, multi-valued operand chains, hostile constants, dead-end dataflow regions before a sink), "
            "each with and without --enable-p2, sizes 2..16 (quick) / ..64 (thorough), plus Hypothesis-drawn compositions of two families. Every run is a "
            "forked child with address-space limit and watchdog; wrapped counters (statement visits in P2/P3, frames, taint work-list pops, state-space "
            "growth) must satisfy counter(b) <= (b/a)^3.5 * counter(a) for consecutive sizes (node expansions of the taint path search: degree 5, "
            "aborted at 20x the step budget), and the run must end within the watchdog.",
            "Non-termination is only observable as a budget overrun; polynomial growth is decided on the wrapped counters for the stated families, Python only.",
            "DESIGN.md 3/C13"),
    "C14": ("generated and corpus projects analysed in separate processes under different hash seeds, repetitions, predecessor projects and workspace locations (incl. another filesystem); byte / table comparison",
            "Each project (Hypothesis-generated name-rich Python / JavaScript projects incl. star imports and imports with two candidate modules, and repository corpus files) is analysed by `lian run` in six fresh "
            "processes: hash seeds 0 / 1 / drawn, twice into the same forced workspace, after a different project in that workspace, into a workspace at "
            "another path and on tmpfs. Files under frontend/ semantic_p*/ taint/ must be byte-identical for a shared workspace path and equal after "
            "loading and workspace-prefix normalisation otherwise.",
            "Address-dependent order is only sampled by repetition; input directory, settings and cwd are the same for all runs of a project.",
            "DESIGN.md 3/C14"),
    "C15": ("model-based testing of 38 loader families: Hypothesis-generated save/get/export/reopen/fault histories against a dict model, plus interception of every Loader.save_* of real pipeline runs",
            "For each loader family (bundle loaders and whole-file loaders) histories of <= 30 (quick) / 40 (thorough) operations over 4 ids with cache "
            "capacities 1..3 and MAX_ROWS in {1,3,8} are applied to the real loader and to a dict model; every get, every view after reopen and the bundle "
            "files read with pandas must agree under the family's normal form; a terminal fault (directory removed / replaced) must be reported. Real "
            "pipeline runs on fixed projects record every saved item, which a fresh Loader must restore.",
            "Normal forms per family are the harness' reading of what callers observe; histories end at a fault; three loader families are covered by real runs only.",
            "DESIGN.md 3/C15"),
    "C16": ("model-based testing of DataModel / GIRBlockViewer: Hypothesis-generated operation sequences against a list-of-(label, dict) model, all queries compared after every step",
            "Operation sequences (all construction forms, modify_element / row / column, append, remove_rows, rename (one or several columns at once, incl. swaps and shifts) / set columns, fillna, reset_index, "
            "slice, clone, sub-table continuation) over small tables with duplicates and missing values and over GIR-like tables with block markers; after "
            "every step (in drawn check order, with deliberately unchecked steps) every row / column / equality-index / mask / block query and every "
            "GIRBlockViewer query is compared with a scan of the model.",
            "The model mirrors pandas label semantics; writes through Row objects and modify_element on missing labels are outside the generated domain.",
            "DESIGN.md 3/C16"),
    "C18": ("pairwise covering array (quick) / full product (thorough) of filesystem layouts, each run as a CLI subprocess in a per-case sandbox with before/after snapshots",
            "Configurations of input kind x workspace placement (disjoint, inside the input, containing the input, identical) x workspace spelling (default, "
            "custom, name containing lian_workspace, relative, absolute, through symlinks) x previous state x flags (-f, -q, -inc) x sub-command; the sandbox "
            "is snapshotted (path, type, size, sha256, mode, link target) before and after: nothing outside the workspace changes, inputs stay identical, "
            "nothing is deleted unforced, copying is bounded and the run does not die of the placement.",
            "Python inputs only; every path is asserted to lie >= 2 levels inside the sandbox before a run; matplotlib's per-user font cache is redirected.",
            "DESIGN.md 3/C18"),
    "C20": ("Hypothesis-generated multi-file projects x generated entry rule sets against a reference matcher; entry set, P3 roots, analysed methods and flows compared",
            "Projects of 2-4 Python (+ JavaScript / Java) files with called and never-called methods, each holding its own parameter->sink pair, are analysed "
            "under generated *entry.yaml rule sets (empty, %unit_init only, method lists, lang / unit_name / unit_path / attrs / id restrictions, duplicates, "
            "several files and directories, malformed files). The saved entry set, the roots and analysed methods of P3 and the reported flows must be "
            "exactly what a reference matcher written from the rule fields selects and what is reachable from it; the frames analysed while each "
            "single root is processed must cover the by-construction closure of that root.",
            "The reference matcher models substring matching of unit_name / unit_path as the code documents it; only `from m import f` imports are generated.",
            "DESIGN.md 3/C20"),
}

CHECKS["C03"] = (
    "validity predicate over generated inputs: repository corpora, template-generated valid programs and Hypothesis-chosen byte-level "
    "mutants of both, alone and as multi-file projects, lowered by the real frontend; atheris (libFuzzer) coverage-guided campaigns in the thorough tier",
    "Every source file of the seven frontends under <repo>/tests, ~1400 programs composed from ~900 grammar-checked templates, ~6300 "
    "byte-level mutants (delete/insert/transpose/truncate/line operations/splice) and ~360 multi-file projects per quick run (thorough: "
    "~340k Hypothesis cases + 7 x 60000 atheris runs) are lowered through GIRParser.deal_with_file_unit (projects also through the real "
    "`lang` sub-command); the emitted table must satisfy the four structural clauses of the property (unique ids / disjoint unit ranges, "
    "balanced and properly nested block markers with textual parents, body attributes naming owned blocks, every executable statement in "
    "exactly one method or class initialiser with %unit_init in source order) and no exception may escape.",
    "Trusted base: the validity predicate harness/c03_wf.py (my reading of the four clauses; the body-attribute converse is checked for the "
    "attribute names that are bodies in every producer); source order is checked on generated programs through unique 9xxxx literals. "
    "C++/C# grammars are empty on this image.",
    "DESIGN.md 3/C03")

CHECKS["C07"] = (
    "differential testing: dynamic call edges observed by CPython (sys.setprofile) vs lian's stored call paths and analysed P3 frames, over "
    "Hypothesis-seeded generated 1-3 file Python programs labelled by call kind",
    "~420 (quick) / 10000 (thorough) generated programs with ~60 kinds of call site (direct, cross-module via from-import / module "
    "attribute / package / relative import, constructors, receiver and inherited methods, overriding and self dispatch, callbacks passed "
    "positionally / by keyword / as bound methods, returned closures and functions, functions stored in variables, lists, dicts, fields, "
    "globals, recursion and mutual recursion) are executed by CPython; every dynamic edge whose dynamic call chain is itself stored and "
    "analysed must occur as a CallSite of call_paths_p3 and must have an analysed P3 frame under that call site. Entry: %unit_init or a "
    "configured entry function. Call kinds with an open finding are stepped over by construction and kept as replay files.",
    "Soundness only (spurious edges are not this property); one concrete execution per program; Python only. Ids are joined by (file, "
    "line, name), pinned by calibration replays on every run.",
    "DESIGN.md 3/C07")

CHECKS["C10"] = (
    "differential testing: CPython identity-tracking taint ground truth (driven by the rule set) vs lian's find_flows over generated chain "
    "projects; calibration projects and exhaustive single / pair / triple link sweeps",
    "15 hand-written one-flow calibration projects (every source kind, sink kind and target position), a deterministic sweep of every "
    "single link kind (~45 kinds: assignments, operators, parameter passing, returns, fields, container elements, closures, globals, "
    "cross-file from-import / module attribute), 125 fixed triples around function boundaries (thorough: all 3362 ordered pairs) and "
    "Hypothesis-generated 1-3 file projects with <= 3 sources, <= 3 sinks and chains of 0-4 links (merges, fan-outs) are executed by "
    "CPython with identity-tracking Taint objects; every (source statement, sink statement) pair whose designated operand is the tainted "
    "object itself must be among the reported flows. Missed pairs are minimised by link deletion and signed by miss class.",
    "Only direct taint of the designated operand is demanded (no containment, no implicit flows); chains, not arbitrary programs; Python "
    "only; random chains of >= 3 links fall under one open umbrella finding, the fixed triples are exact.",
    "DESIGN.md 3/C10")

CHECKS["C11"] = (
    "generated projects x perturbed rule sets: every reported flow checked against a reference rule matcher (python AST) and a coarse "
    "flow- and context-insensitive dependence graph; empty-rule and rule-monotonicity metamorphic relations; sink-check instrumentation",
    "The C10 projects with half the chains ending in a negative construction (other argument position, unrelated field / object / variable, "
    "overwritten value, callee returning a constant, dropped value, decoy statements whose name collides with a rule of another kind) and "
    "rule sets perturbed with matching / non-matching unit_name, line_num, lang and same-named rules of another operation; each reported "
    "flow must start and end at statements matching a rule under the reference matcher, the designated operand must depend on the source "
    "in the reference graph, empty rule sets yield no flow and flows(R) is a subset of flows(R + dR). The reference is self-checked "
    "against the CPython ground truth on every case.",
    "Reference = my reading of the rule fields (a call_stmt rule with a dotted name also designates the method call, as the shipped rules "
    "do) and a deliberately coarse name-based graph; the shipped from-code rules are swept on 16 lines per thorough run.",
    "DESIGN.md 3/C11")

CHECKS["C05"] = (
    "differential testing of name binding: Python symtable / a real CPython import of every project / node probe scripts vs the "
    "declaration each use is bound to in lian's P1 symbol tables, over Hypothesis-generated scope trees and multi-file projects; "
    "metamorphic renaming relation on bindings, call graph, call paths and flows",
    "~660 generated Python scope trees (module, functions, nested functions, classes, methods over three names with every binding and "
    "read form incl. global / nonlocal, augmented assignment, for / with / except-as targets, imports inside blocks), ~415 multi-file "
    "Python projects (2-6 files, flat / package / sub-package, every import form incl. relative, aliased, re-exports, function-level), "
    "~370 JavaScript trees (var / let / const, function declarations and expressions, arrows, blocks) per quick run (thorough ~76000): "
    "every use must be bound to the declaration (owning scope, name) that symtable / the project resolver (checked against a real CPython "
    "import of every project) / the JavaScript resolver (every 4th tree cross-checked with node in the thorough tier) gives. Renaming "
    "half: a consistent renaming of one variable leaves bindings (position -> identity), the P1 call graph, P3 call paths and taint flows "
    "unchanged. Binding forms with an open finding are signed by root-cause qualifier and kept as replays.",
    "Python and JavaScript only; lambda, comprehensions, walrus, match captures, decorators, JavaScript classes / destructuring / modules "
    "are not generated; only P1 bindings are observed directly (P3 through call paths and flows).",
    "DESIGN.md 3/C05")

NOT_YET = {}


def main():
    props = [json.loads(l) for l in open(os.path.join(HERE, "properties.jsonl"))]
    checks = []
    not_applicable = []
    for p in props:
        pid = p["id"]
        if pid in CHECKS:
            tech, text, note, ref = CHECKS[pid]
            checks.append({
                "property_id": pid,
                "quick_cmd": "%s check.py %s --tier quick" % (PY, pid),
                "thorough_cmd": "%s check.py %s --tier thorough" % (PY, pid),
                "evidence_file": "/verif/evidence/%s.json" % pid,
                "replay_cmd_template": "%s check.py %s --replay {path}" % (PY, pid),
                "engine": "lianverif",
                "level_claimed": {"category": "exploration", "text": text, "design_ref": ref},
                "level_note": note,
                "technique": tech,
            })
        else:
            not_applicable.append({"property_id": pid,
                                   "reason": NOT_YET.get(pid, "check designed (DESIGN.md section 3) but not yet registered in this revision; no claim is made")})
    manifest = {
        "version": 1,
        "setup_cmd": "/venv/bin/pip install --no-index --find-links /opt/veriftools/wheels hypothesis >/dev/null 2>&1; "
                     "/venv/bin/pip install --no-index --find-links /opt/veriftools/wheels --target .deps atheris >/dev/null 2>&1; "
                     "/venv/bin/python -c 'import hypothesis, lian'",
        "hooks": {
            "guard": "LIAN_VERIF",
            "enable": "no source hooks: all instrumentation is applied from the harness process (function wrapping, configuration constants); checks import lian from /repo/src",
            "baseline_off_cmd": "cd /repo && /venv/bin/python -m pytest -ra -q -p no:cacheprovider --timeout=900 --continue-on-collection-errors",
            "source_commits": [],
            "add_only": True,
        },
        "engines": [{"name": "lianverif", "path": "/verif/check.py",
                     "serves_properties": sorted(CHECKS),
                     "kind_free_text": "property-based testing: Hypothesis strategies / state machines, exhaustive enumeration of small finite spaces, differential and metamorphic oracles, all run against /repo/src"}],
        "checks": checks,
        "notes": "Every check: /venv/bin/python check.py <id> --tier quick|thorough; VERIF_SEED selects the seed. known_findings.json lists recorded/fixed defects; replays/<id>/ are regression inputs run first on every run.",
        "not_applicable": not_applicable,
    }
    with open(os.path.join(HERE, "MANIFEST.json"), "w") as f:
        json.dump(manifest, f, indent=1)
    try:
        import jsonschema
        jsonschema.validate(manifest, json.load(open("/root/.vp/MANIFEST.schema.json")))
        print("MANIFEST.json valid; %d checks, %d not_applicable" % (len(checks), len(not_applicable)))
    except ImportError:
        print("MANIFEST.json written (jsonschema not available to validate)")


if __name__ == "__main__":
    main()
