#!/bin/bash
# multi.sh "<seeds>" "<props>" [tier]  - run checks without touching evidence; one summary line per run
cd "$(dirname "$0")/.."
for s in $1; do for c in $2; do
  VERIF_SEED=$s VERIF_NO_EVIDENCE=1 /venv/bin/python check.py $c --tier ${3:-quick} 2>&1 | grep -v conda | grep "tier=\|VIOLATION\|HARNESS" | cut -c1-260
done; done
