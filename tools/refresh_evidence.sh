#!/bin/bash
# Re-run every registered quick check at VERIF_SEED=1 against /repo and rewrite evidence/<id>.json; validate the files.
cd "$(dirname "$0")/.."
unset VERIF_NO_EVIDENCE
tools/run_all.sh 1 quick
/venv/bin/python - <<'PY'
import json, glob, jsonschema
sch = json.load(open('/root/.vp/EVIDENCE.schema.json'))
bad = 0
for p in sorted(glob.glob('evidence/*.json')):
    try:
        jsonschema.validate(json.load(open(p)), sch)
    except Exception as e:
        bad += 1
        print("INVALID", p, str(e)[:200])
print("evidence files valid" if not bad else "%d invalid evidence files" % bad)
jsonschema.validate(json.load(open('MANIFEST.json')), json.load(open('/root/.vp/MANIFEST.schema.json')))
print("manifest valid")
PY
