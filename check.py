#!/venv/bin/python
"""check.py <Cxx> --tier quick|thorough [--replay FILE]

Single entry point of the verification machinery (DESIGN.md section 1).
Exit 0 = held; 1 = VIOLATION line printed; 2 = harness error.
"""
import argparse
import importlib
import os
import sys
import time
import traceback

HERE = os.path.dirname(os.path.abspath(__file__))


def main():
    ap = argparse.ArgumentParser()
    ap.add_argument("prop")
    ap.add_argument("--tier", default="quick", choices=["quick", "thorough"])
    ap.add_argument("--replay", default=None)
    args = ap.parse_args()

    # pure function of (tree, VERIF_SEED): pin the interpreter's hash seed for this process tree
    wanted = ("OMP_NUM_THREADS", "OPENBLAS_NUM_THREADS", "MKL_NUM_THREADS", "NUMEXPR_NUM_THREADS", "MALLOC_ARENA_MAX")
    if os.environ.get("PYTHONHASHSEED") != "0" or any(k not in os.environ for k in wanted):
        env = dict(os.environ)
        env["PYTHONHASHSEED"] = "0"
        # keep native thread pools and malloc arenas small: the worker processes are the unit of parallelism, and
        # address-space limits (C13) must not depend on how many cores the machine has
        for k in ("OMP_NUM_THREADS", "OPENBLAS_NUM_THREADS", "MKL_NUM_THREADS", "NUMEXPR_NUM_THREADS"):
            env.setdefault(k, "1")
        env.setdefault("MALLOC_ARENA_MAX", "2")
        os.execve(sys.executable, [sys.executable] + sys.argv, env)

    repo = os.environ.get("LIAN_REPO", "/repo")
    for p in (os.path.join(repo, "src"), HERE):
        if p not in sys.path:
            sys.path.insert(0, p)
    os.environ["PYTHONPATH"] = os.pathsep.join([os.path.join(repo, "src"), HERE] +
                                               [p for p in os.environ.get("PYTHONPATH", "").split(os.pathsep) if p])
    os.environ.setdefault("LIAN_VERIF", "1")

    tier = os.environ.get("VERIF_TIER") or args.tier
    if tier not in ("quick", "thorough"):
        tier = args.tier
    try:
        seed = int(os.environ.get("VERIF_SEED", "1"))
    except ValueError:
        seed = 1

    prop = args.prop.upper()
    t0 = time.time()
    try:
        mod = importlib.import_module("harness.props.%s" % prop.lower())
    except Exception:
        traceback.print_exc()
        print("HARNESS-ERROR: property=%s cannot import check module" % prop)
        return 2
    try:
        if args.replay:
            return int(mod.replay(args.replay))
        return int(mod.main(tier, seed, t0))
    except SystemExit as e:
        traceback.print_exc()
        print("HARNESS-ERROR: property=%s SystemExit(%r) escaped the check" % (prop, e.code))
        return 2
    except BaseException:
        traceback.print_exc()
        print("HARNESS-ERROR: property=%s unexpected exception in the check" % prop)
        return 2


def sweep_scratch():
    """check.py leaves through os._exit (no atexit): remove this process' scratch directory and the scratch
    directories of worker processes that are gone (lianverif-<pid>-*)."""
    import glob
    import re
    import shutil
    import tempfile
    try:
        lr = sys.modules.get("harness.lianrun")
        if lr is not None:
            lr.cleanup_scratch()
    except Exception:
        pass
    for d in glob.glob(os.path.join(tempfile.gettempdir(), "lianverif-*")):
        m = re.match(r"lianverif-(?:\w+-)?(\d+)-", os.path.basename(d))
        if not m:
            continue
        try:
            os.kill(int(m.group(1)), 0)
        except ProcessLookupError:
            shutil.rmtree(d, ignore_errors=True)
        except Exception:
            pass


if __name__ == "__main__":
    sys.stdout.reconfigure(line_buffering=True)
    code = main()
    sys.stdout.flush()
    try:
        sweep_scratch()
    except Exception:
        pass
    os._exit(code if code in (0, 1, 2) else 2)
