"""C16 helper: the naive reference model of a table, and the executor that drives
`lian.util.data_model.DataModel` / `lian.util.gir_block.GIRBlockViewer` through one operation
sequence and compares EVERY query with a scan of the model after EVERY operation.

No Hypothesis in here: a case is a JSON-serialisable dict

    {"kind": "table"|"gir", "ops": [[name, arg, ...], ...], "orders": "IRIR...", "stepover": [names]}

and `run_case(case, env)` replays it as is.

The model is a tuple of (label, tuple(values)) pairs plus a column list: it mirrors pandas' label
semantics (append relabels, remove_rows / slice / indexed sub-tables keep labels, reset_index relabels).
Values: ints, strings, None (= missing; NaN, None and an absent key all read back as "missing").
"""
import collections
import contextlib
import io
import os
import warnings

ID = "C16"
NAN = "@nan"        # JSON spelling of float('nan')
ABSENT = "@absent"  # JSON spelling of "this dict has no such key"

# operations whose implementation funnels through DataModel.set_refresh_flag (only used to NAME
# signatures: a stale cache after one of these has one root cause, after another op a different one)
FLAGGED = {"modify_element", "modify_row", "modify_column", "append", "remove_rows", "rename"}

# operations after which the comparison may be skipped ('N' in the order string) besides the FLAGGED ones: they create
# a new table object / handle; the in-place operations that never invalidate (fillna, reset_index, set_columns) are
# always followed by a comparison so that a stale cache is attributed to the operation that left it behind
SKIPPABLE = {"slice", "clone", "rewrap", "reframe", "query_take", "slow_take"}

# step-over names -> signature of the finding they step over (main() activates a step-over iff
# that signature is an OPEN known finding)
STEPOVER_SIGS = {
    "stale-index": (ID, "not-invalidated", "flagged-mutation", "index"),
    "fillna": (ID, "not-invalidated", "fillna", "rows"),
    "reset-move": (ID, "not-invalidated", "reset_index-move", "rows"),
    "set-columns": (ID, "not-invalidated", "set_columns", "rows"),
    "unique-nan": (ID, "unique_values", "nan-kept"),
    "np-zero": (ID, "isna-numpy-zero", "index_query"),
}


# ---------------------------------------------------------------------------------------------
# values

def is_missing(v):
    return v is None or (isinstance(v, float) and v != v)


def dec(v):
    """JSON value -> python value handed to lian."""
    if isinstance(v, str) and v == NAN:
        return float("nan")
    return v


def canon(v):
    """any value (ours or read back from lian) -> model value."""
    if v is None:
        return None
    tn = type(v).__name__
    if tn in ("NAType", "NaTType"):
        return None
    if not isinstance(v, (int, float, str)) and hasattr(v, "item"):
        try:
            v = v.item()
        except Exception:
            pass
    if isinstance(v, float):
        if v != v:
            return None
        if v == int(v):
            return int(v)
        return v
    if isinstance(v, str):
        if v == NAN or v == ABSENT:
            return None
        return str(v)
    return v


def isna_spec(v):
    """What `util.isna` is meant to say (DESIGN: missing values never match): None / NaN / an empty
    string or container.  A number is never missing unless it is NaN — 0 is a value, whatever its
    numeric type."""
    v = canon(v)
    if v is None:
        return True
    if isinstance(v, (int, float)):
        return False
    try:
        return len(v) == 0
    except TypeError:
        return False


def veq(a, b):
    a, b = canon(a), canon(b)
    if a is None or b is None:
        return a is None and b is None
    if isinstance(a, str) != isinstance(b, str):
        return False
    return a == b


def rows_eq(got, exp):
    if len(got) != len(exp):
        return False
    for g, e in zip(got, exp):
        if len(g) != len(e):
            return False
        for x, y in zip(g, e):
            if not veq(x, y):
                return False
    return True


# ---------------------------------------------------------------------------------------------
# the model (persistent: every operation returns a new Model)

class Model:
    __slots__ = ("cols", "rows", "kinds")

    def __init__(self, cols, rows, kinds=None):
        self.cols = tuple(cols)
        self.rows = tuple((lab, tuple(vals)) for lab, vals in rows)
        self.kinds = dict(kinds or {})

    # -- helpers
    def n(self):
        return len(self.rows)

    def ci(self, col):
        return self.cols.index(col)

    def labels(self):
        return [lab for lab, _ in self.rows]

    def values(self):
        return [vals for _, vals in self.rows]

    def column(self, col):
        i = self.ci(col)
        return [vals[i] for _, vals in self.rows]

    def with_(self, cols=None, rows=None, kinds=None):
        return Model(self.cols if cols is None else cols, self.rows if rows is None else rows,
                     self.kinds if kinds is None else kinds)

    # -- scans = the oracle of every query
    def positions(self, col, value):
        if isna_spec(value):
            return []
        i = self.ci(col)
        v = canon(value)
        return [p for p, (_, vals) in enumerate(self.rows) if not isna_spec(vals[i]) and veq(vals[i], v)]

    def unique(self, col):
        return {v for v in self.column(col) if v is not None}

    # -- operations
    @staticmethod
    def from_rows(cols, rows, kinds=None, labels=None):
        out = []
        for k, r in enumerate(rows):
            out.append((k if labels is None else labels[k], [canon(v) for v in r]))
        return Model(cols, out, kinds)

    def modify_element(self, pos, col, value):
        i = self.ci(col)
        rows = list(self.rows)
        lab, vals = rows[pos]
        vals = list(vals)
        vals[i] = canon(value)
        rows[pos] = (lab, vals)
        return self.with_(rows=rows)

    def modify_row(self, pos, values):
        rows = list(self.rows)
        rows[pos] = (rows[pos][0], [canon(v) for v in values])
        return self.with_(rows=rows)

    def modify_column(self, col, value, is_list, kind=None):
        cols = list(self.cols)
        kinds = dict(self.kinds)
        if kind:
            kinds[col] = kind
        if col not in cols:
            cols.append(col)
            rows = [(lab, list(vals) + [None]) for lab, vals in self.rows]
        else:
            rows = [(lab, list(vals)) for lab, vals in self.rows]
        i = cols.index(col)
        for k, (lab, vals) in enumerate(rows):
            vals[i] = canon(value[k]) if is_list else canon(value)
        return Model(cols, rows, kinds)

    def append(self, cols2, rows2, kinds2=None):
        cols = list(self.cols) + [c for c in cols2 if c not in self.cols]
        kinds = dict(self.kinds)
        for c, k in (kinds2 or {}).items():
            kinds.setdefault(c, k)
        out = []
        for _, vals in self.rows:
            d = dict(zip(self.cols, vals))
            out.append([d.get(c) for c in cols])
        for r in rows2:
            d = dict(zip(cols2, [canon(v) for v in r]))
            out.append([d.get(c) for c in cols])
        return Model(cols, [(k, v) for k, v in enumerate(out)], kinds)

    def remove_rows(self, col, value):
        i = self.ci(col)
        v = canon(value)
        if v is None:
            return self
        return self.with_(rows=[(lab, vals) for lab, vals in self.rows if not (vals[i] is not None and veq(vals[i], v))])

    def rename(self, mapping):
        cols = [mapping.get(c, c) for c in self.cols]
        kinds = {mapping.get(c, c): k for c, k in self.kinds.items()}
        return Model(cols, self.rows, kinds)

    def set_columns(self, names):
        kinds = {n: self.kinds.get(c) for c, n in zip(self.cols, names)}
        return Model(names, self.rows, kinds)

    def slice(self, start, end):
        return self.with_(rows=self.rows[start:end])

    def take(self, positions, relabel=False):
        rows = [self.rows[p] for p in positions]
        if relabel:
            rows = [(k, vals) for k, (_, vals) in enumerate(rows)]
        return self.with_(rows=rows)

    def reset_index(self, move=False):
        if move:
            cols = ["index"] + list(self.cols)
            kinds = dict(self.kinds)
            kinds["index"] = "i"
            return Model(cols, [(k, [lab] + list(vals)) for k, (lab, vals) in enumerate(self.rows)], kinds)
        return self.with_(rows=[(k, vals) for k, (_, vals) in enumerate(self.rows)])

    def fillna(self, mapping):
        idx = {self.ci(c): canon(v) for c, v in mapping.items() if c in self.cols}
        rows = []
        for lab, vals in self.rows:
            vals = list(vals)
            for i, v in idx.items():
                if vals[i] is None:
                    vals[i] = v
            rows.append((lab, vals))
        return self.with_(rows=rows)

    # -- block geometry (GIR-like tables: columns stmt_id, operation)
    def is_gir(self):
        return "stmt_id" in self.cols and "operation" in self.cols

    def wellformed(self):
        """The validation rules GIRBlockViewer documents (and tests/run/test_gir_block.py asserts): ids are
        unique except that a block_start and its block_end share one id; markers nest properly."""
        si, oi = self.ci("stmt_id"), self.ci("operation")
        first = {}
        stack = []
        for p, (_, vals) in enumerate(self.rows):
            sid, op = vals[si], vals[oi]
            if sid is None:
                return False
            if sid in first:
                if not (self.rows[first[sid]][1][oi] == "block_start" and op == "block_end"):
                    return False
            else:
                first[sid] = p
            if op == "block_start":
                stack.append(sid)
            elif op == "block_end":
                if not stack or stack.pop() != sid:
                    return False
        return not stack

    def blocks(self):
        """block id -> (start position, end position) for a well-formed table."""
        si, oi = self.ci("stmt_id"), self.ci("operation")
        out = {}
        stack = []
        for p, (_, vals) in enumerate(self.rows):
            if vals[oi] == "block_start":
                stack.append((vals[si], p))
            elif vals[oi] == "block_end":
                bid, s = stack.pop()
                out[bid] = (s, p)
        return out


# ---------------------------------------------------------------------------------------------
# environment (the code under test)

class Env:
    def __init__(self):
        import builtins
        if not hasattr(builtins, "profile"):
            builtins.profile = lambda f: f
        warnings.filterwarnings("ignore")
        import numpy as np
        import pandas as pd
        from lian.util import data_model, gir_block
        self.np = np
        self.pd = pd
        self.DataModel = data_model.DataModel
        self.Row = data_model.Row
        self.GIRBlockViewer = gir_block.GIRBlockViewer


_ENV = None


def env():
    global _ENV
    if _ENV is None:
        _ENV = Env()
    return _ENV


class Crash(Exception):
    def __init__(self, where, exc):
        Exception.__init__(self, "%s raised %s: %s" % (where, type(exc).__name__, str(exc)[:160]))
        self.where = where
        self.exc = exc


def call(where, fn, *a, **kw):
    try:
        return fn(*a, **kw)
    except KeyboardInterrupt:
        raise
    except BaseException as e:      # SystemExit = util.error_and_quit
        raise Crash(where, e)


class Attributed(Exception):
    """A discrepancy whose signature is already final."""
    def __init__(self, sig, what):
        Exception.__init__(self, what)
        self.sig = tuple(sig)
        self.what = what


class Found(Exception):
    """A discrepancy (control flow inside the comparison routines)."""
    def __init__(self, family, sig_tail, what):
        Exception.__init__(self, what)
        self.family = family        # "rows" | "index" | "other"
        self.sig_tail = tuple(sig_tail)
        self.what = what


# ---------------------------------------------------------------------------------------------
# building real tables from JSON

def build_rows_table(E, cols, rows, form):
    """-> DataModel.  form: dicts | dicts+cols | dicts+dictcols | tuples+cols | coldict"""
    if form == "coldict":
        data = {c: [dec(r[i]) if r[i] != ABSENT else None for r in rows] for i, c in enumerate(cols)}
        return E.DataModel(data)
    if form == "tuples+cols":
        data = [tuple(dec(v) if v != ABSENT else None for v in r) for r in rows]
        return E.DataModel(data, columns=list(cols))
    dicts = []
    for r in rows:
        d = {}
        for c, v in zip(cols, r):
            if isinstance(v, str) and v == ABSENT:
                continue
            d[c] = dec(v)
        dicts.append(d)
    if form == "dicts":
        return E.DataModel(dicts)
    if form == "dicts+cols":
        return E.DataModel(dicts, columns=list(cols))
    if form == "dicts+dictcols":
        return E.DataModel(dicts, columns={c: i for i, c in enumerate(cols)})
    raise ValueError("unknown form %r" % (form,))


def build_frame(E, cols, rows, labels=None):
    data = {c: [dec(r[i]) if r[i] != ABSENT else None for r in rows] for i, c in enumerate(cols)}
    if labels is None:
        return E.pd.DataFrame(data, columns=list(cols))
    return E.pd.DataFrame(data, columns=list(cols), index=list(labels))


# ---------------------------------------------------------------------------------------------
# comparisons

def row_vals(row, cols):
    d = row.to_dict()
    return [d.get(c, "<no such column>") for c in cols], list(d.keys())


def _short(x, n=160):
    s = repr(x)
    return s if len(s) <= n else s[:n] + "..."


def check_rows(E, dm, m):
    """Queries by row position / iteration / column (everything that reads the cached row view)."""
    n = m.n()
    cols = list(m.cols)
    got = call("len", len, dm)
    if got != n:
        raise Found("rows", ("len", "differs"), "len()=%r, scan says %d" % (got, n))
    if call("is_empty", dm.is_empty) != (n == 0):
        raise Found("rows", ("len", "is_empty"), "is_empty() wrong for %d rows" % n)
    # iteration
    it = call("iter", list, dm)
    if len(it) != n:
        raise Found("rows", ("iter", "count"), "iteration yields %d rows, scan says %d" % (len(it), n))
    for p, row in enumerate(it):
        vals, keys = call("Row.to_dict", row_vals, row, cols)
        if keys != cols:
            raise Found("rows", ("iter", "row-schema"), "row %d has columns %r, table has %r" % (p, keys, cols))
        if not rows_eq([vals], [m.rows[p][1]]):
            raise Found("rows", ("iter", "row-content"), "iteration row %d = %s, scan says %s" % (p, _short(vals), _short(m.rows[p][1])))
        if row.get_index() != m.rows[p][0]:
            raise Found("rows", ("iter", "row-label"), "iteration row %d carries index %r, its label is %r" % (p, row.get_index(), m.rows[p][0]))
    # access(pos) for every position, and just outside
    for p in range(-1, n + 2):
        for form in (0, 1):
            if form == 1 and (p % 3):
                continue
            arg = p if form == 0 else E.np.int64(p)
            row = call("access", dm.access, arg)
            if p < 0 or p >= n:
                if row is not None:
                    raise Found("rows", ("access", "out-of-range-not-none"), "access(%d) on %d rows = %r" % (p, n, row))
                continue
            if row is None:
                raise Found("rows", ("access", "valid-position-none"), "access(%d) on %d rows = None" % (p, n))
            vals, keys = call("Row.to_dict", row_vals, row, cols)
            if keys != cols:
                raise Found("rows", ("access", "row-schema"), "access(%d) has columns %r, table has %r" % (p, keys, cols))
            if not rows_eq([vals], [m.rows[p][1]]):
                raise Found("rows", ("access", "row-content"), "access(%d) = %s, scan says %s" % (p, _short(vals), _short(m.rows[p][1])))
            if row.get_index() != m.rows[p][0]:
                raise Found("rows", ("access", "row-label"), "access(%d) carries index %r, its label is %r" % (p, row.get_index(), m.rows[p][0]))
            for c, e in zip(cols, m.rows[p][1]):
                if not c.startswith("_") and not veq(getattr(row, c), e):
                    raise Found("rows", ("access", "row-attr"), "access(%d).%s = %r, scan says %r" % (p, c, getattr(row, c), e))
    if n:
        some = list(range(0, n, 2))
        for arg in (some, set(some)):
            lst = call("access(list)", dm.access, arg)
            gotv = sorted((r.get_index(), [repr(canon(v)) for v in row_vals(r, cols)[0]]) for r in lst)
            expv = sorted((m.rows[p][0], [repr(v) for v in m.rows[p][1]]) for p in some)
            if gotv != expv:
                raise Found("rows", ("access", "list-content"), "access(%r) = %s, scan says %s" % (arg, _short(gotv), _short(expv)))
        got = call("getitem", dm.__getitem__, n - 1)
        if not rows_eq([row_vals(got, cols)[0]], [m.rows[n - 1][1]]):
            raise Found("rows", ("access", "row-content"), "dm[%d] differs from scan" % (n - 1))
    rows = call("get_rows", dm.get_rows)
    if len(rows) != n or (n and len(rows[0]) != len(cols)):
        raise Found("rows", ("get_rows", "shape"), "get_rows() has shape %r, table is %dx%d" % (getattr(rows, "shape", None), n, len(cols)))
    if not rows_eq([list(r) for r in rows], m.values()):
        raise Found("rows", ("get_rows", "content"), "get_rows() differs from scan")


def check_columns(E, dm, m, active):
    n = m.n()
    cols = list(m.cols)
    schema = list(call("get_schema", dm.get_schema))
    if schema != cols:
        raise Found("other", ("schema", "differs"), "get_schema()=%r, model %r" % (schema, cols))
    for c in cols:
        exp = m.column(c)
        col = call("access_column", dm.access_column, c)
        got = list(col)
        if not rows_eq([got], [exp]):
            raise Found("other", ("access_column", "values"), "access_column(%r)=%s, scan says %s" % (c, _short(got), _short(exp)))
        if call("Column.is_empty", col.is_empty) != (n == 0):
            raise Found("other", ("access_column", "is_empty"), "Column.is_empty wrong")
        got2 = list(call("getitem(str)", dm.__getitem__, c))
        if not rows_eq([got2], [exp]):
            raise Found("other", ("access_column", "values"), "dm[%r] differs from scan" % c)
        # unique values (missing values are to be discarded: that is what the method's discards are for)
        u = call("unique_values_of_column", dm.unique_values_of_column, c)
        gotu = [canon(v) for v in u]
        expu = m.unique(c)
        if any(v is None for v in gotu) and {v for v in gotu if v is not None} == expu:
            if "unique-nan" in active:
                active["unique-nan"] += 1
            else:
                raise Found("other", ("unique_values", "nan-kept"),
                            "unique_values_of_column(%r) = %s keeps NaN (scan without missing values: %s)" % (c, _short(u), _short(expu)))
        elif set(gotu) != expu or len(gotu) != len(expu):
            raise Found("other", ("unique_values", "differs"), "unique_values_of_column(%r) = %s, scan says %s" % (c, _short(u), _short(expu)))
    # label-based cell access (mirrors pandas .loc): one column per table, every label
    if n and cols:
        c = cols[n % len(cols)]
        i = m.ci(c)
        for lab, vals in m.rows:
            got = call("access(label,col)", dm.access, lab, c)
            if not veq(got, vals[i]):
                raise Found("other", ("access_cell", "value"), "access(%r, %r)=%r, scan says %r" % (lab, c, got, vals[i]))
    # records without missing values
    recs = call("convert_to_dict_list", dm.convert_to_dict_list)
    exp = [{c: v for c, v in zip(cols, vals) if v is not None} for vals in m.values()]
    gotr = [{k: canon(v) for k, v in r.items()} for r in recs]
    if len(gotr) != len(exp) or any(set(g) != set(e) or any(not veq(g[k], e[k]) for k in e) for g, e in zip(gotr, exp)):
        raise Found("other", ("convert_to_dict_list", "differs"), "convert_to_dict_list()=%s, scan says %s" % (_short(gotr), _short(exp)))


ALPHABET = {"i": [0, 1, 2, 3], "s": ["x", "y", "z", ""], "o": [1, 2, "x", "y"]}


def probe_values(E, raw, m, c, active):
    """Values an equality query on column c is asked for: every value present (as a python scalar, ints also in
    their float spelling, numpy scalars as read back from the table), values that are absent, and missing values.
    -> list of (value, deep)"""
    out = []
    seen = set()
    present = []
    for v in m.column(c):
        if v is not None and repr(v) not in seen:
            seen.add(repr(v))
            present.append(v)
    n = m.n()
    stride = max(1, (len(present) + 4) // 5)
    for k, v in enumerate(present):
        out.append((v, (k + n) % stride == 0))
        if isinstance(v, int) and (k + n) % 2 == 0:
            out.append((float(v), False))
    i = m.ci(c)
    done = set()
    for p in range(n):
        x = raw[p][i]
        if not isinstance(x, E.np.generic) or canon(x) is None:
            continue            # python scalars are asked above
        key = repr(canon(x))
        if key in done:
            continue
        done.add(key)
        if canon(x) == 0 and not isinstance(x, float) and "np-zero" in active:
            active["np-zero"] += 1
            continue
        out.append((x, False))
    k = 0
    for v in ALPHABET.get(m.kinds.get(c), [7, "q"]):
        if repr(v) not in seen:
            out.append((v, k == 0))
            k += 1
    out.extend([(None, True), (float("nan"), False), ("", False)])
    return out


def check_index(E, dm, m, active, deep=True):
    """Queries by equality on an indexed column.  deep: also the table / first-row forms of the query (for a
    rotating sample of at most ~5 present values per column, one absent value and None)."""
    n = m.n()
    cols = list(m.cols)
    # (read through get_data(): get_rows() would refresh the caches this query is supposed to find valid)
    raw = dm.get_data().values if n else []
    if len(raw) != n or (n and len(raw[0]) != len(cols)):
        raise Found("rows", ("len", "differs"), "the table holds %d rows x %d columns, scan says %d x %d" % (
            len(raw), len(raw[0]) if len(raw) else 0, n, len(cols)))
    for c in cols:
        # one scan of the model column: value -> positions
        scan = {}
        for p, x in enumerate(m.column(c)):
            if not isna_spec(x):
                scan.setdefault((isinstance(x, str), x), []).append(p)
        for v, dp in probe_values(E, raw, m, c, active):
            cv = canon(v)
            exp = [] if isna_spec(cv) else scan.get((isinstance(cv, str), cv), [])
            got = call("query_index_column_value_indices", dm.query_index_column_value_indices, c, v)
            got = [int(x) for x in got]
            if got != exp:
                if any(x < 0 or x >= n for x in got):
                    kind = "position-out-of-range"
                elif sorted(got) == exp:
                    kind = "positions-unsorted"
                else:
                    kind = "positions-differ"
                if exp and not got and not isinstance(v, (int, float, str)) and canon(v) == 0:
                    raise Found("other", ("isna-numpy-zero", "index_query"),
                                "query_index_column_value_indices(%r, %r of type %s) = [] but rows %s hold 0 (python 0 matches)" % (c, v, type(v).__name__, exp))
                raise Found("index", ("index_query", kind),
                            "query_index_column_value_indices(%r, %r) = %s on %d rows, scan says %s" % (c, v, got, n, exp))
            if not (deep and dp):
                continue
            sub = call("query_index_column_value", dm.query_index_column_value, c, v)
            if not exp:
                if not (isinstance(sub, list) and sub == []):
                    raise Found("index", ("index_query_value", "miss-not-empty"), "query_index_column_value(%r, %r) = %s, scan finds nothing" % (c, v, _short(sub)))
            else:
                if not isinstance(sub, E.DataModel):
                    raise Found("index", ("index_query_value", "hit-not-table"), "query_index_column_value(%r, %r) = %s, scan says rows %s" % (c, v, _short(sub), exp))
                gr = [list(r) for r in call("get_rows(sub)", sub.get_rows)]
                er = [m.rows[p][1] for p in exp]
                if not rows_eq(gr, er):
                    raise Found("index", ("index_query_value", "rows-differ"), "query_index_column_value(%r, %r) rows %s, scan says %s" % (c, v, _short(gr), _short(er)))
                gl = [r.get_index() for r in sub]
                if gl != [m.rows[p][0] for p in exp]:
                    raise Found("index", ("index_query_value", "labels-differ"), "query_index_column_value(%r, %r) labels %s, scan says %s" % (c, v, gl, [m.rows[p][0] for p in exp]))
                if list(sub.get_schema()) != cols:
                    raise Found("index", ("index_query_value", "schema-differs"), "sub-table columns %r" % (list(sub.get_schema()),))
            first = call("query_index_column_value_first", dm.query_index_column_value_first, c, v)
            if not exp:
                if first is not None:
                    raise Found("index", ("index_query_first", "miss-not-none"), "query_index_column_value_first(%r, %r) = %r, scan finds nothing" % (c, v, first))
            else:
                if first is None:
                    raise Found("index", ("index_query_first", "hit-none"), "query_index_column_value_first(%r, %r) = None, scan says position %d" % (c, v, exp[0]))
                vals, keys = call("Row.to_dict", row_vals, first, cols)
                if keys != cols or not rows_eq([vals], [m.rows[exp[0]][1]]):
                    raise Found("index", ("index_query_first", "row-differs"), "query_index_column_value_first(%r, %r) = %s, scan says %s" % (c, v, _short(vals), _short(m.rows[exp[0]][1])))
                if first.get_index() != exp[0]:
                    raise Found("index", ("index_query_first", "position-differs"), "query_index_column_value_first(%r, %r) position %r, scan says %d" % (c, v, first.get_index(), exp[0]))


def check_bundle_search(E, dm, m, active):
    """Column.bundle_search (the equality filter of Column, backed by the same index)."""
    for c in m.cols:
        colvals = m.column(c)
        present = []
        for v in colvals:
            if v is not None and v not in present and not isna_spec(v):
                present.append(v)
        if "np-zero" in active and any(isinstance(v, (int, float)) and v == 0 for v in present):
            # bundle_search indexes the numpy values of the column; a numpy 0 is skipped (open finding) and the
            # poisoned index would then answer every later query on this column: not asked
            active["np-zero"] += 1
            continue
        col = call("access_column", dm.access_column, c)
        for v in present + [9, "nope"]:
            got = sorted(int(x) for x in call("bundle_search", col.bundle_search, v))
            exp = m.positions(c, v)
            if got != exp:
                if exp and not got and isinstance(v, (int, float)) and v == 0:
                    raise Found("other", ("isna-numpy-zero", "bundle_search"),
                                "Column(%r).bundle_search(0) = [] but rows %s hold 0" % (c, exp))
                raise Found("index", ("bundle_search", "positions-differ"), "Column(%r).bundle_search(%r) = %s, scan says %s" % (c, v, got, exp))


def check_slow_query(E, dm, m):
    n = m.n()
    cols = list(m.cols)
    if not cols:
        return
    c = cols[(n + 1) % len(cols)]
    present = [v for v in m.column(c) if v is not None]
    v = present[n % len(present)] if present else 1
    exp = [p for p, x in enumerate(m.column(c)) if x is not None and veq(x, v)]
    colobj = call("access_column", dm.access_column, c)
    mask = call("Column.__eq__", colobj.__eq__, v)
    if [bool(b) for b in mask] != [p in exp for p in range(n)]:
        raise Found("other", ("slow_query", "mask"), "(column %r == %r) = %s, scan says positions %s" % (c, v, list(mask), exp))
    isin = call("Column.isin", colobj.isin, [v])
    if [bool(b) for b in isin] != [p in exp for p in range(n)]:
        raise Found("other", ("slow_query", "isin"), "column %r isin [%r] = %s, scan says positions %s" % (c, v, list(isin), exp))
    for reset in (True, False):
        sub = call("slow_query", dm.slow_query, mask, reset_index=reset)
        gr = [list(r) for r in call("get_rows(sub)", sub.get_rows)]
        if not rows_eq(gr, [m.rows[p][1] for p in exp]):
            raise Found("other", ("slow_query", "rows-differ"), "slow_query(%r == %r) rows %s, scan says %s" % (c, v, _short(gr), exp))
        gl = [r.get_index() for r in sub]
        el = list(range(len(exp))) if reset else [m.rows[p][0] for p in exp]
        if gl != el:
            raise Found("other", ("slow_query", "labels-differ"), "slow_query(reset_index=%r) labels %s, expected %s" % (reset, gl, el))
    ci = m.ci(c)
    cell = list(call("slow_query(mask,col)", dm.slow_query, mask, c))
    if not rows_eq([cell], [[m.rows[p][1][ci] for p in exp]]):
        raise Found("other", ("slow_query", "column-values"), "slow_query(%r == %r, %r) = %s, scan says rows %s" % (c, v, c, _short(cell), exp))
    if exp:
        labs = [m.rows[p][0] for p in exp]
        sub = call("slow_query(labels)", dm.slow_query, list(labs), reset_index=False)
        gr = [list(r) for r in call("get_rows(sub)", sub.get_rows)]
        if not rows_eq(gr, [m.rows[p][1] for p in exp]) or [r.get_index() for r in sub] != labs:
            raise Found("other", ("slow_query", "by-labels"), "slow_query(%r) rows %s, scan says %s" % (labs, _short(gr), exp))
    first = call("slow_query_first", dm.slow_query_first, mask)
    if not exp:
        if first is not None:
            raise Found("other", ("slow_query_first", "miss-not-none"), "slow_query_first = %r" % (first,))
    else:
        if first is None or not rows_eq([row_vals(first, cols)[0]], [m.rows[exp[0]][1]]) or first.get_index() != exp[0]:
            raise Found("rows", ("slow_query_first", "row-differs"), "slow_query_first(%r == %r) = %r, scan says position %d" % (c, v, first, exp[0]))


def check_blocks(E, dm, m, active):
    """Queries by block id on a GIR-like table (DataModel side)."""
    n = m.n()
    si = m.ci("stmt_id")
    ids = []
    for v in m.column("stmt_id"):
        if v is not None and v not in ids:
            ids.append(v)
    pos = {b: m.positions("stmt_id", b) for b in ids}
    probe = list(ids) + [999]
    for b in probe:
        if "np-zero" in active and b == 0:
            continue
        e = pos.get(b, [])
        for arg in ((b, float(b)) if isinstance(b, int) else (b,)):
            got = call("search_block_start_end_indics", dm.search_block_start_end_indics, arg)
            if [int(x) for x in got] != e:
                raise Found("index", ("block", "search", "positions-differ"), "search_block_start_end_indics(%r) = %s, scan says %s" % (arg, list(got), e))
            if isinstance(arg, float) and (len(e) != 2 or (e[0] + n) % 3):
                continue
            resets = (False, True) if (e and (e[0] + n) % 2 == 0) else (False,)
            if len(e) == 2:
                for reset in resets:
                    blk = call("read_block", dm.read_block, arg, reset_index=reset)
                    exp_rows = m.rows[e[0] + 1:e[1]]
                    _cmp_table(E, blk, exp_rows, m.cols, reset, ("block", "read_block"), "read_block(%r)" % (arg,))
            if len(e) <= 2:
                for reset in resets:
                    blk = call("read_block_with_block_stmts", dm.read_block_with_block_stmts, arg, reset_index=reset)
                    if len(e) < 2:
                        if not (isinstance(blk, list) and blk == []):
                            raise Found("index", ("block", "read_block_with_block_stmts", "miss-not-empty"), "read_block_with_block_stmts(%r) = %s, id occurs %d times" % (arg, _short(blk), len(e)))
                    else:
                        _cmp_table(E, blk, m.rows[e[0]:e[1] + 1], m.cols, reset, ("block", "read_block_with_block_stmts"), "read_block_with_block_stmts(%r)" % (arg,))
    for arg in (None, float("nan"), ""):
        if call("search_block_start_end_indics", dm.search_block_start_end_indics, arg) is not None:
            raise Found("index", ("block", "search", "missing-id-not-none"), "search_block_start_end_indics(%r) is not None" % (arg,))
        for name in ("read_block", "read_block_with_block_stmts"):
            r = call(name, getattr(dm, name), arg)
            if not (isinstance(r, list) and r == []):
                raise Found("index", ("block", name, "missing-id-not-empty"), "%s(%r) = %s" % (name, arg, _short(r)))
    # boundary_of_multi_blocks: the largest position of any of the ids, -1 if none
    usable = [b for b in ids if not ("np-zero" in active and b == 0)]
    groups = [[], [None], [float("nan"), 999]]
    for k in range(len(usable)):
        groups.append([usable[k]])
        groups.append([usable[k], None, usable[(k * 7 + 3) % len(usable)]])
    if usable:
        groups.append(list(usable))
    for g in groups:
        exp = max([-1] + [p for b in g if not isna_spec(b) for p in pos.get(b, [])])
        got = call("boundary_of_multi_blocks", dm.boundary_of_multi_blocks, g)
        if int(got) != exp:
            raise Found("index", ("block", "boundary_of_multi_blocks", "differs"), "boundary_of_multi_blocks(%r) = %r, scan says %d" % (g, got, exp))


def _cmp_table(E, tbl, exp_rows, cols, reset, sig, what):
    if not isinstance(tbl, E.DataModel):
        raise Found("index", sig + ("not-table",), "%s = %s" % (what, _short(tbl)))
    gr = [list(r) for r in call("get_rows(sub)", tbl.get_rows)] if len(tbl) else []
    if not rows_eq(gr, [vals for _, vals in exp_rows]):
        raise Found("index", sig + ("rows-differ",), "%s rows %s, scan says %s" % (what, _short(gr), _short([v for _, v in exp_rows])))
    gl = [r.get_index() for r in tbl]
    el = list(range(len(exp_rows))) if reset else [lab for lab, _ in exp_rows]
    if gl != el:
        raise Found("index", sig + ("labels-differ",), "%s labels %s, expected %s" % (what, gl, el))


# -- GIRBlockViewer -------------------------------------------------------------------------------

def _ids(stmts):
    return [canon(s.stmt_id) for s in stmts]


def check_viewer_view(E, v, m, rng, blocks, tag, full=True):
    """Compare one viewer (whose visible range is rng=(start,end), exclusive) with scans of the model rows.
    full=False: the queries whose answer depends on the visible range only through `contains_index` are asked for a
    sample of their arguments (the root view asks them all)."""
    si, oi = m.ci("stmt_id"), m.ci("operation")
    rows = m.values()
    n = len(rows)
    s, e = rng
    vis = list(range(s + 1, e))
    S = ("viewer", tag)
    if call("viewer.len", len, v) != len(vis):
        raise Found("other", S + ("len",), "len(viewer %s)=%d, scan says %d" % (rng, len(v), len(vis)))
    got = call("viewer.iter", list, v)
    if [(canon(x.stmt_id), x.operation) for x in got] != [(rows[p][si], rows[p][oi]) for p in vis]:
        raise Found("other", S + ("iter",), "viewer %s iterates %s, scan says %s" % (rng, _short(_ids(got)), [rows[p][si] for p in vis]))
    for k in list(range(len(vis))) + [-1, -len(vis)] if vis else []:
        x = call("viewer.getitem", v.__getitem__, k)
        if canon(x.stmt_id) != rows[vis[k]][si] or x.operation != rows[vis[k]][oi]:
            raise Found("other", S + ("getitem",), "viewer %s [%d] is stmt %r, scan says %r" % (rng, k, x.stmt_id, rows[vis[k]][si]))
    for k in (len(vis), -len(vis) - 1):
        try:
            v[k]
        except IndexError:
            pass
        except BaseException as ex:
            raise Crash("viewer.getitem", ex)
        else:
            raise Found("other", S + ("getitem-out-of-range",), "viewer %s [%d] did not raise IndexError" % (rng, k))
    if call("viewer.get_all_stmt_ids", v.get_all_stmt_ids) != sorted({rows[p][si] for p in vis}):
        raise Found("other", S + ("get_all_stmt_ids",), "get_all_stmt_ids of viewer %s differs from scan" % (rng,))
    # by id
    first = {}
    for p in range(n):
        first.setdefault(rows[p][si], p)
    sids = list(first)
    if not full:
        sids = sids[(s + 1) % 3::3] + [rows[p][si] for p in vis[:2]]
    for sid in sids + [999, None]:
        p = first.get(sid)
        exp = p if (p is not None and s < p < e) else None
        x = call("viewer.get_stmt_by_id", v.get_stmt_by_id, sid)
        if (x is None) != (exp is None) or (x is not None and (canon(x.stmt_id) != sid or x.operation != rows[exp][oi])):
            raise Found("other", S + ("get_stmt_by_id",), "viewer %s get_stmt_by_id(%r) = %r, scan says position %r" % (rng, sid, x, exp))
        if bool(call("viewer.contains_stmt_id", v.contains_stmt_id, sid)) != (exp is not None):
            raise Found("other", S + ("contains_stmt_id",), "viewer %s contains_stmt_id(%r) wrong" % (rng, sid))
        if x is not None and not call("viewer.contains", v.__contains__, x):
            raise Found("other", S + ("contains",), "stmt %r returned by the viewer is 'not in' it" % (sid,))
    # by position
    for p in (range(-2, n + 2) if full else sorted({s - 1, s, s + 1, e - 1, e, e + 1, (s + e) // 2})):
        x = call("viewer.get_stmt_by_pos", v.get_stmt_by_pos, p)
        exp = p if s < p < e else None
        if (x is None) != (exp is None) or (x is not None and canon(x.stmt_id) != rows[p][si]):
            raise Found("other", S + ("get_stmt_by_pos",), "viewer %s get_stmt_by_pos(%d) = %r, scan says %r" % (rng, p, x, exp))
        if bool(v.contains_index_pos(p)) != (exp is not None):
            raise Found("other", S + ("contains_index_pos",), "viewer %s contains_index_pos(%d) wrong" % (rng, p))
    # by operation / by field
    ops = []
    for p in range(n):
        if rows[p][oi] not in ops:
            ops.append(rows[p][oi])
    for op in ops + ["no_such_op"]:
        got = call("viewer.query_operation", v.query_operation, op)
        exp = [rows[p][si] for p in vis if rows[p][oi] == op]
        if _ids(got) != exp or any(x.operation != op for x in got):
            raise Found("other", S + ("query_operation",), "viewer %s query_operation(%r) = %s, scan says %s" % (rng, op, _ids(got), exp))
    for f in (m.cols if full else [c for c in ("name", "parent_stmt_id") if c in m.cols][:1 + (s % 2)]):
        fi = m.ci(f)
        vals = []
        for p in range(n):
            if rows[p][fi] is not None and rows[p][fi] not in vals:
                vals.append(rows[p][fi])
        for val in (vals[:4] + ["no_such_value"] if full else vals[s % 2:s % 2 + 2]):
            got = call("viewer.query_field", v.query_field, f, val)
            exp = [(p, rows[p][si]) for p in vis if rows[p][fi] is not None and veq(rows[p][fi], val)]
            if _ids(got) != [x[1] for x in exp]:
                raise Found("other", S + ("query_field",), "viewer %s query_field(%r, %r) = %s, scan says %s" % (rng, f, val, _ids(got), [x[1] for x in exp]))
    # by block id
    for b in list(blocks) + [999, None, float("nan")]:
        br = blocks.get(b) if not is_missing(b) else None
        exp_ids = [rows[p][si] for p in range(br[0] + 1, br[1])] if br else []
        got = call("viewer.get_block_stmt_ids", v.get_block_stmt_ids, b)
        if [canon(x) for x in got] != exp_ids:
            raise Found("other", S + ("get_block_stmt_ids",), "get_block_stmt_ids(%r) = %s, scan says %s" % (b, got, exp_ids))
        sub = call("viewer.read_block", v.read_block, b)
        visible = br is not None and s < br[0] and br[1] < e
        if (sub is not None) != visible:
            raise Found("other", S + ("read_block", "visibility"), "viewer %s read_block(%r) = %r, block range %r" % (rng, b, sub, br))
        if sub is not None:
            if _ids(call("viewer.iter", list, sub)) != exp_ids or len(sub) != len(exp_ids):
                raise Found("other", S + ("read_block", "content"), "viewer %s read_block(%r) iterates %s, scan says %s" % (rng, b, _ids(list(sub)), exp_ids))
    bl = list(blocks)
    groups = [[], [999, None]] + [[b] for b in bl] + ([bl, [bl[0], None, bl[-1]]] if bl else [])
    for g in groups:
        exp = max([-1] + [blocks[b][1] for b in g if not is_missing(b) and b in blocks])
        got = call("viewer.boundary_of_multi_blocks", v.boundary_of_multi_blocks, g)
        if got != exp:
            raise Found("other", S + ("boundary_of_multi_blocks",), "viewer boundary_of_multi_blocks(%r) = %r, scan says %d" % (g, got, exp))


def check_viewer(E, dm, m):
    if any(v is None for v in m.column("stmt_id")) or any(v is None for v in m.column("operation")):
        return "skipped-missing-id-or-operation"      # a GIR row always has an id and an operation
    ok = m.wellformed()
    try:
        root = E.GIRBlockViewer(dm)
    except RuntimeError as ex:
        if ok:
            raise Found("other", ("viewer", "construct", "refused-wellformed"), "GIRBlockViewer refused a well-formed table: %s" % ex)
        return "illformed"
    except BaseException as ex:
        raise Crash("viewer.construct", ex)
    if not ok:
        raise Found("other", ("viewer", "construct", "accepted-illformed"), "GIRBlockViewer accepted an ill-formed table (ids %s)" % (m.column("stmt_id"),))
    n = m.n()
    blocks = m.blocks()
    check_viewer_view(E, root, m, (-1, n), blocks, "root")
    # a copy-constructed viewer sees the same
    check_viewer_view(E, E.GIRBlockViewer(root), m, (-1, n), blocks, "copy", full=False)
    subs = {}
    for b, br in blocks.items():
        sub = root.read_block(b)
        if sub is None:
            raise Found("other", ("viewer", "root", "read_block", "visibility"), "root.read_block(%r) is None" % (b,))
        subs[b] = sub
        check_viewer_view(E, sub, m, br, blocks, "block", full=False)
    # append_other: two disjoint blocks (in table order) concatenated = scan of both interiors
    bl = sorted(blocks, key=lambda b: blocks[b][0])
    done = 0
    for i in range(len(bl)):
        for j in range(len(bl)):
            a, b = blocks[bl[i]], blocks[bl[j]]
            if i == j or not (a[1] < b[0] or b[1] < a[0]):
                continue
            if done >= 1 + (n % 2):
                break
            done += 1
            left = root.read_block(bl[i])
            right = subs[bl[j]]
            res = call("viewer.append_other", left.append_other, right)
            exp_rows = list(m.rows[a[0] + 1:a[1]]) + list(m.rows[b[0] + 1:b[1]])
            m2 = Model(m.cols, exp_rows, m.kinds)
            if res is not left:
                raise Found("other", ("viewer", "append_other", "return"), "append_other does not return self")
            check_viewer_view(E, left, m2, (-1, len(exp_rows)), m2.blocks(), "appended")
            # the operand and the root are unchanged
            check_viewer_view(E, right, m, b, blocks, "append-operand", full=False)
    if done:
        check_viewer_view(E, root, m, (-1, n), blocks, "root-after-append", full=False)
    e = E.GIRBlockViewer()
    if len(e) != 0 or list(e) != [] or e.read_block(1) is not None or e.get_stmt_by_id(1) is not None:
        raise Found("other", ("viewer", "empty"), "empty GIRBlockViewer is not empty")
    return "wellformed"


# ---------------------------------------------------------------------------------------------
# one step = one operation + all comparisons

STALE_FAMILY = {"index": "index", "bundle": "index", "blocks": "index", "rows": "rows", "slow": "rows",
                "columns": "rows", "viewer": "rows"}


def compare_all(E, dm, m, order, active, info, light=False, only=None):
    """Raises Found / Crash.  order 'I' = indexed queries first, 'R' = row queries first.
    info["_fam"] names the family of queries that was running when a discrepancy was raised; only=<family> re-runs
    just that family (used by the diagnosis in run_case)."""
    fams = [("index", lambda: check_index(E, dm, m, active, deep=(not light) or only is not None)),
            ("rows", lambda: check_rows(E, dm, m))]
    if order == "R":
        fams.reverse()
    if not light or only is not None:
        fams.append(("columns", lambda: check_columns(E, dm, m, active)))
        fams.append(("bundle", lambda: check_bundle_search(E, dm, m, active)))
        fams.append(("slow", lambda: check_slow_query(E, dm, m)))
        if m.is_gir():
            fams.append(("blocks", lambda: check_blocks(E, dm, m, active)))
            fams.append(("viewer", lambda: _viewer(E, dm, m, info)))
        # and once more, now that every cache is warm
        fams.append(("index", lambda: check_index(E, dm, m, active, deep=False)))
    for name, f in fams:
        if only is not None and name != only:
            continue
        info["_fam"] = name
        f()
    info["_fam"] = ""


def _viewer(E, dm, m, info):
    info["viewer:" + check_viewer(E, dm, m)] += 1


def opclass(op):
    name = op[0]
    if name in FLAGGED:
        return "flagged-mutation"
    if name == "reset_index":
        return "reset_index-move" if op[1] else "reset_index"
    return name


def compatible(E, dm, col, v):
    """Would pandas accept v in column col without changing what the column can hold?  (pandas 3 raises
    TypeError for a string written into a numeric column and vice versa: callers write values of the column's type.)"""
    v = dec(v)
    if is_missing(v):
        return True
    dt = dm.get_data()[col].dtype
    if dt == object:
        return True
    if isinstance(v, str):
        return isinstance(dt, E.pd.StringDtype)
    return getattr(dt, "kind", "O") in "iuf" and not isinstance(dt, E.pd.StringDtype)


def invalid(E, dm, m, op):
    """Reason why op is outside the domain for the current table (it is then skipped and counted), or None."""
    name = op[0]
    n = m.n()
    cols = m.cols
    if name == "modify_element":
        _, pos, col, v = op
        if not (0 <= pos < n) or col not in cols:
            return "position-or-column"
        if not compatible(E, dm, col, v):
            return "dtype"
    elif name == "modify_row":
        _, pos, vals = op
        if not (0 <= pos < n) or len(vals) != len(cols):
            return "position-or-column"
        if not all(compatible(E, dm, c, v) for c, v in zip(cols, vals)):
            return "dtype"
    elif name == "modify_column":
        _, col, v, is_list, kind = op
        if is_list and len(v) != n:
            return "length"
    elif name == "append":
        if not op[1] or len(set(op[1])) != len(op[1]):
            return "columns"
    elif name in ("remove_rows", "query_take", "slow_take"):
        if op[1] not in cols:
            return "position-or-column"
    elif name == "rename":
        new = [v for k, v in op[1].items() if k in cols]
        rest = [c for c in cols if c not in op[1]]
        if len(set(new)) != len(new) or any(v in rest for v in new):
            return "columns"
    elif name == "set_columns":
        if len(op[1]) != len(cols) or len(set(op[1])) != len(op[1]):
            return "columns"
    elif name == "fillna":
        for c, v in op[1].items():
            if c not in cols or is_missing(dec(v)):
                return "position-or-column"
            if not compatible(E, dm, c, v):
                return "dtype"
    elif name == "reset_index":
        if op[1] and ("index" in cols or "level_0" in cols):
            return "columns"
    elif name == "slice":
        if op[1] < 0 or op[2] < 0:
            return "position-or-column"
    elif name == "reframe":
        if len(op[1]) != n or len(set(op[1])) != n:
            return "length"
    return None


def model_apply(m, op):
    """The model side of one operation -> (model', replaced) ; replaced: False (same table object), True (a new
    table, the old one stays alive as a sibling), "alias" (a new handle on the same frame)."""
    name = op[0]
    if name == "modify_element":
        return m.modify_element(op[1], op[2], op[3]), False
    if name == "modify_row":
        return m.modify_row(op[1], op[2]), False
    if name == "modify_column":
        return m.modify_column(op[1], op[2], op[3], op[4]), False
    if name == "append":
        return m.append(op[1], op[2], op[4]), False
    if name == "remove_rows":
        return m.remove_rows(op[1], op[2]), False
    if name == "rename":
        return m.rename({k: v for k, v in op[1].items() if k in m.cols}), False
    if name == "set_columns":
        return m.set_columns(list(op[1])), False
    if name == "fillna":
        return m.fillna(op[1]), False
    if name == "reset_index":
        return m.reset_index(bool(op[1])), False
    if name == "slice":
        return m.slice(op[1], op[2]), True
    if name == "clone":
        return m, True
    if name == "rewrap":
        return m, "alias"
    if name == "reframe":
        return Model(m.cols, list(zip(op[1], m.values())), m.kinds), True
    if name == "query_take":
        pos = m.positions(op[1], op[2])
        return (m.take(pos), True) if pos else (m, False)
    if name == "slow_take":
        pos = [p for p, x in enumerate(m.column(op[1])) if x is not None and veq(x, op[2])]
        return m.take(pos, relabel=bool(op[3])), True
    raise ValueError("unknown op %r" % (name,))


def apply_op(E, dm, m, op):
    """-> (dm', model', replaced).  Raises Crash / Found."""
    name = op[0]
    m2, replaced = model_apply(m, op)
    if name == "modify_element":
        _, pos, col, v = op
        call(name, dm.modify_element, m.rows[pos][0], col, dec(v))      # addressed by LABEL (it is .loc)
    elif name == "modify_row":
        call(name, dm.modify_row, op[1], [dec(v) for v in op[2]])        # addressed by position (.iloc)
    elif name == "modify_column":
        _, col, v, is_list, kind = op
        call(name, dm.modify_column, col, [dec(x) for x in v] if is_list else dec(v))
    elif name == "append":
        _, cols, rows, form, kinds = op
        extra = build_rows_table(E, cols, rows, "dicts+cols") if form == "dm" else build_frame(E, cols, rows)
        call(name, dm.append_data_model, extra)
    elif name == "remove_rows":
        call(name, dm.remove_rows, op[1], dec(op[2]))
    elif name == "rename":
        call(name, dm.rename_column, dict(op[1]))
    elif name == "set_columns":
        call(name, dm.set_columns, list(op[1]))
    elif name == "fillna":
        call(name, dm.fillna, {k: dec(v) for k, v in op[1].items()})
    elif name == "reset_index":
        r = call(name, dm.reset_index, move_index_to_column=bool(op[1]), directly_modify_current_dataframe=bool(op[2]))
        if r is not dm:
            raise Found("other", ("reset_index", "return"), "reset_index() does not return the table")
    elif name == "slice":
        dm = call(name, dm.slice, op[1], op[2])
    elif name == "clone":
        dm = call(name, dm.clone)
    elif name == "rewrap":
        dm = call(name, E.DataModel, dm)
    elif name == "reframe":
        df = build_frame(E, m.cols, [list(v) for v in m.values()], op[1])
        dm = call(name, E.DataModel, df, is_copy=bool(op[2]))
    elif name == "query_take":
        sub = call(name, dm.query_index_column_value, op[1], dec(op[2]))
        if not replaced:
            if not (isinstance(sub, list) and sub == []):
                raise Found("index", ("index_query_value", "miss-not-empty"), "query_index_column_value(%r,%r) = %s" % (op[1], op[2], _short(sub)))
        else:
            if not isinstance(sub, E.DataModel):
                raise Found("index", ("index_query_value", "hit-not-table"), "query_index_column_value(%r,%r) = %s" % (op[1], op[2], _short(sub)))
            dm = sub
    elif name == "slow_take":
        pos = [p for p, x in enumerate(m.column(op[1])) if x is not None and veq(x, op[2])]
        dm = call(name, dm.slow_query, [p in pos for p in range(m.n())], reset_index=bool(op[3]))
    return dm, m2, replaced


def construct(E, op):
    name = op[0]
    if name == "new_rows":
        _, cols, rows, form, kinds = op
        dm = call(name, build_rows_table, E, cols, rows, form)
        return dm, Model.from_rows(cols, rows, kinds)
    if name == "new_df":
        _, cols, rows, labels, is_copy, kinds = op
        df = build_frame(E, cols, rows, labels)
        dm = call(name, E.DataModel, df, is_copy=bool(is_copy))
        return dm, Model.from_rows(cols, rows, kinds, labels=labels)
    raise ValueError("first op must construct a table, got %r" % (name,))


def cured(E, dm, m, active, info, fam):
    """Diagnosis of a discrepancy: does a forced invalidation through the public API make the SAME family of queries
    agree with the scan?  Then the cause is a cache that the last operation failed to invalidate."""
    try:
        dm.set_refresh_flag()
        dm.get_rows()
        compare_all(E, dm, m, "R", active, info, light=True, only=fam)
        return True
    except (Found, Crash):
        return False
    except BaseException:
        return False


def index_snapshot(m):
    return {(c, repr(v)): tuple(m.positions(c, v)) for c in m.cols for v in m.unique(c)}


def run_case(case, E=None):
    """-> dict(found=(sig, what)|None, nontrivial, steps, labels=set, info=Counter, stepovers=Counter)"""
    E = E or env()
    ops = case["ops"]
    orders = case.get("orders", "")
    active = collections.Counter({k: 0 for k in case.get("stepover", [])})
    # Counter drops nothing on creation but `in` needs the keys: keep them with count 0
    for k in case.get("stepover", []):
        active[k] = 0
    info = collections.Counter()
    labels = set()
    res = {"found": None, "error": None, "nontrivial": False, "steps": 0, "labels": labels, "info": info, "stepovers": active}
    step = 0
    op = ops[0]
    blame = [""]
    sink = io.StringIO()
    try:
        with contextlib.redirect_stderr(sink), contextlib.redirect_stdout(sink):
            try:
                dm, m = construct(E, op)
                siblings = []
                first_order = orders[0:1] or "I"
                compare_all(E, dm, m, "I" if first_order == "N" else first_order, active, info)
                checked = m             # the model at the last comparison of the CURRENT table object (None: not yet queried)
                pending = 0             # flagged mutations of the current table (or of a handle aliasing it) since its last comparison
                last = len(ops) - 1
                for step in range(1, len(ops)):
                    op = ops[step]
                    order = orders[step:step + 1] or "I"
                    before = m
                    why = invalid(E, dm, m, op)
                    if why:
                        info["discard:" + why] += 1
                        if step != last:
                            continue
                        op = ["clone"]          # the last step always ends with a comparison
                    if op[0] == "query_take" and pending:
                        # this operation IS an indexed query: the table it is asked on is compared first (so that a stale
                        # index is attributed to the mutation that left it behind, and stepped over while that finding is open)
                        blame[0] = "flagged-mutation"
                        if "stale-index" in active:
                            dm.get_rows()
                            active["stale-index"] += pending
                        pending = 0
                        compare_all(E, dm, m, "I", active, info, light=True)
                        checked = m
                    ndm, m, replaced = apply_op(E, dm, m, op)
                    if replaced is True:
                        # the old table stays alive; it may have been mutated since its last comparison
                        if pending and "stale-index" in active:
                            dm.get_rows()
                            active["stale-index"] += pending
                        siblings.append((dm, before, op[0], pending))
                        del siblings[:-2]
                        checked = None
                        pending = 0
                    dm = ndm
                    res["steps"] = step
                    labels.add("op:" + op[0])
                    cls = opclass(op)
                    blame[0] = cls
                    if cls == "flagged-mutation":
                        pending += 1
                    # --- step-overs of the mutators that never invalidate (by construction, counted) ---
                    if cls == "fillna" and "fillna" in active:
                        dm.set_refresh_flag()
                        active["fillna"] += 1
                    if cls == "reset_index-move" and "reset-move" in active:
                        dm.set_refresh_flag()
                        active["reset-move"] += 1
                    if cls == "set_columns" and "set-columns" in active:
                        dm.set_refresh_flag()
                        active["set-columns"] += 1
                    # --- 'N': no comparison after this step, the next operation meets cold / dirty caches ---
                    if order == "N" and step != last and (cls == "flagged-mutation" or op[0] in SKIPPABLE):
                        info["unchecked-steps"] += 1
                        continue
                    pending_before_check = pending
                    if pending:
                        blame[0] = "flagged-mutation"
                    if "stale-index" in active:
                        # step-over of the stale column index: any read of the row view rebuilds the caches after a
                        # flagged mutation, before the indexed queries are repeated
                        dm.get_rows()
                        active["stale-index"] += pending
                    pending = 0
                    if checked is not None and index_snapshot(checked) != index_snapshot(m):
                        res["nontrivial"] = True
                        labels.add("state:query-mutation-same-query-different-answer")
                    if m.n() == 0:
                        labels.add("state:table-became-empty")
                    elif m.labels() != list(range(m.n())):
                        labels.add("state:labels-differ-from-positions")
                    if any(v is None for vals in m.values() for v in vals):
                        labels.add("state:has-missing-values")
                    if checked is not None and pending_before_check > 1:
                        labels.add("state:several-mutations-between-comparisons")
                    compare_all(E, dm, m, "I" if order == "N" else order, active, info)
                    checked = m
                    for sdm, sm, how, spending in siblings:
                        try:
                            compare_all(E, sdm, sm, "I", active, info, light=True)
                        except (Found, Crash) as f:
                            fam = info.get("_fam") or ""
                            detail = f.what if isinstance(f, Found) else str(f)
                            if spending and fam and cured(E, sdm, sm, active, info, fam):
                                # not a dependence between the two tables: the set-aside table itself was mutated and
                                # never queried again before it was set aside
                                raise Attributed((ID, "not-invalidated", "flagged-mutation", STALE_FAMILY[fam]),
                                                 "step %d %s: the table set aside by %s: %s  [caches were not invalidated by the mutation before: the same "
                                                 "queries are correct after set_refresh_flag()+get_rows()]" % (step, op[0], how, detail))
                            tail = f.sig_tail[:1] if isinstance(f, Found) else ("crash",)
                            raise Found("other", ("sibling", how) + tail, "after %s on a table obtained by %s, the ORIGINAL table changed: %s" % (op[0], how, detail))
            except Attributed as a:
                res["found"] = (a.sig, a.what)
            except Found as f:
                sig = (ID,) + f.sig_tail
                what = "step %d %s: %s" % (step, op[0], f.what)
                fam = info.get("_fam") or ""
                if fam and step > 0 and f.sig_tail[:1] != ("sibling",) and cured(E, dm, m, active, info, fam):
                    sig = (ID, "not-invalidated", blame[0], STALE_FAMILY[fam])
                    what += "  [caches were not invalidated by %s: the same queries are correct after set_refresh_flag()+get_rows()]" % op[0]
                res["found"] = (sig, what)
            except Crash as c:
                sig = (ID, "crash", c.where, type(c.exc).__name__)
                what = "step %d %s: %s" % (step, op[0], c)
                fam = info.get("_fam") or ""
                if fam and step > 0 and cured(E, dm, m, active, info, fam):
                    sig = (ID, "not-invalidated", blame[0], STALE_FAMILY[fam])
                    what += "  [caches were not invalidated by %s: the same queries are correct after set_refresh_flag()+get_rows()]" % op[0]
                res["found"] = (sig, what)
            except Exception:
                import traceback
                res["error"] = "harness exception at step %d %r of case %r:\n%s" % (step, op, case, traceback.format_exc())
    finally:
        pass
    info.pop("_fam", None)
    return res
