"""Reference GIR semantics (DESIGN.md 2.3): a small interpreter over flattened GIR rows.

It implements the documented meaning of the GIR instructions (docs/en/03.frontend/3-2.gir.md) reading the
operand columns that the analyses read.  Used by C01/C02 (value-driven execution, output trace) and,
through the executed-statement traces it records, by C04/C06.

Anything met on an executed path that is outside the shared vocabulary raises OutOfVocabulary with a
signature (operation[, column]).
"""
import ast
import math

MISSING = object()


def isnull(v):
    if v is None:
        return True
    if isinstance(v, float) and math.isnan(v):
        return True
    return False


class OutOfVocabulary(Exception):
    def __init__(self, op, column=None, detail=""):
        Exception.__init__(self, "%s/%s %s" % (op, column, detail))
        self.op = op
        self.column = column
        self.detail = detail


class GirRuntimeError(Exception):
    """An error of the interpreted program (counterpart of a Python exception in the source program)."""

    def __init__(self, kind, detail=""):
        Exception.__init__(self, "%s: %s" % (kind, detail))
        self.kind = kind


class Diverged(Exception):
    pass


class _Break(Exception):
    pass


class _Continue(Exception):
    pass


class _Return(Exception):
    def __init__(self, value):
        self.value = value


# ---------------------------------------------------------------------------------------------
# values

class GArray:
    __slots__ = ("items", "kind", "site")

    def __init__(self, items=None, kind="list", site=None):
        self.items = items if items is not None else []
        self.kind = kind
        self.site = site

    def __eq__(self, other):
        return isinstance(other, GArray) and self.kind == other.kind and self.items == other.items

    def __ne__(self, other):
        return not self.__eq__(other)

    __hash__ = None

    def __repr__(self):
        return "GArray(%s,%r)" % (self.kind, self.items)


class GRecord:
    __slots__ = ("d", "site")

    def __init__(self, site=None):
        self.d = {}
        self.site = site

    def __eq__(self, other):
        return isinstance(other, GRecord) and self.d == other.d

    def __ne__(self, other):
        return not self.__eq__(other)

    __hash__ = None


class GObject:
    __slots__ = ("cls", "fields", "site")

    def __init__(self, cls, site=None):
        self.cls = cls
        self.fields = {}
        self.site = site


class GClass:
    def __init__(self, row, env):
        self.row = row
        self.name = row.get("name")
        self.env = env
        self.fields = {}
        self.methods = {}
        self.supers = []
        self.inited = False


class GFunc:
    __slots__ = ("row", "env", "this", "cls")

    def __init__(self, row, env, this=None, cls=None):
        self.row = row
        self.env = env
        self.this = this
        self.cls = cls

    @property
    def name(self):
        return self.row.get("name")

    def bind(self, this):
        return GFunc(self.row, self.env, this, self.cls)


class External:
    __slots__ = ("name",)

    def __init__(self, name):
        self.name = name


class BoundBuiltin:
    __slots__ = ("recv", "name")

    def __init__(self, recv, name):
        self.recv = recv
        self.name = name


def canon(v, depth=0, seen=None):
    """Canonical JSON-able serialisation of a value (both for interpreter values and, through
    canon_py, for CPython values): used to compare output traces."""
    if seen is None:
        seen = set()
    if depth > 12:
        return "<deep>"
    if v is None:
        return None
    if isinstance(v, bool):
        return ["bool", v]
    if isinstance(v, int):
        return v
    if isinstance(v, float):
        if v != v:
            return ["float", "nan"]
        return ["float", repr(v)]
    if isinstance(v, str):
        return ["str", v]
    if isinstance(v, GArray):
        if id(v) in seen:
            return "<cycle>"
        seen = seen | {id(v)}
        return [v.kind] + [canon(x, depth + 1, seen) for x in v.items]
    if isinstance(v, GRecord):
        if id(v) in seen:
            return "<cycle>"
        seen = seen | {id(v)}
        return ["dict"] + [[canon(k, depth + 1, seen), canon(x, depth + 1, seen)] for k, x in v.d.items()]
    if isinstance(v, GObject):
        if id(v) in seen:
            return "<cycle>"
        seen = seen | {id(v)}
        return ["obj", v.cls.name] + [[k, canon(x, depth + 1, seen)] for k, x in sorted(v.fields.items())]
    if isinstance(v, GClass):
        return ["class", v.name]
    if isinstance(v, GFunc):
        return ["func", v.name if not str(v.name).startswith("%") else "<lambda>"]
    if isinstance(v, (External, BoundBuiltin)):
        return ["builtin", v.name]
    return ["?", type(v).__name__]


def canon_py(v, depth=0, seen=None):
    """The same serialisation for real CPython values."""
    if seen is None:
        seen = set()
    if depth > 12:
        return "<deep>"
    if v is None:
        return None
    if isinstance(v, bool):
        return ["bool", v]
    if isinstance(v, int):
        return v
    if isinstance(v, float):
        if v != v:
            return ["float", "nan"]
        return ["float", repr(v)]
    if isinstance(v, str):
        return ["str", v]
    if isinstance(v, (list, tuple)):
        if id(v) in seen:
            return "<cycle>"
        seen = seen | {id(v)}
        return ["list" if isinstance(v, list) else "tuple"] + [canon_py(x, depth + 1, seen) for x in v]
    if isinstance(v, dict):
        if id(v) in seen:
            return "<cycle>"
        seen = seen | {id(v)}
        return ["dict"] + [[canon_py(k, depth + 1, seen), canon_py(x, depth + 1, seen)] for k, x in v.items()]
    if isinstance(v, type):
        return ["class", v.__name__]
    if callable(v) and hasattr(v, "__name__") and not hasattr(v, "__self__"):
        n = v.__name__
        return ["func", n if n != "<lambda>" else "<lambda>"]
    if hasattr(v, "__func__"):
        return ["func", v.__func__.__name__]
    if hasattr(v, "__dict__") and not callable(v):
        if id(v) in seen:
            return "<cycle>"
        seen = seen | {id(v)}
        return ["obj", type(v).__name__] + [[k, canon_py(x, depth + 1, seen)] for k, x in sorted(vars(v).items())]
    if callable(v):
        return ["builtin", getattr(v, "__name__", "?")]
    return ["?", type(v).__name__]


# ---------------------------------------------------------------------------------------------
# program structure

BODY_COLUMNS = ("body", "then_body", "else_body", "init_body", "condition_prebody", "update_body", "parameters",
                "fields", "methods", "nested", "static_init", "init", "catch_body", "final_body", "with_init")

DECL_OPS = {"variable_decl", "parameter_decl", "method_decl", "class_decl"}
LITERAL_WORDS = {"true": True, "false": False, "null": None, "none": None, "undefined": None,
                 "True": True, "False": False, "None": None, "nil": None, "NULL": None}


class Program:
    """Index over the flattened rows of one unit."""

    def __init__(self, rows):
        self.rows = []
        for r in rows:
            if not isinstance(r, dict):
                r = r.to_dict()          # lian.util.data_model.Row
            r = {k: (None if isnull(v) else (int(v) if k in ("stmt_id", "parent_stmt_id") else v)) for k, v in r.items()}
            self.rows.append(r)
        self.children = {}        # block id (or 0) -> [row]
        self.by_id = {}
        for r in self.rows:
            op = r.get("operation")
            sid = r.get("stmt_id")
            par = r.get("parent_stmt_id")
            if op in ("block_start", "block_end"):
                self.children.setdefault(int(sid), [])
                continue
            self.by_id[int(sid)] = r
            self.children.setdefault(int(par) if not isnull(par) else 0, []).append(r)

    def block(self, block_id):
        if isnull(block_id):
            return []
        return self.children.get(int(block_id), [])

    def declared_names(self, body_ids):
        """Names declared directly in the given blocks (recursively through compound statements,
        not through nested method/class declarations)."""
        out = set()
        stack = [b for b in body_ids if not isnull(b)]
        while stack:
            b = stack.pop()
            for r in self.block(b):
                op = r["operation"]
                if op in ("variable_decl", "parameter_decl", "method_decl", "class_decl"):
                    if isinstance(r.get("name"), str):
                        out.add(r["name"])
                    if op in ("method_decl", "class_decl"):
                        continue
                for c in BODY_COLUMNS:
                    v = r.get(c)
                    if not isnull(v) and op not in ("method_decl", "class_decl") and isinstance(v, (int, float)) and int(v) in self.children:
                        stack.append(int(v))
        return out


class Env:
    def __init__(self, prog, parent, declared, unit=None, this=None, cls=None, method_id=None):
        self.vars = {}
        self.parent = parent
        self.declared = declared
        self.unit = unit if unit is not None else self
        self.this = this
        self.cls = cls
        self.globals_ = set()
        self.nonlocals = set()
        self.method_id = method_id
        self.trace = []


def literal(op_text):
    """Decode a literal operand string; returns MISSING if it is not a literal."""
    s = op_text
    if s in LITERAL_WORDS:
        return LITERAL_WORDS[s]
    c = s[0]
    if c in "\"'":
        if len(s) >= 2 and s[-1] == c:
            return s[1:-1]
        return s[1:]
    if c.isdigit() or (c in "+-." and len(s) > 1):
        try:
            t = s.replace("_", "")
            if t.lower().startswith(("0x", "-0x")):
                return int(t, 16)
            if t.lower().startswith(("0o", "-0o")):
                return int(t, 8)
            if t.lower().startswith(("0b", "-0b")):
                return int(t, 2)
            return int(t)
        except ValueError:
            try:
                return float(s)
            except ValueError:
                return MISSING
    return MISSING


def is_temp(name):
    return name.startswith("%vv") or name.startswith("%v") and name[2:3].isdigit()


class Interp:
    def __init__(self, rows, lang="python", max_steps=20000, tolerant=()):
        self.prog = Program(rows)
        self.lang = lang
        self.max_steps = max_steps
        self.steps = 0
        self.out = []
        self.events = []            # out-of-vocabulary events tolerated (step-overs)
        self.tolerant = set(tolerant)
        self.activations = []       # (method_id, [stmt ids]) finished activations
        self.labels = set()
        self.unit_env = Env(self.prog, None, set())
        self.depth = 0
        self._declare_block(self.prog.children.get(0, []), self.unit_env)

    # -- declarations -----------------------------------------------------------------------
    def _declare_block(self, rows, env):
        for r in rows:
            op = r["operation"]
            if op == "method_decl":
                env.vars[r["name"]] = GFunc(r, env)
            elif op == "class_decl":
                env.vars[r["name"]] = self._make_class(r, env)

    def _make_class(self, row, env):
        cls = GClass(row, env)
        for col in ("methods", "static_init", "init", "nested"):
            for m in self.prog.block(row.get(col)):
                if m["operation"] == "method_decl":
                    cls.methods[m["name"]] = GFunc(m, env, cls=cls)
        sup = row.get("supers")
        if isinstance(sup, str):
            try:
                cls.supers = list(ast.literal_eval(sup))
            except Exception:
                cls.supers = [sup]
        return cls

    def _class_init(self, cls):
        if cls.inited:
            return
        cls.inited = True
        for s in cls.supers:
            sc = self._lookup_class(s, cls.env)
            if sc is not None:
                self._class_init(sc)
        for name in ("%class_sinit", "%static_init", "%sinit"):
            f = cls.methods.get(name)
            if f is not None:
                self._call_func(f, [], {}, this=None, cls_obj=cls)

    def _lookup_class(self, name, env):
        e = env
        while e is not None:
            v = e.vars.get(name, MISSING)
            if isinstance(v, GClass):
                return v
            e = e.parent
        v = self.unit_env.vars.get(name)
        return v if isinstance(v, GClass) else None

    # -- names ------------------------------------------------------------------------------
    def _scope_for(self, name, env, for_write):
        if name in env.globals_:
            return self.unit_env
        if name in env.nonlocals:
            e = env.parent
            while e is not None and e is not self.unit_env:
                if name in e.declared or name in e.vars:
                    return e
                e = e.parent
            return self.unit_env
        if is_temp(name):
            return env
        if name in env.declared:
            return env
        e = env.parent
        while e is not None:
            if name in e.declared or (e is self.unit_env and name in e.vars):
                return e
            e = e.parent
        return self.unit_env

    def read(self, name, env):
        if name == "%this":
            if env.this is None:
                e = env
                while e is not None and e.this is None:
                    e = e.parent
                if e is None:
                    raise GirRuntimeError("NameError", name)
                return e.this
            return env.this
        if name == "%class":
            if env.cls is None:
                raise GirRuntimeError("NameError", name)
            return env.cls
        sc = self._scope_for(name, env, False)
        v = sc.vars.get(name, MISSING)
        if v is MISSING and self.lang in ("c", "go"):
            v = self._declared_storage(name)
            if v is not MISSING:
                sc.vars[name] = v
                return v
        if v is MISSING:
            # members of the enclosing class are visible by their simple name (Java-like languages)
            e = env
            while e is not None:
                if e.cls is not None:
                    m = self._find_method(e.cls, name)
                    if m is not None:
                        return m.bind(e.this) if e.this is not None else m
                    f = self._find_class_field(e.cls, name) if self.lang != "python" else MISSING
                    if f is not MISSING:
                        return f
                    break
                e = e.parent
            if sc is self.unit_env and name not in self.unit_env.declared:
                return External(name)
            raise GirRuntimeError("UnboundLocalError" if sc is not self.unit_env else "NameError", name)
        return v

    def write(self, name, value, env):
        if not isinstance(name, str) or not name:
            raise OutOfVocabulary("write", "target", repr(name))
        sc = self._scope_for(name, env, True)
        sc.vars[name] = value

    def operand(self, text, env):
        if isnull(text):
            return None
        if not isinstance(text, str):
            return text
        if text == "":
            return ""
        lit = literal(text)
        if lit is not MISSING:
            if isinstance(lit, str) and "\\" in lit:
                # the operand keeps the source spelling of the literal: decode the language's escape sequences
                try:
                    lit = lit.encode("latin-1", "backslashreplace").decode("unicode_escape")
                except Exception:
                    pass
            return lit
        return self.read(text, env)

    # -- execution --------------------------------------------------------------------------
    def run_unit(self, entry_main=False):
        """Execute the unit: %unit_init if present, then (for Java/C/Go style) a method named main."""
        init = self.unit_env.vars.get("%unit_init")
        if isinstance(init, GFunc):
            self._call_func(init, [], {})
        if entry_main:
            m = self.unit_env.vars.get("main")
            if isinstance(m, GFunc):
                self._call_func(m, self._unknown_args(m), {})
            else:
                for v in list(self.unit_env.vars.values()):
                    if isinstance(v, GClass) and "main" in v.methods:
                        self._class_init(v)
                        self._call_func(v.methods["main"], self._unknown_args(v.methods["main"]), {}, cls_obj=v)
                        break
        return self.out

    def _unknown_args(self, f):
        return [None for p in self.prog.block(f.row.get("parameters")) if p["operation"] == "parameter_decl"]

    def _struct_names(self):
        if not hasattr(self, "_structs"):
            self._structs = {r.get("name") for r in self.prog.rows
                             if r["operation"] in ("struct_decl", "class_decl", "type_decl", "record_decl")}
        return self._structs

    def _declared_storage(self, name):
        """C-like languages: a declared variable of struct type is storage; allocate it on first access."""
        for r in self.prog.rows:
            if r["operation"] == "variable_decl" and r.get("name") == name and isinstance(r.get("data_type"), str):
                dt = r["data_type"].replace("struct ", "").strip()
                if dt in self._struct_names():
                    return GRecord(site=r.get("stmt_id"))
        return MISSING

    def _parse_args(self, row, env):
        pos, named = [], {}
        pa = row.get("positional_args")
        if not isnull(pa):
            try:
                items = ast.literal_eval(pa) if isinstance(pa, str) else list(pa)
            except Exception:
                raise OutOfVocabulary(row["operation"], "positional_args", str(pa)[:40])
            for a in items:
                pos.append(self.operand(a, env))
        na = row.get("named_args")
        if not isnull(na):
            try:
                items = ast.literal_eval(na) if isinstance(na, str) else dict(na)
            except Exception:
                raise OutOfVocabulary(row["operation"], "named_args", str(na)[:40])
            for k, a in items.items():
                named[k] = self.operand(a, env)
        for col in ("packed_positional_args", "packed_named_args", "args"):
            if not isnull(row.get(col)):
                raise OutOfVocabulary(row["operation"], col)
        return pos, named

    def _call_value(self, callee, pos, named, row, env):
        if isinstance(callee, GFunc):
            return self._call_func(callee, pos, named, this=callee.this)
        if isinstance(callee, GClass):
            return self._instantiate(callee, pos, named, row)
        if isinstance(callee, External):
            return self._external(callee.name, pos, named, row)
        if isinstance(callee, BoundBuiltin):
            return self._builtin_method(callee.recv, callee.name, pos, named, row)
        raise GirRuntimeError("TypeError", "not callable: %r" % (canon(callee),))

    def _external(self, name, pos, named, row):
        if name == "out":
            self.out.append(canon(pos[0]) if pos else None)
            return None
        if name == "len" and len(pos) == 1:
            v = pos[0]
            if isinstance(v, GArray):
                return len(v.items)
            if isinstance(v, GRecord):
                return len(v.d)
            if isinstance(v, str):
                return len(v)
            raise GirRuntimeError("TypeError", "len")
        if name == "range" and 1 <= len(pos) <= 3 and all(isinstance(p, int) for p in pos):
            return GArray(list(range(*pos)), "list")
        raise OutOfVocabulary("call_stmt", "external:" + str(name))

    def _builtin_method(self, recv, name, pos, named, row):
        if isinstance(recv, GArray) and recv.kind == "list":
            if name == "append" and len(pos) == 1:
                recv.items.append(pos[0])
                return None
            if name == "pop" and len(pos) == 0:
                if not recv.items:
                    raise GirRuntimeError("IndexError", "pop")
                return recv.items.pop()
        raise OutOfVocabulary("object_call_stmt", "builtin-method:" + str(name))

    def _find_method(self, cls, name, depth=0):
        if name in cls.methods:
            return cls.methods[name]
        if depth > 20:
            return None
        for s in cls.supers:
            sc = self._lookup_class(s, cls.env)
            if sc is not None:
                m = self._find_method(sc, name, depth + 1)
                if m is not None:
                    return m
        return None

    def _find_class_field(self, cls, name, depth=0):
        self._class_init(cls)
        if name in cls.fields:
            return cls.fields[name]
        if depth > 20:
            return MISSING
        for s in cls.supers:
            sc = self._lookup_class(s, cls.env)
            if sc is not None:
                v = self._find_class_field(sc, name, depth + 1)
                if v is not MISSING:
                    return v
        return MISSING

    def _instantiate(self, cls, pos, named, row):
        self._class_init(cls)
        obj = GObject(cls, site=row.get("stmt_id"))
        self._run_init_blocks(cls, obj, 0)
        for nm in ("%class_init", "%init"):
            f = self._find_method(cls, nm)
            if f is not None:
                self._call_func(f, [], {}, this=obj)
        ctor = None
        for nm in ("__init__", "constructor", "__construct", cls.name, "%constructor"):
            ctor = self._find_method(cls, nm)
            if ctor is not None:
                break
        if ctor is not None:
            self._call_func(ctor, pos, named, this=obj)
        elif pos or named:
            raise GirRuntimeError("TypeError", "constructor takes no arguments")
        return obj

    def _run_init_blocks(self, cls, obj, depth):
        """class_decl.init holding plain statements (documented form; used by the TypeScript frontend)."""
        if depth > 20:
            return
        for sname in cls.supers:
            sc = self._lookup_class(sname, cls.env)
            if sc is not None:
                self._run_init_blocks(sc, obj, depth + 1)
        blk = cls.row.get("init")
        if isnull(blk):
            return
        stmts = [r for r in self.prog.block(blk) if r["operation"] != "method_decl"]
        if not stmts:
            return
        env = Env(self.prog, cls.env, set(), unit=self.unit_env, this=obj, cls=cls)
        for r in stmts:
            self._exec(r, env)

    def _call_func(self, f, pos, named, this=None, cls_obj=None):
        self.depth += 1
        if self.depth > 60:
            self.depth -= 1
            raise GirRuntimeError("RecursionError", "")
        try:
            row = f.row
            body = row.get("body")
            params = self.prog.block(row.get("parameters"))
            declared = self.prog.declared_names([row.get("parameters"), body])
            env = Env(self.prog, f.env, declared, unit=self.unit_env, this=this if this is not None else f.this,
                      cls=cls_obj if cls_obj is not None else f.cls, method_id=row.get("stmt_id"))
            # bind parameters
            pos = list(pos)
            named = dict(named)
            plist = [p for p in params if p["operation"] == "parameter_decl"]
            for p in plist:
                for col in ("packed",):
                    pass
                attrs = p.get("attrs")
                attrs = attrs if isinstance(attrs, str) else ""
                name = p.get("name")
                if "packed_positional" in attrs or "packed_named" in attrs or "%packed" in attrs:
                    raise OutOfVocabulary("parameter_decl", "attrs:packed")
                kwonly = "keyword_pmt" in attrs
                if not kwonly and pos:
                    if name in named:
                        raise GirRuntimeError("TypeError", "multiple values for %s" % name)
                    env.vars[name] = pos.pop(0)
                elif name in named:
                    env.vars[name] = named.pop(name)
                elif not isnull(p.get("default_value")):
                    env.vars[name] = self.operand(p.get("default_value"), env)
                else:
                    raise GirRuntimeError("TypeError", "missing argument %s" % name)
            if pos or named:
                raise GirRuntimeError("TypeError", "too many arguments")
            ret = None
            try:
                self._exec_block(body, env)
            except _Return as r:
                ret = r.value
            finally:
                self.activations.append((row.get("stmt_id"), env.trace))
            return ret
        finally:
            self.depth -= 1

    def _exec_block(self, block_id, env):
        rows = self.prog.block(block_id)
        # nested declarations of this block become visible when the block is entered
        for r in rows:
            op = r["operation"]
            if op == "method_decl":
                env.vars[r["name"]] = GFunc(r, env)
            elif op == "class_decl":
                env.vars[r["name"]] = self._make_class(r, env)
        for r in rows:
            self._exec(r, env)

    def truthy(self, v):
        if isinstance(v, GArray):
            return len(v.items) > 0
        if isinstance(v, GRecord):
            return len(v.d) > 0
        if isinstance(v, (GObject, GClass, GFunc, External, BoundBuiltin)):
            return True
        return bool(v)

    def _step(self, r, env):
        self.steps += 1
        if self.steps > self.max_steps:
            raise Diverged()
        env.trace.append(int(r["stmt_id"]))

    def _exec(self, r, env):
        op = r["operation"]
        if op in ("variable_decl", "parameter_decl", "method_decl", "class_decl", "pass_stmt", "comment_stmt",
                  "import_stmt", "from_import_stmt", "export_stmt", "type_alias_decl", "package_stmt", "struct_decl",
                  "interface_decl", "enum_decl"):
            if op in ("pass_stmt",):
                self._step(r, env)
            return
        if op == "expression_stmt":
            # TypeScript frontend: a marker after every expression statement; nothing is lost by it
            self.events.append("tolerated:expression_stmt")
            return
        self._step(r, env)
        h = getattr(self, "op_" + op, None)
        if h is None:
            raise OutOfVocabulary(op)
        h(r, env)

    # -- instructions -----------------------------------------------------------------------
    def op_global_stmt(self, r, env):
        env.globals_.add(r["name"])

    def op_nonlocal_stmt(self, r, env):
        env.nonlocals.add(r["name"])

    def op_assign_stmt(self, r, env):
        operator = r.get("operator")
        a = self.operand(r.get("operand"), env)
        if isnull(operator) or operator == "":
            self.write(r.get("target"), a, env)
            return
        if isnull(r.get("operand2")):
            self.write(r.get("target"), self.unary(operator, a), env)
            return
        b = self.operand(r.get("operand2"), env)
        self.write(r.get("target"), self.binary(operator, a, b), env)

    def unary(self, op, a):
        try:
            if op == "-":
                return -a
            if op == "+":
                return +a
            if op in ("not", "!"):
                return not self.truthy(a)
            if op == "~":
                return ~a
        except TypeError:
            raise GirRuntimeError("TypeError", "unary %s" % op)
        raise OutOfVocabulary("assign_stmt", "operator:" + str(op))

    def binary(self, op, a, b):
        try:
            if op in ("and", "&&"):
                return b if self.truthy(a) else a
            if op in ("or", "||"):
                return a if self.truthy(a) else b
            if op == "+":
                if isinstance(a, GArray) and isinstance(b, GArray) and a.kind == b.kind:
                    return GArray(a.items + b.items, a.kind)
                if isinstance(a, (GArray, GRecord, GObject)) or isinstance(b, (GArray, GRecord, GObject)):
                    raise TypeError()
                if isinstance(a, str) != isinstance(b, str):
                    if self.lang in ("javascript", "typescript", "java", "php"):
                        return self._tostr(a) + self._tostr(b)
                    raise TypeError()
                return a + b
            if op == "-":
                return a - b
            if op == "*":
                if isinstance(a, GArray) and isinstance(b, int) and not isinstance(b, bool):
                    return GArray(a.items * b, a.kind)
                return a * b
            if op == "/":
                if self.lang == "python":
                    return a / b
                if isinstance(a, int) and isinstance(b, int):
                    if b == 0:
                        raise ZeroDivisionError()
                    q = abs(a) // abs(b)
                    return q if (a >= 0) == (b >= 0) else -q
                return a / b
            if op == "//":
                return a // b
            if op == "%":
                if self.lang == "python":
                    return a % b
                if b == 0:
                    raise ZeroDivisionError()
                return int(math.fmod(a, b))
            if op == "**":
                if isinstance(b, int) and b > 64:
                    raise GirRuntimeError("Overflow", "")
                return a ** b
            if op in ("==", "==="):
                return self._eq(a, b)
            if op in ("!=", "!==", "<>"):
                return not self._eq(a, b)
            if op in ("<", "<=", ">", ">="):
                x, y = a, b
                if isinstance(a, GArray) and isinstance(b, GArray):
                    x, y = self._plain(a), self._plain(b)
                elif isinstance(a, (GArray, GRecord, GObject, GClass, GFunc)) or isinstance(b, (GArray, GRecord, GObject, GClass, GFunc)):
                    raise TypeError()
                if x is None or y is None:
                    raise TypeError()
                if isinstance(x, str) != isinstance(y, str):
                    raise TypeError()
                return {"<": x < y, "<=": x <= y, ">": x > y, ">=": x >= y}[op]
            if op == "in":
                return self._contains(b, a)
            if op == "not in":
                return not self._contains(b, a)
            if op == "is":
                return self._is(a, b)
            if op == "is not":
                return not self._is(a, b)
            if op == "&":
                return a & b
            if op == "|":
                return a | b
            if op == "^":
                return a ^ b
            if op == "<<":
                if b > 64:
                    raise GirRuntimeError("Overflow", "")
                return a << b
            if op == ">>":
                return a >> b
        except ZeroDivisionError:
            raise GirRuntimeError("ZeroDivisionError", op)
        except TypeError:
            raise GirRuntimeError("TypeError", "binary %s" % op)
        except (ValueError, OverflowError):
            raise GirRuntimeError("ValueError", "binary %s" % op)
        raise OutOfVocabulary("assign_stmt", "operator:" + str(op))

    def _tostr(self, v):
        if isinstance(v, bool):
            return "true" if v else "false"
        if v is None:
            return "null"
        return str(v)

    def _plain(self, v):
        if isinstance(v, GArray):
            return [self._plain(x) for x in v.items]
        return v

    def _eq(self, a, b):
        if isinstance(a, (GObject, GClass, GFunc)) or isinstance(b, (GObject, GClass, GFunc)):
            if isinstance(a, GFunc) and isinstance(b, GFunc):
                return a.row is b.row and a.this is b.this
            return a is b
        return a == b

    def _is(self, a, b):
        if a is None or b is None or isinstance(a, bool) or isinstance(b, bool):
            return a is b
        if isinstance(a, (GObject, GClass, GArray, GRecord)) or isinstance(b, (GObject, GClass, GArray, GRecord)):
            return a is b
        return self._eq(a, b) and type(a) is type(b)

    def _contains(self, container, item):
        if isinstance(container, GArray):
            return any(self._eq(x, item) for x in container.items)
        if isinstance(container, GRecord):
            try:
                return item in container.d
            except TypeError:
                raise GirRuntimeError("TypeError", "unhashable")
        if isinstance(container, str) and isinstance(item, str):
            return item in container
        raise GirRuntimeError("TypeError", "in")

    def op_call_stmt(self, r, env):
        name = r.get("name")
        if isnull(name):
            raise OutOfVocabulary("call_stmt", "name")
        pos, named = self._parse_args(r, env)
        callee = self.operand(name, env) if isinstance(name, str) else name
        if not isinstance(callee, (GFunc, GClass, External, BoundBuiltin)):
            raise GirRuntimeError("TypeError", "call of non-callable %r" % (name,))
        res = self._call_value(callee, pos, named, r, env)
        if not isnull(r.get("target")):
            self.write(r.get("target"), res, env)

    def op_object_call_stmt(self, r, env):
        recv_name = r.get("receiver_object")
        field = r.get("field")
        if isnull(recv_name) or isnull(field):
            raise OutOfVocabulary("object_call_stmt", "receiver_object" if isnull(recv_name) else "field")
        pos, named = self._parse_args(r, env)
        recv = self.operand(recv_name, env)
        res = self._invoke(recv, field, pos, named, r, env)
        if not isnull(r.get("target")):
            self.write(r.get("target"), res, env)

    def _invoke(self, recv, field, pos, named, r, env):
        if isinstance(recv, GObject):
            if field in recv.fields:
                return self._call_value(recv.fields[field], pos, named, r, env)
            m = self._find_method(recv.cls, field)
            if m is not None:
                return self._call_func(m, pos, named, this=recv)
            v = self._find_class_field(recv.cls, field)
            if v is not MISSING:
                return self._call_value(v, pos, named, r, env)
            raise GirRuntimeError("AttributeError", field)
        if isinstance(recv, GClass):
            m = self._find_method(recv, field)
            if m is not None:
                # unbound call through the class: the first positional argument is the receiver
                self.labels.add("explicit_self_call")
                if pos and isinstance(pos[0], GObject):
                    return self._call_func(m, pos[1:], named, this=pos[0])
                return self._call_func(m, pos, named, this=None, cls_obj=recv)
            v = self._find_class_field(recv, field)
            if v is not MISSING:
                return self._call_value(v, pos, named, r, env)
            raise GirRuntimeError("AttributeError", field)
        if isinstance(recv, GArray):
            return self._builtin_method(recv, field, pos, named, r)
        if isinstance(recv, GRecord):
            if field in recv.d and isinstance(recv.d[field], (GFunc, GClass)):
                return self._call_value(recv.d[field], pos, named, r, env)
            raise OutOfVocabulary("object_call_stmt", "builtin-method:" + str(field))
        if isinstance(recv, External):
            raise OutOfVocabulary("object_call_stmt", "external:" + str(recv.name) + "." + str(field))
        raise GirRuntimeError("AttributeError", str(field))

    def op_return_stmt(self, r, env):
        name = r.get("name")
        if isnull(name) and not isnull(r.get("target")):
            raise OutOfVocabulary("return_stmt", "target")
        raise _Return(self.operand(name, env) if not isnull(name) else None)

    def op_if_stmt(self, r, env):
        c = self.operand(r.get("condition"), env)
        if self.truthy(c):
            self._exec_block(r.get("then_body"), env)
        else:
            self._exec_block(r.get("else_body"), env)

    def op_while_stmt(self, r, env):
        first = True
        while True:
            if not first:
                self._step(r, env)
            first = False
            if not isnull(r.get("condition_prebody")):
                self._exec_block(r.get("condition_prebody"), env)
            c = self.operand(r.get("condition"), env)
            if not self.truthy(c):
                self._exec_block(r.get("else_body"), env)
                return
            try:
                self._exec_block(r.get("body"), env)
            except _Break:
                return
            except _Continue:
                continue

    def op_dowhile_stmt(self, r, env):
        first = True
        while True:
            if not first:
                self._step(r, env)
            first = False
            try:
                self._exec_block(r.get("body"), env)
            except _Break:
                return
            except _Continue:
                pass
            if not isnull(r.get("condition_prebody")):
                self._exec_block(r.get("condition_prebody"), env)
            c = self.operand(r.get("condition"), env)
            if not self.truthy(c):
                return

    def op_for_stmt(self, r, env):
        self._exec_block(r.get("init_body"), env)
        first = True
        while True:
            if not first:
                self._step(r, env)
            first = False
            self._exec_block(r.get("condition_prebody"), env)
            cond = r.get("condition")
            if not isnull(cond):
                if not self.truthy(self.operand(cond, env)):
                    return
            try:
                self._exec_block(r.get("body"), env)
            except _Break:
                return
            except _Continue:
                pass
            self._exec_block(r.get("update_body"), env)

    def _iter_values(self, recv, keys=False):
        if isinstance(recv, GArray):
            return list(range(len(recv.items))) if keys else list(recv.items)
        if isinstance(recv, GRecord):
            return list(recv.d.keys())
        if isinstance(recv, str):
            return list(recv)
        raise GirRuntimeError("TypeError", "not iterable")

    def op_forin_stmt(self, r, env):
        recv = self.operand(r.get("receiver"), env)
        keys = self.lang in ("javascript", "typescript")
        first = True
        for v in self._iter_values(recv, keys=keys):
            if not first:
                self._step(r, env)
            first = False
            self.write(r.get("name"), v, env)
            try:
                self._exec_block(r.get("body"), env)
            except _Break:
                return
            except _Continue:
                continue
        if not first or True:
            self._exec_block(r.get("else_body"), env) if not isnull(r.get("else_body")) else None

    def op_for_value_stmt(self, r, env):
        recv = self.operand(r.get("receiver"), env)
        vals = list(recv.d.values()) if isinstance(recv, GRecord) else self._iter_values(recv)
        first = True
        for v in vals:
            if not first:
                self._step(r, env)
            first = False
            self.write(r.get("name"), v, env)
            try:
                self._exec_block(r.get("body"), env)
            except _Break:
                return
            except _Continue:
                continue

    def op_break_stmt(self, r, env):
        raise _Break()

    def op_continue_stmt(self, r, env):
        raise _Continue()

    def op_new_array(self, r, env):
        attrs = r.get("attrs")
        kind = "tuple" if isinstance(attrs, str) and "tuple" in attrs else "list"
        self.write(r.get("target"), GArray([], kind, site=r.get("stmt_id")), env)

    def op_new_record(self, r, env):
        self.write(r.get("target"), GRecord(site=r.get("stmt_id")), env)

    def op_new_struct(self, r, env):
        if isnull(r.get("target")):
            raise OutOfVocabulary("new_struct", "target")
        self.write(r.get("target"), GRecord(site=r.get("stmt_id")), env)

    def op_new_object(self, r, env):
        dt = r.get("data_type")
        cls = self.operand(dt, env) if isinstance(dt, str) else None
        if not isinstance(cls, GClass):
            raise OutOfVocabulary("new_object", "data_type:" + str(dt))
        pos, named = self._parse_args(r, env)
        self.write(r.get("target"), self._instantiate(cls, pos, named, r), env)

    def _index(self, arr, idx):
        if isinstance(arr, GArray):
            if isinstance(idx, bool) or not isinstance(idx, int):
                raise GirRuntimeError("TypeError", "index")
            n = len(arr.items)
            if idx < -n or idx >= n:
                raise GirRuntimeError("IndexError", str(idx))
            return idx
        raise GirRuntimeError("TypeError", "index")

    def op_array_write(self, r, env):
        arr = self.operand(r.get("array"), env)
        idx = self.operand(r.get("index"), env)
        src = self.operand(r.get("source"), env)
        if isinstance(arr, GArray):
            if isinstance(idx, int) and not isinstance(idx, bool) and idx == len(arr.items):
                arr.items.append(src)
                return
            arr.items[self._index(arr, idx)] = src
            return
        if isinstance(arr, GRecord):
            try:
                arr.d[idx] = src
            except TypeError:
                raise GirRuntimeError("TypeError", "unhashable")
            return
        raise GirRuntimeError("TypeError", "array_write")

    def op_array_read(self, r, env):
        if isnull(r.get("array")):
            raise OutOfVocabulary("array_read", "array")
        arr = self.operand(r.get("array"), env)
        idx = self.operand(r.get("index"), env)
        if isinstance(arr, GArray):
            self.write(r.get("target"), arr.items[self._index(arr, idx)], env)
            return
        if isinstance(arr, GRecord):
            try:
                if idx not in arr.d:
                    raise GirRuntimeError("KeyError", str(idx))
            except TypeError:
                raise GirRuntimeError("TypeError", "unhashable")
            self.write(r.get("target"), arr.d[idx], env)
            return
        if isinstance(arr, str):
            if isinstance(idx, bool) or not isinstance(idx, int):
                raise GirRuntimeError("TypeError", "index")
            if idx < -len(arr) or idx >= len(arr):
                raise GirRuntimeError("IndexError", str(idx))
            self.write(r.get("target"), arr[idx], env)
            return
        raise GirRuntimeError("TypeError", "array_read")

    def op_array_append(self, r, env):
        arr = self.operand(r.get("array"), env)
        if not isinstance(arr, GArray):
            raise GirRuntimeError("TypeError", "array_append")
        arr.items.append(self.operand(r.get("source"), env))

    def op_record_write(self, r, env):
        col = "receiver_record" if not isnull(r.get("receiver_record")) else "receiver_object"
        rec = self.operand(r.get(col), env)
        key = self.operand(r.get("key"), env)
        val = self.operand(r.get("value"), env)
        if isinstance(rec, GRecord):
            try:
                rec.d[key] = val
            except TypeError:
                raise GirRuntimeError("TypeError", "unhashable")
            return
        if isinstance(rec, GObject):
            rec.fields[key] = val
            return
        raise GirRuntimeError("TypeError", "record_write")

    def op_field_write(self, r, env):
        recv = self.operand(r.get("receiver_object"), env)
        field = r.get("field")
        src = self.operand(r.get("source"), env)
        if isinstance(recv, GObject):
            recv.fields[field] = src
            return
        if isinstance(recv, GClass):
            recv.fields[field] = src
            return
        if isinstance(recv, GRecord):
            recv.d[field] = src
            return
        if isinstance(recv, GArray) and isinstance(field, str) and field.lstrip("-").isdigit():
            # integer-like field names on arrays denote elements (that is how the analyses treat them)
            idx = int(field)
            if idx == len(recv.items):
                recv.items.append(src)
            else:
                recv.items[self._index(recv, idx)] = src
            return
        raise GirRuntimeError("AttributeError", "field_write %s" % field)

    def op_field_read(self, r, env):
        recv = self.operand(r.get("receiver_object"), env)
        field = r.get("field")
        if isnull(field):
            raise OutOfVocabulary("field_read", "field")
        if isinstance(recv, GObject):
            if field in recv.fields:
                v = recv.fields[field]
            else:
                v = self._find_class_field(recv.cls, field)
                if v is MISSING:
                    m = self._find_method(recv.cls, field)
                    if m is None:
                        raise GirRuntimeError("AttributeError", field)
                    v = m.bind(recv)
            self.write(r.get("target"), v, env)
            return
        if isinstance(recv, GClass):
            v = self._find_class_field(recv, field)
            if v is MISSING:
                m = self._find_method(recv, field)
                if m is None:
                    raise GirRuntimeError("AttributeError", field)
                v = m
            self.write(r.get("target"), v, env)
            return
        if isinstance(recv, GRecord):
            if field not in recv.d:
                raise GirRuntimeError("AttributeError", field)
            self.write(r.get("target"), recv.d[field], env)
            return
        if isinstance(recv, GArray):
            if isinstance(field, str) and field.lstrip("-").isdigit():
                self.write(r.get("target"), recv.items[self._index(recv, int(field))], env)
                return
            if field == "length":
                self.write(r.get("target"), len(recv.items), env)
                return
            self.write(r.get("target"), BoundBuiltin(recv, field), env)
            return
        raise GirRuntimeError("AttributeError", str(field))

    def op_slice_read(self, r, env):
        arr = self.operand(r.get("array"), env)
        vals = []
        for c in ("start", "end", "step"):
            v = r.get(c)
            vals.append(None if isnull(v) or v == "" else self.operand(v, env))
        for v in vals:
            if v is not None and (isinstance(v, bool) or not isinstance(v, int)):
                raise GirRuntimeError("TypeError", "slice")
        if vals[2] == 0:
            raise GirRuntimeError("ValueError", "slice step")
        sl = slice(*vals)
        if isinstance(arr, GArray):
            self.write(r.get("target"), GArray(arr.items[sl], arr.kind), env)
            return
        if isinstance(arr, str):
            self.write(r.get("target"), arr[sl], env)
            return
        raise GirRuntimeError("TypeError", "slice_read")

    def op_del_stmt(self, r, env):
        raise OutOfVocabulary("del_stmt")
