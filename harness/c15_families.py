"""C15 helper: the loader families exercised by the stateful model-based test.

A Family knows how to
  * instantiate the real loader class on a scratch directory (with explicit cache capacities),
  * draw a content SPEC (a small JSON value shaped like what lian's pipeline saves) and build the real item,
  * apply a save to the real loader and to the dict model (model: view key -> normal form),
  * read every view back from a loader as a normal form,
  * list which ids the exported files must contain.

Specs are plain JSON so that a whole operation history replays without Hypothesis.
"""
import os
import types

from harness import c15_norm as N
from harness.c15_norm import EMPTY

BUNDLE, FILE = "bundle", "file"


def _mods():
    cs = N._lian()[0]
    from lian.util import loader as L
    from lian.config import config, schema
    return cs, L, config, schema


OPTS = types.SimpleNamespace(workspace="", lang_extensions=[], quiet=True, debug=False)

# id alphabets (4 ids each).  Method-level loaders are keyed by method ids or, in P3, by 64-bit context hashes.
UNIT_IDS = [101, 102, 103, 104]
METHOD_IDS = [121, 134, 150, -3867925127425323193]
CLASS_IDS = [121, 140, 166, 180]
CALLSITES = [[150, 155, 123], [150, 156, 128], [161, 159, 150], [123, 127, 150]]

NAMES = ["a", "b", "v", "%this", "get", "%vv1", "x"]
OPS = ["assign_stmt", "call_stmt", "variable_decl", "method_decl", "block_start", "field_write", "return_stmt"]


# ---------------------------------------------------------------------------------------------
# drawing helpers (hypothesis imported lazily so that replay does not need it)

def _st():
    from hypothesis import strategies as st
    return st


def d_int(draw, lo, hi):
    return draw(_st().integers(lo, hi))


def d_pick(draw, seq):
    return draw(_st().sampled_from(list(seq)))


def d_list(draw, elem, lo, hi):
    n = d_int(draw, lo, hi)
    return [elem(draw) for _ in range(n)]


def d_ids(draw, lo, hi, base=120, span=12):
    """sorted list of distinct small ids"""
    n = d_int(draw, lo, hi)
    out = []
    for _ in range(n):
        v = base + d_int(draw, 0, span)
        if v not in out:
            out.append(v)
    return sorted(out)


def d_symdef(draw):
    return [d_int(draw, 0, 30), d_pick(draw, [120, 125, 130, -124, -121]), d_int(draw, 120, 132)]


def d_statedef(draw):
    return [d_int(draw, 0, 30), d_int(draw, 100, 110), d_int(draw, 120, 132)]


def d_access_path(draw):
    return d_list(draw, lambda dr: [d_pick(dr, [0, 9, 10, 13]), d_pick(dr, NAMES), d_int(dr, 100, 110)], 0, 2)


# ---------------------------------------------------------------------------------------------

class Family:
    kind = BUNDLE
    name = ""
    cls = ""            # loader class name, used in signatures
    ids = UNIT_IDS
    whole = False       # True: the loader stores one value, not a map (ids ignored)

    def mkid(self, j):
        return self.ids[j]

    # real loader -----------------------------------------------------------------------------
    def new(self, d, icap, bcap):
        raise NotImplementedError

    def export(self, loader):
        loader.export()

    def export_indexing(self, loader):
        if hasattr(loader, "export_indexing"):
            loader.export_indexing()

    def restore(self, loader):
        if hasattr(loader, "restore_indexing"):
            loader.restore_indexing()
        if hasattr(loader, "restore"):
            loader.restore()

    # content ---------------------------------------------------------------------------------
    def content(self, draw):
        raise NotImplementedError

    def build(self, spec, idobj):
        raise NotImplementedError

    def norm(self, obj, idobj=None):
        raise NotImplementedError

    def spec_rows(self, spec):
        """number of rows the item flattens to (for labels only)"""
        return len(spec) if isinstance(spec, (list, dict)) else 1

    # operations ------------------------------------------------------------------------------
    def save(self, loader, j, spec):
        idobj = self.mkid(j)
        loader.save(idobj, self.build(spec, idobj))

    def model_save(self, model, j, spec):
        idobj = self.mkid(j)
        model["item:%d" % j] = self.norm(self.build(spec, idobj), idobj)

    def views(self, model):
        """every view key that must be checked after a reopen"""
        return sorted(model)

    def probe_views(self, j):
        """view keys read by a get(j) operation"""
        return ["item:%d" % j]

    list_item = False   # True: the item type itself is list-like (a bare [] is a proper empty item)

    def read(self, loader, view):
        return self.read2(loader, view)[0]

    def read2(self, loader, view):
        """-> (normal form, shape) with shape in {"item", "list", "none"}: what kind of python object came back"""
        j = int(view.split(":")[1])
        raw = loader.get_item_by_id(self.mkid(j))
        shape = "none" if raw is None else ("list" if type(raw) is list and not self.list_item else "item")
        return self.norm(raw, self.mkid(j)), shape

    def contain(self, loader, j):
        return bool(loader.contain(self.mkid(j)))

    def default(self, view):
        """normal form of a view nothing was saved for"""
        return EMPTY

    # files -----------------------------------------------------------------------------------
    id_column = "unit_id"

    def file_ids(self, df):
        if self.id_column not in df.columns:
            return set()
        return set(N.scalar(v) for v in df[self.id_column].tolist())

    def file_key(self, j):
        return N.scalar(self.mkid(j))


def _gl(cls_name, schema_name=None):
    def new(self, d, icap, bcap):
        cs, L, config, schema = _mods()
        sch = getattr(schema, schema_name) if schema_name else []
        return getattr(L, cls_name)(OPTS, sch, os.path.join(d, self.name), icap, bcap)
    return new


# ---- unit level ---------------------------------------------------------------------------------

class GIR(Family):
    list_item = True
    name, cls = "gir", "UnitGIRLoader"
    new = _gl("UnitGIRLoader")
    COLS = {"target": "s", "operand": "s", "operand2": "s", "name": "s", "body": "i", "attrs": "s", "data_type": "s"}

    def content(self, draw):
        def row(dr):
            r = {"operation": d_pick(dr, OPS), "stmt_id": d_int(dr, 120, 140), "parent_stmt_id": d_int(dr, 0, 130)}
            for c, t in self.COLS.items():
                if d_int(dr, 0, 3) == 0:
                    r[c] = d_pick(dr, NAMES) if t == "s" else d_int(dr, 120, 140)
            return r
        return d_list(draw, row, 0, 4)

    def build(self, spec, idobj):
        return [dict(r) for r in spec]

    def norm(self, obj, idobj=None):
        return N.rows(obj, idobj)


class ScopeHierarchy(Family):
    list_item = True
    name, cls = "scope_hierarchy", "ScopeHierarchyLoader"
    new = _gl("ScopeHierarchyLoader")

    def content(self, draw):
        def row(dr):
            return {"stmt_id": d_int(dr, 0, 140), "scope_id": d_pick(dr, [-1, 0, 121, 123]), "parent_stmt_id": d_int(dr, -1, 130),
                    "scope_kind": d_int(dr, 1, 13), "name": d_pick(dr, NAMES + [""]), "attrs": d_pick(dr, ["", "public"]),
                    "supers": d_pick(dr, ["", "Base"]), "alias": "", "source": d_pick(dr, ["", "helper"])}
        return d_list(draw, row, 0, 4)

    def build(self, spec, idobj):
        cs = N._lian()[0]
        sp = cs.ScopeSpace()
        for r in spec:
            sp.add(cs.Scope(unit_id=idobj, **r))
        return sp

    def norm(self, obj, idobj=None):
        return N.rows(obj, idobj)


class ExportSymbols(Family):
    list_item = True
    name, cls = "export_symbols", "UnitIDToExportSymbolsLoader"
    new = _gl("UnitIDToExportSymbolsLoader")

    def content(self, draw):
        return d_list(draw, lambda dr: [d_int(dr, 100, 104), d_int(dr, 0, 11), d_pick(dr, [120, 121, 132, -3, -4]),
                                        d_pick(dr, NAMES), d_pick(dr, ["unset", "own"])], 0, 3)

    def build(self, spec, idobj):
        cs = N._lian()[0]
        return [cs.SymbolNodeInImportGraph(r[0], r[1], r[2], r[3], idobj if r[4] == "own" else -1) for r in spec]

    def norm(self, obj, idobj=None):
        return N.rows(obj, idobj)


class _DictFamily(Family):
    key_names = True        # outer keys are names (else small ints)

    def content(self, draw):
        out = {}
        for _ in range(d_int(draw, 0, 4)):
            k = d_pick(draw, NAMES) if self.key_names else str(d_pick(draw, [0, 121, 123, 132]))
            out[k] = d_ids(draw, 1, 3, base=0 if not self.key_names else 120)
        return out

    def build(self, spec, idobj):
        return {(k if self.key_names else int(k)): set(v) for k, v in spec.items()}

    def norm(self, obj, idobj=None):
        return N.dict_of_sets(obj)


class ClassMembers(_DictFamily):
    name, cls, ids, id_column = "class_members", "ClassIDToMembersLoader", CLASS_IDS, "class_id"
    new = _gl("ClassIDToMembersLoader")


class SymbolNameToScopeIDs(_DictFamily):
    name, cls = "symbol_name_to_scope_ids", "SymbolNameToScopeIDsLoader"
    new = _gl("SymbolNameToScopeIDsLoader")


class SymbolNameToDeclIDs(_DictFamily):
    name, cls = "symbol_name_to_decl_ids", "SymbolNameToDeclIDsLoader"
    new = _gl("SymbolNameToDeclIDsLoader")


class ScopeToAvailableScopes(_DictFamily):
    name, cls, key_names = "scope_to_available_scope_ids", "ScopeIDToAvailableScopeIDsLoader", False
    new = _gl("ScopeIDToAvailableScopeIDsLoader")


class ScopeToSymbolInfo(Family):
    name, cls = "scope_to_symbol_info", "ScopeIDToSymbolInfoLoader"
    new = _gl("ScopeIDToSymbolInfoLoader")

    def content(self, draw):
        out = {}
        for _ in range(d_int(draw, 0, 3)):
            inner = {}
            for _ in range(d_int(draw, 1, 3)):
                inner[d_pick(draw, NAMES)] = d_int(draw, 120, 140)
            out[str(d_pick(draw, [0, 121, 123, 132]))] = inner
        return out

    def build(self, spec, idobj):
        return {int(k): dict(v) for k, v in spec.items()}

    def norm(self, obj, idobj=None):
        return N.dict_of_dicts(obj)


# ---- method level -------------------------------------------------------------------------------

class CFG(Family):
    name, cls, ids, id_column = "cfg", "CFGLoader", METHOD_IDS, "method_id"
    new = _gl("CFGLoader", "control_flow_graph_schema")

    def content(self, draw):
        edges = []
        for _ in range(d_int(draw, 0, 4)):
            s, t = d_int(draw, 120, 126), d_pick(draw, [-1, 120, 121, 122, 123, 124, 125, 126])
            if s != t and not any(e[0] == s and e[1] == t for e in edges):
                edges.append([s, t, d_pick(draw, [0, 0, 1, 2, 9])])
        return edges

    def build(self, spec, idobj):
        cs = N._lian()[0]
        g = cs.ControlFlowGraph(idobj)
        for s, t, w in spec:
            g.add_edge(s, t, w)
        return g.graph

    def norm(self, obj, idobj=None):
        return N.cfg(obj)


class _BitVec(Family):
    ids, id_column = METHOD_IDS, "method_id"
    new = _gl("BitVectorManagerLoader")
    cls = "BitVectorManagerLoader"
    state = False

    def content(self, draw):
        return d_list(draw, d_statedef if self.state else d_symdef, 0, 4)

    def build(self, spec, idobj):
        cs = N._lian()[0]
        m = cs.BitVectorManager()
        for i, k, s in spec:
            m.add_bit_id(cs.StateDefNode(index=i, state_id=k, stmt_id=s) if self.state
                         else cs.SymbolDefNode(index=i, symbol_id=k, stmt_id=s))
        return m

    def norm(self, obj, idobj=None):
        return N.bitvec(obj)


class SymbolBitVec(_BitVec):
    name = "symbol_bit_vector"


class StateBitVec(_BitVec):
    name, state = "state_bit_vector", True


class StmtStatusF(Family):
    name, cls, ids, id_column = "stmt_status", "StmtStatusLoader", METHOD_IDS, "method_id"
    new = _gl("StmtStatusLoader")

    def content(self, draw):
        out = {}
        for _ in range(d_int(draw, 0, 3)):
            sid = d_int(draw, 120, 132)
            out[str(sid)] = {
                "defined_symbol": d_int(draw, -1, 30),
                "used_symbols": d_list(draw, lambda dr: d_int(dr, 0, 30), 0, 3),
                "implicitly_defined_symbols": d_list(draw, lambda dr: d_int(dr, 0, 30), 0, 2),
                "implicitly_used_symbols": d_list(draw, lambda dr: d_int(dr, 0, 30), 0, 2),
                "in_symbol_bits": d_list(draw, d_symdef, 0, 2), "out_symbol_bits": d_list(draw, d_symdef, 0, 2),
                "defined_states": d_ids(draw, 0, 2, base=0, span=40),
                "in_state_bits": d_list(draw, d_statedef, 0, 2), "out_state_bits": d_list(draw, d_statedef, 0, 2),
                "field_name": d_pick(draw, ["", "", "v", "item"]),
            }
        return out

    def build(self, spec, idobj):
        cs = N._lian()[0]
        out = {}
        for k, s in spec.items():
            sym = lambda l: {cs.SymbolDefNode(index=a, symbol_id=b, stmt_id=c) for a, b, c in l}
            sta = lambda l: {cs.StateDefNode(index=a, state_id=b, stmt_id=c) for a, b, c in l}
            out[int(k)] = cs.StmtStatus(
                stmt_id=int(k), defined_symbol=s["defined_symbol"], used_symbols=list(s["used_symbols"]),
                implicitly_defined_symbols=list(s["implicitly_defined_symbols"]),
                implicitly_used_symbols=list(s["implicitly_used_symbols"]),
                in_symbol_bits=sym(s["in_symbol_bits"]), out_symbol_bits=sym(s["out_symbol_bits"]),
                defined_states=set(s["defined_states"]), in_state_bits=sta(s["in_state_bits"]),
                out_state_bits=sta(s["out_state_bits"]), field_name=s["field_name"])
        return out

    def norm(self, obj, idobj=None):
        return N.stmt_status(obj)


class Space(Family):
    name, cls, ids, id_column = "symbol_state_space", "SymbolStateSpaceLoader", METHOD_IDS, "method_id"
    new = _gl("SymbolStateSpaceLoader")

    def content(self, draw):
        def elem(dr):
            if d_int(dr, 0, 1) == 0:
                return {"k": "symbol", "stmt_id": d_int(dr, 120, 132), "name": d_pick(dr, NAMES),
                        "default_data_type": d_pick(dr, ["", "%int"]), "states": d_ids(dr, 0, 2, base=0, span=30),
                        "symbol_id": d_pick(dr, [120, 130, -121, -122]), "source_unit_id": d_pick(dr, [101, 102])}
            sid = d_int(dr, 100, 118)
            return {"k": "state", "stmt_id": d_int(dr, 120, 132), "state_id": sid,
                    "symbol_or_state": d_pick(dr, [1, 1, 2]), "state_type": d_pick(dr, [1, 1, 2, 3, 4]),
                    "data_type": d_pick(dr, ["", "%int", "%string", "%this"]), "value": d_pick(dr, ["", "5", "v", "'s'"]),
                    "fields": {k: d_ids(dr, 1, 2, base=0, span=30) for k in d_list(dr, lambda q: d_pick(q, ["v", "item", "0"]), 0, 2)},
                    "array": d_list(dr, lambda q: d_ids(q, 1, 2, base=0, span=30), 0, 2),
                    "tangping_flag": d_pick(dr, [False, False, True]),
                    "tangping_elements": d_ids(dr, 0, 2, base=0, span=30),
                    "source_symbol_id": d_pick(dr, [-1, -1, 125, -124]),
                    "source_state_id": d_pick(dr, [sid, sid, 107]),
                    "access_path": d_access_path(dr)}
        return d_list(draw, elem, 0, 4)

    def build(self, spec, idobj):
        cs = N._lian()[0]
        sp = cs.SymbolStateSpace()
        for e in spec:
            if e["k"] == "symbol":
                sp.add(cs.Symbol(stmt_id=e["stmt_id"], name=e["name"], default_data_type=e["default_data_type"],
                                 states=set(e["states"]), symbol_id=e["symbol_id"], source_unit_id=e["source_unit_id"]))
            else:
                sp.add(cs.State(stmt_id=e["stmt_id"], state_id=e["state_id"], symbol_or_state=e["symbol_or_state"],
                                state_type=e["state_type"], data_type=e["data_type"], value=e["value"],
                                fields={k: set(v) for k, v in e["fields"].items()}, array=[set(a) for a in e["array"]],
                                tangping_flag=e["tangping_flag"], tangping_elements=set(e["tangping_elements"]),
                                source_symbol_id=e["source_symbol_id"], source_state_id=e["source_state_id"],
                                access_path=[cs.AccessPoint(kind=a, key=b, state_id=c) for a, b, c in e["access_path"]]))
        return sp

    def norm(self, obj, idobj=None):
        return N.space(obj)


class ParamMapping(Family):
    list_item = True
    name, cls, ids, id_column = "callee_parameter_mapping", "CalleeParameterMapping", CALLSITES, "hash_id"
    new = _gl("CalleeParameterMapping")

    def mkid(self, j):
        cs = N._lian()[0]
        return cs.CallSite(*self.ids[j])

    def content(self, draw):
        def pm(dr):
            return {"arg_index_in_space": d_int(dr, -1, 30), "arg_state_id": d_int(dr, 100, 118),
                    "arg_source_symbol_id": d_pick(dr, [-1, 152, 125]), "arg_access_path": d_access_path(dr),
                    "parameter_symbol_id": d_int(dr, 120, 140),
                    "parameter_type": d_pick(dr, ["%parameter_decl", "%packed_positional_parameter"]),
                    "parameter_access_path": d_pick(dr, [None, None, [9, "v", 108]]),
                    "is_default_value": d_pick(dr, [False, False, True])}
        return d_list(draw, pm, 0, 3)

    def build(self, spec, idobj):
        cs = N._lian()[0]
        out = []
        for p in spec:
            pap = p["parameter_access_path"]
            out.append(cs.ParameterMapping(
                arg_index_in_space=p["arg_index_in_space"], arg_state_id=p["arg_state_id"],
                arg_source_symbol_id=p["arg_source_symbol_id"],
                arg_access_path=[cs.AccessPoint(kind=a, key=b, state_id=c) for a, b, c in p["arg_access_path"]],
                parameter_symbol_id=p["parameter_symbol_id"], parameter_type=p["parameter_type"],
                parameter_access_path=None if pap is None else cs.AccessPoint(kind=pap[0], key=pap[1], state_id=pap[2]),
                is_default_value=p["is_default_value"]))
        return out

    def norm(self, obj, idobj=None):
        return N.param_mapping(obj)

    def file_key(self, j):
        return hash(self.mkid(j))


class DefinedSymbols(Family):
    """P1 saves {symbol_id: set(stmt ids)}, P2/P3 save {symbol_id: set(SymbolDefNode)} (separate loader instances)"""
    name, cls, ids, id_column = "defined_symbols_p1", "MethodSymbolToDefinedLoader", METHOD_IDS, "method_id"
    new = _gl("MethodSymbolToDefinedLoader")
    nodes = False

    def content(self, draw):
        nodes = self.nodes
        out = {}
        for _ in range(d_int(draw, 0, 3)):
            k = d_pick(draw, [120, 125, 130, -124])
            if nodes:
                out[str(k)] = [[d_int(draw, 0, 30), d_int(draw, 120, 132)] for _ in range(d_int(draw, 1, 3))]
            else:
                out[str(k)] = d_ids(draw, 1, 3)
        return {"nodes": nodes, "d": out}

    def build(self, spec, idobj):
        cs = N._lian()[0]
        out = {}
        for k, v in spec["d"].items():
            if spec["nodes"]:
                out[int(k)] = {cs.SymbolDefNode(index=a, symbol_id=int(k), stmt_id=b) for a, b in v}
            else:
                out[int(k)] = set(v)
        return out

    def norm(self, obj, idobj=None):
        return N.defined(obj)

    def spec_rows(self, spec):
        return len(spec["d"])


class DefinedSymbolsP3(DefinedSymbols):
    name, nodes = "defined_symbols_p3", True


class DefinedStates(Family):
    name, cls, ids, id_column = "defined_states", "MethodStateToDefinedLoader", METHOD_IDS, "method_id"
    new = _gl("MethodStateToDefinedLoader")

    def content(self, draw):
        out = {}
        for _ in range(d_int(draw, 0, 3)):
            out[str(d_int(draw, 100, 110))] = [[d_int(draw, 0, 30), d_int(draw, 120, 132)] for _ in range(d_int(draw, 1, 2))]
        return out

    def build(self, spec, idobj):
        cs = N._lian()[0]
        return {int(k): {cs.StateDefNode(index=a, state_id=int(k), stmt_id=b) for a, b in v} for k, v in spec.items()}

    def norm(self, obj, idobj=None):
        return N.defined(obj)


class UsedSymbols(Family):
    name, cls, ids, id_column = "used_symbols", "MethodSymbolToUsedLoader", METHOD_IDS, "method_id"
    new = _gl("MethodSymbolToUsedLoader")

    def content(self, draw):
        out = {}
        for _ in range(d_int(draw, 0, 3)):
            out[str(d_pick(draw, [120, 150, -122, 130]))] = d_ids(draw, 1, 3)
        return out

    def build(self, spec, idobj):
        return {int(k): set(v) for k, v in spec.items()}

    def norm(self, obj, idobj=None):
        return N.dict_of_sets(obj)


class SymbolGraphF(Family):
    name, cls, ids, id_column = "symbol_graph", "SymbolGraphLoader", METHOD_IDS, "method_id"
    new = _gl("SymbolGraphLoader", "symbol_graph_schema_p2")

    def content(self, draw):
        edges = []
        for _ in range(d_int(draw, 0, 4)):
            stmt, node, w = d_int(draw, 120, 126), d_symdef(draw), d_pick(draw, [1, 2, 4])
            e = ["def" if d_int(draw, 0, 1) else "use", stmt, node, w]
            if not any(x[0] == e[0] and x[1] == stmt and x[2] == node for x in edges):
                edges.append(e)
        return edges

    def build(self, spec, idobj):
        cs = N._lian()[0]
        g = cs.SymbolGraph(idobj)
        for kind, stmt, (i, k, s), w in spec:
            n = cs.SymbolDefNode(index=i, symbol_id=k, stmt_id=s)
            if kind == "def":
                g.add_edge(stmt, n, w)
            else:
                g.add_edge(n, stmt, w)
        return g.graph

    def norm(self, obj, idobj=None):
        return N.symbol_graph(obj)


class SFG(Family):
    """State flow graphs as the pipeline builds them: statement nodes carry the GIR Row of the statement, symbol and
    state nodes carry a name and an access path."""
    name, cls, ids, id_column = "state_flow_graph", "StateFlowGraphLoader", METHOD_IDS, "method_id"
    new = _gl("StateFlowGraphLoader", "state_flow_graph_schema_p2")

    def content(self, draw):
        # a node's identity is (type, def stmt, index, id, context); everything else it carries (statement row, name,
        # access path) is a function of that identity, as in the pipeline
        def node(dr):
            t = d_pick(dr, [1, 2, 3])
            if t == 1:
                return {"t": 1, "stmt": d_int(dr, 120, 126), "ctx": d_pick(dr, [-1, 159])}
            return {"t": t, "stmt": d_int(dr, 120, 126), "index": d_int(dr, 0, 30), "id": d_int(dr, 100, 130), "ctx": d_pick(dr, [-1, 159])}
        edges = []
        for _ in range(d_int(draw, 0, 3)):
            edges.append([node(draw), node(draw), [d_int(draw, 0, 11), d_int(draw, 120, 126), d_int(draw, 0, 2), d_int(draw, -1, 2),
                                                   d_pick(draw, ["", "v"])]])
        return edges

    def _node(self, cs, n):
        from lian.util.data_model import DataModel
        if n["t"] == 1:
            dm = DataModel([{"operation": OPS[n["stmt"] % len(OPS)], "stmt_id": n["stmt"], "parent_stmt_id": 0, "start_row": n["stmt"] - 100,
                             "target": "%vv1", "name": "f"}])
            return cs.SFGNode(node_type=1, def_stmt_id=n["stmt"], context=n["ctx"], stmt=dm.access(0), name="")
        name = NAMES[n["id"] % len(NAMES)]
        ap = [] if n["index"] % 2 else [cs.AccessPoint(kind=9, key=name, state_id=100 + n["index"] % 10)]
        return cs.SFGNode(node_type=n["t"], def_stmt_id=n["stmt"], index=n["index"], node_id=n["id"], context=n["ctx"],
                          name=name, access_path=ap)

    def build(self, spec, idobj):
        cs = N._lian()[0]
        g = cs.StateFlowGraph(idobj)
        for s, d, e in spec:
            g.add_edge(self._node(cs, s), self._node(cs, d), cs.SFGEdge(edge_type=e[0], stmt_id=e[1], round=e[2], pos=e[3], name=e[4]))
        return g.graph

    def norm(self, obj, idobj=None):
        return N.sfg(obj)


# ---------------------------------------------------------------------------------------------
# whole-file loaders: save / get / export / fresh instance + restore()

class FileFamily(Family):
    kind = FILE

    def read2(self, loader, view):
        return self.read(loader, view), "item"

    def contain(self, loader, j):
        return None

    def export_indexing(self, loader):
        pass

    def restore(self, loader):
        loader.restore()

    def file_ids(self, df):
        return None


def _fl(cls_name):
    def new(self, d, icap, bcap):
        cs, L, config, schema = _mods()
        return getattr(L, cls_name)(os.path.join(d, self.name))
    return new


class OneToMany(FileFamily):
    """UnitIDToMethodIDLoader & the ten maps of the same class: save(one, many) / one->many / member->one."""
    name, cls, ids = "one_to_many", "OneToManyMapLoader", UNIT_IDS
    new = _fl("UnitIDToMethodIDLoader")
    ordered = False

    def content(self, draw):
        # members are disjoint between the four keys (a statement belongs to one unit), as in the pipeline
        return {"as": d_pick(draw, ["set", "list"]), "m": d_list(draw, lambda dr: d_int(dr, 0, 4), 0, 3)}

    def members(self, j, spec):
        out = []
        for m in spec["m"]:
            v = 200 + 10 * j + m
            if v not in out:
                out.append(v)
        return out

    def save(self, loader, j, spec):
        m = self.members(j, spec)
        loader.save(self.mkid(j), set(m) if spec["as"] == "set" else list(m))

    def model_save(self, model, j, spec):
        m = self.members(j, spec)
        # dict model: the latest save of a key replaces the earlier one, also for the derived member->key view
        for k in [k for k, v in model.items() if k.startswith("back:") and v == N.scalar(self.mkid(j))]:
            model[k] = -1
        model["item:%d" % j] = N.id_set(m)
        for v in m:
            model["back:%d" % v] = N.scalar(self.mkid(j))

    def probe_views(self, j):
        return ["item:%d" % j] + ["back:%d" % (200 + 10 * j + m) for m in range(5)]

    def read(self, loader, view):
        kind, v = view.split(":")
        if kind == "item":
            return N.id_set(loader.convert_one_to_many(self.mkid(int(v))))
        return N.scalar(loader.convert_many_to_one(int(v)))

    def default(self, view):
        return EMPTY if view.startswith("item:") else -1


class StmtToScope(FileFamily):
    name, cls = "stmt_id_to_scope_id", "StmtIDToScopeIDLoader"
    new = _fl("StmtIDToScopeIDLoader")
    whole = True

    def content(self, draw):
        return {str(d_int(draw, 120, 130)): d_pick(draw, [0, 121, 123, 126]) for _ in range(d_int(draw, 0, 3))}

    def save(self, loader, j, spec):
        loader.save({int(k): v for k, v in spec.items()})

    def model_save(self, model, j, spec):
        for k, v in spec.items():
            model["stmt:%s" % k] = v

    def probe_views(self, j):
        return ["stmt:%d" % s for s in range(120, 131)]

    def read(self, loader, view):
        return N.scalar(loader.get(int(view.split(":")[1])))

    def default(self, view):
        return -1


class UnitToStmtIDs(FileFamily):
    name, cls = "unit_id_to_stmt_id", "UnitIDToStmtIDLoader"
    new = _fl("UnitIDToStmtIDLoader")

    def content(self, draw):
        # GIR statement ids of one unit are a contiguous range (get_all_stmt_ids of a unit)
        return {"lo": d_int(draw, 0, 3), "n": d_int(draw, 0, 4)}

    def _ids(self, j, spec):
        lo = 300 + 20 * j + spec["lo"]
        return list(range(lo, lo + spec["n"]))

    def save(self, loader, j, spec):
        loader.save(self.mkid(j), self._ids(j, spec))

    def model_save(self, model, j, spec):
        ids = self._ids(j, spec)
        for k in [k for k, v in model.items() if k.startswith("back:") and v == N.scalar(self.mkid(j))]:
            model[k] = -1
        model["item:%d" % j] = N.id_list(ids)
        for s in ids:
            model["back:%d" % s] = N.scalar(self.mkid(j))

    def probe_views(self, j):
        return ["item:%d" % j] + ["back:%d" % (300 + 20 * j + m) for m in range(8)]

    def read(self, loader, view):
        kind, v = view.split(":")
        if kind == "item":
            return N.id_list(loader.convert_one_to_many(self.mkid(int(v))))
        return N.scalar(loader.get(int(v)))

    def default(self, view):
        return EMPTY if view.startswith("item:") else -1


class _RowMap(FileFamily):
    """CallStmtIDToCallFormatInfoLoader / MethodIDToMethodDeclFormatLoader: id -> one record"""
    ids = METHOD_IDS[:3] + [161]
    key_col = "stmt_id"

    def content(self, draw):
        return {"callee_name": d_pick(draw, NAMES), "callee_symbol_id": d_pick(draw, [150, -122]),
                "positional_args": d_pick(draw, ["[]", "[{'state_id': 101, 'value': '5'}]"]),
                "unit_id": d_pick(draw, [101, 102])}

    def save(self, loader, j, spec):
        rec = dict(spec)
        rec[self.key_col] = self.mkid(j)
        loader.save(self.mkid(j), rec)

    def model_save(self, model, j, spec):
        rec = dict(spec)
        rec[self.key_col] = self.mkid(j)
        model["item:%d" % j] = N.row_dict(rec)

    def read(self, loader, view):
        return N.row_dict(loader.get(self.mkid(int(view.split(":")[1]))))


class CallFormat(_RowMap):
    name, cls = "call_stmt_format", "CallStmtIDToCallFormatInfoLoader"
    new = _fl("CallStmtIDToCallFormatInfoLoader")


class MethodDeclFormat(_RowMap):
    name, cls, key_col = "method_decl_format", "MethodIDToMethodDeclFormatLoader", "method_id"
    new = _fl("MethodIDToMethodDeclFormatLoader")


class ExternalSymbolIDs(FileFamily):
    name, cls, ids = "external_symbol_id_collection", "ExternalSymbolIDCollectionLoader", METHOD_IDS
    new = _fl("ExternalSymbolIDCollectionLoader")

    def content(self, draw):
        return {"as": d_pick(draw, ["dict", "list", "set"]), "ids": d_ids(draw, 0, 3)}

    def save(self, loader, j, spec):
        ids = spec["ids"]
        v = {"n%d" % i: i for i in ids} if spec["as"] == "dict" else (list(ids) if spec["as"] == "list" else set(ids))
        loader.save_external_symbol_id_collection(self.mkid(j), v)

    def model_save(self, model, j, spec):
        model["item:%d" % j] = N.id_set(spec["ids"])

    def read(self, loader, view):
        return N.id_set(loader.get_external_symbol_id_collection(self.mkid(int(view.split(":")[1]))))


class EntryPoints(FileFamily):
    name, cls, whole = "entry_points", "EntryPointsLoader", True
    new = _fl("EntryPointsLoader")

    def content(self, draw):
        return d_ids(draw, 0, 3)

    def save(self, loader, j, spec):
        loader.save(set(spec))

    def model_save(self, model, j, spec):
        cur = model.get("all", EMPTY)
        model["all"] = N.as_set((cur if cur != EMPTY else []) + list(spec)) or EMPTY   # save_entry_points accumulates

    def probe_views(self, j):
        return ["all"]

    def read(self, loader, view):
        return N.id_set(loader.get_entry_points())


class DefUseSummary(FileFamily):
    name, cls, ids = "method_def_use_summary", "MethodDefUseSummaryLoader", METHOD_IDS
    new = _fl("MethodDefUseSummaryLoader")

    def content(self, draw):
        return {"parameter_symbol_ids": d_ids(draw, 0, 2), "local_symbol_ids": d_ids(draw, 0, 3),
                "defined_external_symbol_ids": d_ids(draw, 0, 2), "used_external_symbol_ids": d_ids(draw, 0, 2),
                "return_symbol_ids": d_ids(draw, 0, 2), "this_symbol_id": d_pick(draw, [-1, -121])}

    def build(self, spec, idobj):
        cs = N._lian()[0]
        return cs.MethodDefUseSummary(idobj, set(spec["parameter_symbol_ids"]), set(spec["local_symbol_ids"]),
                                      set(spec["defined_external_symbol_ids"]), set(spec["used_external_symbol_ids"]),
                                      set(spec["return_symbol_ids"]), spec["this_symbol_id"])

    def norm(self, obj, idobj=None):
        return N.def_use_summary(obj)

    def read(self, loader, view):
        j = int(view.split(":")[1])
        if self.mkid(j) not in loader.method_summary_records:
            return EMPTY       # get_copy() of an unknown method returns a default summary
        return N.def_use_summary(loader.get_copy(self.mkid(j)))


class SummaryTemplate(FileFamily):
    name, cls, ids = "method_summary_template", "MethodSummaryLoader", METHOD_IDS[:3] + [161]
    new = _fl("MethodSummaryLoader")

    def content(self, draw):
        def dd(dr):
            return {str(d_pick(dr, [125, 130, -121, -28])): d_ids(dr, 1, 2, base=0, span=8) for _ in range(d_int(dr, 0, 2))}
        return {"parameter_symbols": dd(draw), "defined_external_symbols": dd(draw), "used_external_symbols": dd(draw),
                "return_symbols": dd(draw), "key_dynamic_content": dd(draw), "this_symbols": dd(draw),
                "dynamic_call_stmts": d_ids(draw, 0, 2),
                "external_symbol_to_state": {str(d_pick(draw, [-121, -124])): d_int(draw, 0, 8) for _ in range(d_int(draw, 0, 1))},
                # compact-space renumbering and default values of parameters, for some of the indexes 0..8 used above
                "raw_to_new_index": {str(d_int(draw, 0, 8)): d_int(draw, 20, 28) for _ in range(d_int(draw, 0, 2))},
                "index_to_default_value": {str(d_int(draw, 0, 8)): d_int(draw, 120, 125) for _ in range(d_int(draw, 0, 1))}}

    def build(self, spec, idobj):
        cs = N._lian()[0]
        dd = lambda d: {int(k): set(v) for k, v in d.items()}
        return cs.MethodSummaryTemplate(
            key=idobj, parameter_symbols=dd(spec["parameter_symbols"]),
            defined_external_symbols=dd(spec["defined_external_symbols"]),
            used_external_symbols=dd(spec["used_external_symbols"]), return_symbols=dd(spec["return_symbols"]),
            key_dynamic_content=dd(spec["key_dynamic_content"]), dynamic_call_stmts=set(spec["dynamic_call_stmts"]),
            this_symbols=dd(spec["this_symbols"]),
            external_symbol_to_state={int(k): v for k, v in spec["external_symbol_to_state"].items()},
            raw_to_new_index={int(k): v for k, v in spec.get("raw_to_new_index", {}).items()},
            index_to_default_value={int(k): v for k, v in spec.get("index_to_default_value", {}).items()})

    def norm(self, obj, idobj=None):
        return N.method_summary(obj)

    def read(self, loader, view):
        return N.method_summary(loader.get(self.mkid(int(view.split(":")[1]))))


class InternalCallees(FileFamily):
    name, cls, ids = "method_internal_callees", "MethodInternalCalleesLoader", METHOD_IDS
    new = _fl("MethodInternalCalleesLoader")

    def content(self, draw):
        return d_list(draw, lambda dr: [d_pick(dr, [0, 1, 2]), d_int(dr, 120, 132), d_pick(dr, [150, -122, 132]), d_int(dr, 0, 9)], 0, 3)

    def build(self, spec, idobj):
        cs = N._lian()[0]
        return {cs.MethodInternalCallee(idobj, *c) for c in spec}

    def norm(self, obj, idobj=None):
        return N.internal_callees(obj)

    def read(self, loader, view):
        return N.internal_callees(loader.get(self.mkid(int(view.split(":")[1]))))


class _Whole(FileFamily):
    whole = True

    def save(self, loader, j, spec):
        loader.save(self.build(spec, None))

    def model_save(self, model, j, spec):
        model["all"] = self.norm(self.build(spec, None))

    def probe_views(self, j):
        return ["all"]


class CallGraphF(_Whole):
    name, cls = "call_graph", "CallGraphLoader"
    new = _fl("CallGraphLoader")

    def content(self, draw):
        return d_list(draw, lambda dr: [d_pick(dr, [150, 161, 132]), d_pick(dr, [150, 123, 128, 132]), d_int(dr, 155, 160)], 0, 4)

    def build(self, spec, idobj):
        cs = N._lian()[0]
        g = cs.CallGraph()
        for a, b, w in spec:
            g.add_edge(a, b, w)
        return g

    def norm(self, obj, idobj=None):
        return N.call_graph(obj)

    def read(self, loader, view):
        return N.call_graph(loader.get())


class CallPaths(_Whole):
    name, cls = "call_paths", "CallPathLoader"
    new = _fl("CallPathLoader")

    def content(self, draw):
        return d_list(draw, lambda dr: d_list(dr, lambda q: d_pick(q, CALLSITES), 1, 3), 0, 3)

    def build(self, spec, idobj):
        cs = N._lian()[0]
        out = set()
        for p in spec:
            cp = cs.CallPath()
            for c in p:
                cp = cp.add_call(*c)
            out.add(cp)
        return out

    def norm(self, obj, idobj=None):
        return N.call_paths(obj)

    def read(self, loader, view):
        return N.call_paths(loader.get_all())


class GroupedMethods(_Whole):
    name, cls = "grouped_methods", "GroupedMethodsLoader"
    new = _fl("GroupedMethodsLoader")

    def content(self, draw):
        return [d_ids(draw, 0, 2) for _ in range(6)]

    def build(self, spec, idobj):
        cs = N._lian()[0]
        return cs.SimplyGroupedMethodTypes(*[set(x) for x in spec])

    def norm(self, obj, idobj=None):
        return N.grouped_methods(obj)

    def read(self, loader, view):
        return N.grouped_methods(loader.get())


class TypeGraphF(_Whole):
    name, cls = "type_graph", "TypeGraphLoader"
    new = _fl("TypeGraphLoader")

    def content(self, draw):
        out = []
        for _ in range(d_int(draw, 0, 3)):
            a, b = d_pick(draw, CLASS_IDS), d_pick(draw, CLASS_IDS + [-1])
            if a != b and not any(e[0] == a and e[1] == b for e in out):
                out.append([a, b, d_pick(draw, ["Base", "virtual_parent"]), d_pick(draw, ["A", "Child"]), d_int(draw, 0, 1)])
        return out

    def build(self, spec, idobj):
        cs = N._lian()[0]
        g = cs.BasicGraph()
        for a, b, pn, n, pos in spec:
            g.add_edge(a, b, cs.TypeGraphEdge(parent_name=pn, name=n, parent_pos=pos))
        return g

    def norm(self, obj, idobj=None):
        return N.type_graph(obj)

    def read(self, loader, view):
        return N.type_graph(loader.get())


class MethodsInClass(FileFamily):
    """methods declared by the class itself"""
    name, cls, ids = "class_methods", "ClassIDToMethodsLoader", CLASS_IDS
    new = _fl("ClassIDToMethodsLoader")
    hows = ["own"]

    def content(self, draw):
        return d_list(draw, lambda dr: [d_pick(dr, self.hows), d_pick(dr, NAMES), d_int(dr, 0, 4)], 0, 3)

    def _methods(self, j, spec):
        cs = N._lian()[0]
        out = []
        for how, name, k in spec:
            owner = self.mkid(j) if how == "own" else self.mkid((j + 1) % 4)
            m = [101, owner, name, 400 + 10 * (j if how == "own" else (j + 1) % 4) + k]
            if m not in out:
                out.append(m)
        return out

    def save(self, loader, j, spec):
        cs = N._lian()[0]
        loader.save(self.mkid(j), [cs.MethodInClass(*m) for m in self._methods(j, spec)])

    def model_save(self, model, j, spec):
        ms = self._methods(j, spec)
        model["item:%d" % j] = N.sorted_any(ms) or EMPTY

    def read(self, loader, view):
        return N.methods_in_class(loader.convert_one_to_many(self.mkid(int(view.split(":")[1]))))


class MethodsInClassInherited(MethodsInClass):
    """as type_hierarchy.py saves them: own methods plus the methods inherited from another class, whose
    MethodInClass.class_id is the class that declares them"""
    name, cls = "class_methods_inherited", "ClassIDToMethodsLoader[inherited]"
    hows = ["own", "own", "inherited"]

    def new(self, d, icap, bcap):
        cs, L, config, schema = _mods()
        return L.ClassIDToMethodsLoader(os.path.join(d, self.name))


class NameMap(FileFamily):
    """ClassIdToNameLoader / MethodIDToMethodNameLoader: save(name, id); id->name and name->ids"""
    name, cls, ids = "method_id_to_name", "MethodIDToMethodNameLoader", METHOD_IDS[:3] + [161]
    new = _fl("MethodIDToMethodNameLoader")

    def content(self, draw):
        return d_pick(draw, ["f", "g", "get"])

    def save(self, loader, j, spec):
        loader.save(spec, self.mkid(j))

    def model_save(self, model, j, spec):
        _id = N.scalar(self.mkid(j))
        old = model.get("item:%d" % j)
        if old not in (None, EMPTY, spec):
            cur = [x for x in model.get("name:" + old, []) if x != _id]      # the id was renamed
            model["name:" + old] = cur or EMPTY
        model["item:%d" % j] = spec
        cur = model.get("name:" + spec, EMPTY)
        model["name:" + spec] = N.as_set((cur if cur != EMPTY else []) + [_id])

    def probe_views(self, j):
        return ["item:%d" % j, "name:f", "name:g", "name:get"]

    def read(self, loader, view):
        kind, v = view.split(":")
        if kind == "item":
            r = loader.convert_many_to_one(self.mkid(int(v)))
            return EMPTY if r == -1 else N.scalar(r)
        return N.id_set(loader.convert_one_to_many(v))


class UniqueSymbolIDs(FileFamily):
    """UniqueSymbolIDAssignerLoader: the largest GIR id and the two counters derived from it survive export/restore"""
    name, cls, whole = "unique_symbol_ids", "UniqueSymbolIDAssignerLoader", True
    new = _fl("UniqueSymbolIDAssignerLoader")

    def content(self, draw):
        return {"max": d_int(draw, 100, 5000), "assign": d_int(draw, 0, 3)}

    def save(self, loader, j, spec):
        loader.save_max_gir_id(spec["max"])
        for _ in range(spec["assign"]):
            loader.assign_new_unique_positive_id()
            loader.assign_new_unique_negative_id()

    def model_save(self, model, j, spec):
        cs, L, config, schema = _mods()
        step = config.POSITIVE_GIR_INTERVAL
        model["max"] = spec["max"]
        model["pos"] = (spec["max"] + step + step - 1) // step * step + spec["assign"]
        model["neg"] = model.get("neg", config.BUILTIN_SYMBOL_START_ID) - spec["assign"]

    def probe_views(self, j):
        return ["max", "pos", "neg"]

    def read(self, loader, view):
        return N.scalar({"max": loader.max_gir_id, "pos": loader.positive_symbol_id, "neg": loader.negative_symbol_id}[view])

    def default(self, view):
        cs, L, config, schema = _mods()
        return {"max": config.DEFAULT_MAX_GIR_ID, "pos": config.DEFAULT_MAX_GIR_ID + config.POSITIVE_GIR_INTERVAL,
                "neg": config.BUILTIN_SYMBOL_START_ID}[view]


FAMILIES = [GIR(), ScopeHierarchy(), ExportSymbols(), ClassMembers(), SymbolNameToScopeIDs(), SymbolNameToDeclIDs(),
            ScopeToAvailableScopes(), ScopeToSymbolInfo(), CFG(), SymbolBitVec(), StateBitVec(), StmtStatusF(), Space(),
            ParamMapping(), DefinedSymbols(), DefinedSymbolsP3(), DefinedStates(), UsedSymbols(), SymbolGraphF(), SFG(),
            OneToMany(), StmtToScope(), UnitToStmtIDs(), CallFormat(), MethodDeclFormat(), ExternalSymbolIDs(), EntryPoints(),
            DefUseSummary(), SummaryTemplate(), InternalCallees(), CallGraphF(), CallPaths(), GroupedMethods(), TypeGraphF(),
            MethodsInClass(), MethodsInClassInherited(), NameMap(), UniqueSymbolIDs()]
BY_NAME = {f.name: f for f in FAMILIES}
