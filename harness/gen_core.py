"""Typed core language K, its reference interpreter, a Hypothesis generator and seven renderers (DESIGN.md 2.2).

K: int / bool / string values (strings are opaque: only passed, returned, output), locals with declaration,
+ - *, comparisons, && || ! on side-effect-free operands, if/else, while, counted for, break/continue, functions,
calls, return, records with named int fields, fixed-size int arrays with index read/write, out(e).
Integers stay small and loops below 5 iterations so that no rendering can overflow or diverge between languages.
"""
from hypothesis import strategies as st

INT, BOOL, STR, REC, ARR = "int", "bool", "str", "rec", "arr"
REC_FIELDS = ("p", "q")
ARR_LEN = 3


# ---------------------------------------------------------------------------------------------
# reference interpreter

class _Break(Exception):
    pass


class _Continue(Exception):
    pass


class _Return(Exception):
    def __init__(self, v):
        self.v = v


class KError(Exception):
    pass


def wrap(v):
    """keep integers in a range every target language represents identically"""
    if isinstance(v, bool):
        return v
    if isinstance(v, int) and abs(v) > 10 ** 8:
        raise KError("overflow")
    return v


def canon(v):
    if isinstance(v, bool):
        return ["bool", v]
    if isinstance(v, int):
        return v
    if isinstance(v, str):
        return ["str", v]
    if isinstance(v, dict):
        return ["rec"] + [[k, canon(x)] for k, x in sorted(v.items())]
    if isinstance(v, list):
        return ["arr"] + [canon(x) for x in v]
    return ["?"]


class KInterp:
    def __init__(self, prog, max_steps=20000):
        self.funcs = {f["name"]: f for f in prog["funcs"]}
        self.main = prog["main"]
        self.out = []
        self.steps = 0
        self.max_steps = max_steps
        self.stats = {"calls": 0, "branches": 0, "loops": 0, "access": 0}

    def run(self):
        env = {}
        try:
            self.block(self.main, env)
        except _Return:
            pass
        return self.out

    def block(self, stmts, env):
        for s in stmts:
            self.stmt(s, env)

    def stmt(self, s, env):
        self.steps += 1
        if self.steps > self.max_steps:
            raise KError("steps")
        k = s[0]
        if k in ("decl", "assign"):
            env[s[1]] = self.expr(s[-1], env)
        elif k == "newrec":
            env[s[1]] = {f: 0 for f in REC_FIELDS}
        elif k == "newarr":
            env[s[1]] = [0] * ARR_LEN
        elif k == "setf":
            self.stats["access"] += 1
            env[s[1]][s[2]] = self.expr(s[3], env)
        elif k == "seti":
            self.stats["access"] += 1
            env[s[1]][s[2]] = self.expr(s[3], env)
        elif k == "if":
            self.stats["branches"] += 1
            if self.expr(s[1], env):
                self.block(s[2], env)
            else:
                self.block(s[3], env)
        elif k == "while":
            while self.expr(s[1], env):
                self.stats["loops"] += 1
                try:
                    self.block(s[2], env)
                except _Break:
                    break
                except _Continue:
                    continue
        elif k == "for":
            # for (i = 0; i < n; i = i + 1)
            i = 0
            n = s[2]
            env[s[1]] = 0
            while env[s[1]] < n:
                self.stats["loops"] += 1
                try:
                    self.block(s[3], env)
                except _Break:
                    break
                except _Continue:
                    pass
                env[s[1]] = env[s[1]] + 1
        elif k == "break":
            raise _Break()
        elif k == "continue":
            raise _Continue()
        elif k == "return":
            raise _Return(self.expr(s[1], env))
        elif k == "out":
            self.out.append(canon(self.expr(s[1], env)))
        elif k == "expr":
            self.expr(s[1], env)
        else:
            raise AssertionError(k)

    def expr(self, e, env):
        k = e[0]
        if k == "int":
            return e[1]
        if k == "bool":
            return e[1]
        if k == "str":
            return e[1]
        if k == "var":
            return env[e[1]]
        if k == "bin":
            a, b = self.expr(e[2], env), self.expr(e[3], env)
            return wrap({"+": a + b, "-": a - b, "*": a * b}[e[1]])
        if k == "cmp":
            a, b = self.expr(e[2], env), self.expr(e[3], env)
            return {"<": a < b, "<=": a <= b, ">": a > b, ">=": a >= b, "==": a == b, "!=": a != b}[e[1]]
        if k == "and":
            return self.expr(e[1], env) and self.expr(e[2], env)
        if k == "or":
            return self.expr(e[1], env) or self.expr(e[2], env)
        if k == "not":
            return not self.expr(e[1], env)
        if k == "getf":
            self.stats["access"] += 1
            return env[e[1]][e[2]]
        if k == "geti":
            self.stats["access"] += 1
            return env[e[1]][e[2]]
        if k == "call":
            self.stats["calls"] += 1
            f = self.funcs[e[1]]
            args = [self.expr(a, env) for a in e[2]]
            new = {p: a for (p, _), a in zip(f["params"], args)}
            if len(self.stats) and self.stats["calls"] > 400:
                raise KError("calls")
            try:
                self.block(f["body"], new)
            except _Return as r:
                return r.v
            raise KError("function %s fell off its end" % e[1])
        raise AssertionError(k)


# ---------------------------------------------------------------------------------------------
# generator

class G:
    def __init__(self, draw, features):
        self.draw = draw
        self.n = 0
        self.funcs = []
        self.features = features
        self.labels = set()

    def fresh(self, p):
        self.n += 1
        return "%s%d" % (p, self.n)

    def pick(self, seq):
        return seq[self.draw(st.integers(0, len(seq) - 1))]

    def coin(self, a=1, b=2):
        return self.draw(st.integers(0, b - 1)) < a


def g_expr(g, env, t, depth=0, pure=False):
    vars_ = [n for n, ty in env.items() if ty == t]
    leaf = depth >= 2
    if t == INT:
        r = g.draw(st.integers(0, 9))
        if leaf or r <= 1:
            if vars_ and g.coin(2, 3):
                return ("var", g.pick(vars_))
            return ("int", g.draw(st.integers(0, 9)))
        if r <= 5:
            g.labels.add("arith")
            return ("bin", g.pick(["+", "-", "*", "+"]), g_expr(g, env, INT, depth + 1, pure), g_expr(g, env, INT, depth + 1, pure))
        if r in (6, 9) and not pure:
            fs = [f for f in g.funcs if f["ret"] == INT]
            if fs:
                f = g.pick(fs)
                g.labels.add("call")
                return ("call", f["name"], [g_expr(g, env, pt, depth + 1, pure) for _, pt in f["params"]])
        if r == 7 and "rec" in g.features:
            recs = [n for n, ty in env.items() if ty == REC]
            if recs:
                g.labels.add("field_read")
                return ("getf", g.pick(recs), g.pick(REC_FIELDS))
        if r == 8 and "arr" in g.features:
            arrs = [n for n, ty in env.items() if ty == ARR]
            if arrs:
                g.labels.add("array_read")
                return ("geti", g.pick(arrs), g.draw(st.integers(0, ARR_LEN - 1)))
        if vars_:
            return ("var", g.pick(vars_))
        return ("int", g.draw(st.integers(0, 9)))
    if t == BOOL:
        r = g.draw(st.integers(0, 7))
        if leaf or r <= 3:
            if vars_ and g.coin(1, 3):
                return ("var", g.pick(vars_))
            g.labels.add("comparison")
            return ("cmp", g.pick(["<", "<=", ">", ">=", "==", "!="]), g_expr(g, env, INT, 2, True), g_expr(g, env, INT, 2, True))
        if r == 4:
            g.labels.add("not")
            return ("not", g_expr(g, env, BOOL, depth + 1, True))
        if r <= 6:
            g.labels.add("logical")
            return (g.pick(["and", "or"]), g_expr(g, env, BOOL, depth + 1, True), g_expr(g, env, BOOL, depth + 1, True))
        return ("bool", g.coin())
    if t == STR:
        if vars_ and g.coin():
            return ("var", g.pick(vars_))
        return ("str", g.pick(["", "a", "bc", "k9"]))
    raise AssertionError(t)


def g_block(g, env, n, in_loop, ret, depth):
    out = []
    for _ in range(n):
        out += g_stmt(g, env, in_loop, ret, depth)
    return out


def g_stmt(g, env, in_loop, ret, depth):
    r = g.draw(st.integers(0, 19))
    if r <= 4:
        t = g.pick([INT, INT, INT, BOOL, STR])
        existing = [n for n, ty in env.items() if ty == t and not n.startswith(("w", "i"))]
        if existing and g.coin():
            return [("assign", g.pick(existing), g_expr(g, env, t))]
        name = g.fresh("v")
        e = g_expr(g, env, t)
        env[name] = t
        return [("decl", name, t, e)]
    if r <= 6:
        g.labels.add("out")
        return [("out", g_expr(g, env, g.pick([INT, INT, BOOL, STR])))]
    if r <= 9 and depth < 2:
        g.labels.add("if")
        c = g_expr(g, env, BOOL)
        a = g_block(g, dict(env), g.draw(st.integers(1, 2)), in_loop, ret, depth + 1)
        b = g_block(g, dict(env), g.draw(st.integers(1, 2)), in_loop, ret, depth + 1) if g.coin() else []
        if b:
            g.labels.add("else")
        return [("if", c, a, b)]
    if r <= 11 and depth < 2:
        g.labels.add("while")
        w = g.fresh("w")
        bound = g.draw(st.integers(1, 3))
        cond = ("cmp", "<", ("var", w), ("int", bound))
        if g.coin(1, 3):
            cond = ("and", cond, g_expr(g, env, BOOL, 1, True))
        env[w] = INT
        body = [("assign", w, ("bin", "+", ("var", w), ("int", 1)))]
        body += g_block(g, dict(env), g.draw(st.integers(1, 2)), True, ret, depth + 1)
        return [("decl", w, INT, ("int", 0)), ("while", cond, body)]
    if r <= 13 and depth < 2:
        g.labels.add("for")
        i = g.fresh("i")
        e2 = dict(env)
        e2[i] = INT
        body = g_block(g, e2, g.draw(st.integers(1, 2)), True, ret, depth + 1)
        return [("for", i, g.draw(st.integers(1, 3)), body)]
    if r == 14 and in_loop:
        g.labels.add("break_continue")
        jump = (g.pick(["break", "continue", "continue"]),)
        if g.coin(1, 3):
            # the jump in the else arm, after a statement in the then arm
            g.labels.add("jump_in_else_arm")
            return [("if", g_expr(g, env, BOOL, 1, True), [("out", g_expr(g, env, INT, 1))], [jump])]
        return [("if", g_expr(g, env, BOOL, 1, True), [jump], [])]
    if r == 15 and ret is not None and depth > 0:
        g.labels.add("early_return")
        return [("if", g_expr(g, env, BOOL, 1, True), [("return", g_expr(g, env, ret, 1))], [])]
    if r == 16 and "rec" in g.features:
        recs = [n for n, ty in env.items() if ty == REC]
        if recs and g.coin(2, 3):
            g.labels.add("field_write")
            return [("setf", g.pick(recs), g.pick(REC_FIELDS), g_expr(g, env, INT, 1))]
        name = g.fresh("r")
        env[name] = REC
        g.labels.add("record")
        return [("newrec", name), ("setf", name, "p", g_expr(g, env, INT, 1))]
    if r == 17 and "arr" in g.features:
        arrs = [n for n, ty in env.items() if ty == ARR]
        if arrs and g.coin(2, 3):
            g.labels.add("array_write")
            return [("seti", g.pick(arrs), g.draw(st.integers(0, ARR_LEN - 1)), g_expr(g, env, INT, 1))]
        name = g.fresh("a")
        env[name] = ARR
        g.labels.add("array")
        return [("newarr", name), ("seti", name, 0, g_expr(g, env, INT, 1))]
    if r == 18:
        fs = [f for f in g.funcs]
        if fs:
            f = g.pick(fs)
            g.labels.add("call")
            name = g.fresh("v")
            args = [g_expr(g, env, pt, 1) for _, pt in f["params"]]
            env[name] = f["ret"]
            return [("decl", name, f["ret"], ("call", f["name"], args))]
    return [("out", g_expr(g, env, INT))]


@st.composite
def programs(draw, features=("rec", "arr")):
    g = G(draw, set(features))
    for i in range(draw(st.integers(1, 3))):
        name = "f%d" % i
        params = [("p%d" % j, g.pick([INT, INT, BOOL, STR])) for j in range(draw(st.integers(0, 3)))]
        ret = g.pick([INT, INT, BOOL, STR])
        env = dict(params)
        body = []
        ints = [p for p, t in params if t == INT]
        if ints and g.coin(2, 3):
            body.append(("out", ("var", ints[0])))
        body += g_block(g, env, draw(st.integers(1, 4)), False, ret, 0)
        body.append(("return", g_expr(g, env, ret, 1)))
        g.funcs.append({"name": name, "params": params, "ret": ret, "body": body})
    env = {}
    main = g_block(g, env, draw(st.integers(1, 4)), False, None, 0)
    for f in g.funcs:
        main.append(("out", ("call", f["name"], [g_expr(g, env, pt, 1) for _, pt in f["params"]])))
    return {"funcs": g.funcs, "main": main, "labels": sorted(g.labels)}


# ---------------------------------------------------------------------------------------------
# renderers

TYPE_NAMES = {
    "java": {INT: "int", BOOL: "boolean", STR: "String", REC: "R", ARR: "int[]"},
    "c": {INT: "int", BOOL: "int", STR: "char*", REC: "struct R", ARR: "int"},
    "go": {INT: "int", BOOL: "bool", STR: "string", REC: "R", ARR: "[3]int"},
    "typescript": {INT: "number", BOOL: "boolean", STR: "string", REC: "R", ARR: "number[]"},
}


class Rd:
    def __init__(self, lang):
        self.lang = lang
        self.v = "$" if lang == "php" else ""
        self.semi = "" if lang in ("python", "go") else ";"
        self.py = lang == "python"

    # expressions -------------------------------------------------------------------------
    def e(self, x):
        k = x[0]
        if k == "int":
            return str(x[1])
        if k == "bool":
            if self.py:
                return "True" if x[1] else "False"
            if self.lang == "c":
                return "1" if x[1] else "0"
            return "true" if x[1] else "false"
        if k == "str":
            return '"%s"' % x[1]
        if k == "var":
            return self.v + x[1]
        if k == "bin":
            # precedence-aware: parentheses only where the tree needs them (2 * 3 + 4, 10 - 2 * 3, (1 + 2) * 3)
            prec = {"+": 1, "-": 1, "*": 2}
            def sub(e, right):
                t = self.e(e)
                if e[0] == "bin":
                    inner = t[1:-1] if t.startswith("(") and t.endswith(")") and self._balanced(t[1:-1]) else t
                    if prec[e[1]] > prec[x[1]] or (prec[e[1]] == prec[x[1]] and not right):
                        return inner
                    return "(" + inner + ")"
                return t
            return "(%s %s %s)" % (sub(x[2], False), x[1], sub(x[3], True))
        if k == "cmp":
            return "(%s %s %s)" % (self.e(x[2]), x[1], self.e(x[3]))
        if k == "and":
            return "(%s %s %s)" % (self.e(x[1]), "and" if self.py else "&&", self.e(x[2]))
        if k == "or":
            return "(%s %s %s)" % (self.e(x[1]), "or" if self.py else "||", self.e(x[2]))
        if k == "not":
            return "(%s%s)" % ("not " if self.py else "!", self.e(x[1]))
        if k == "getf":
            return "%s%s%s%s" % (self.v, x[1], "->" if self.lang == "php" else ".", x[2])
        if k == "geti":
            return "%s%s[%d]" % (self.v, x[1], x[2])
        if k == "call":
            return "%s(%s)" % (x[1], ", ".join(self.e(a) for a in x[2]))
        raise AssertionError(k)

    @staticmethod
    def _balanced(t):
        d = 0
        for ch in t:
            if ch == "(":
                d += 1
            elif ch == ")":
                d -= 1
                if d < 0:
                    return False
        return d == 0

    # statements --------------------------------------------------------------------------
    def block(self, stmts, level):
        out = []
        for s in stmts:
            out += self.s(s, level)
        if not out and self.py:
            out.append("    " * level + "pass")
        return out

    def decl(self, name, t, init):
        L = self.lang
        if L == "python" or L == "php":
            return "%s%s = %s" % (self.v, name, init)
        if L == "javascript":
            return "let %s = %s" % (name, init)
        if L == "typescript":
            return "let %s: %s = %s" % (name, TYPE_NAMES[L][t], init)
        if L == "java":
            return "%s %s = %s" % (TYPE_NAMES[L][t], name, init)
        if L == "c":
            return "%s %s = %s" % (TYPE_NAMES[L][t], name, init)
        if L == "go":
            return "var %s %s = %s" % (name, TYPE_NAMES[L][t], init)
        raise AssertionError(L)

    def s(self, x, level):
        ind = "    " * level
        k = x[0]
        L = self.lang
        if k == "decl":
            return [ind + self.decl(x[1], x[2], self.e(x[3])) + self.semi]
        if k == "assign":
            return ["%s%s%s = %s%s" % (ind, self.v, x[1], self.e(x[2]), self.semi)]
        if k == "newrec":
            n = x[1]
            if L == "python":
                return [ind + "%s = R()" % n]
            if L == "php":
                return [ind + "$%s = new R();" % n]
            if L == "javascript":
                return [ind + "let %s = new R();" % n]
            if L == "typescript":
                return [ind + "let %s: R = new R();" % n]
            if L == "java":
                return [ind + "R %s = new R();" % n]
            if L == "c":
                return [ind + "struct R %s;" % n, ind + "%s.p = 0;" % n, ind + "%s.q = 0;" % n]
            if L == "go":
                return [ind + "var %s R = R{}" % n, ind + "%s.p = 0" % n, ind + "%s.q = 0" % n]
        if k == "newarr":
            n = x[1]
            if L == "python":
                return [ind + "%s = [0, 0, 0]" % n]
            if L == "php":
                return [ind + "$%s = array(0, 0, 0);" % n]
            if L == "javascript":
                return [ind + "let %s = [0, 0, 0];" % n]
            if L == "typescript":
                return [ind + "let %s: number[] = [0, 0, 0];" % n]
            if L == "java":
                return [ind + "int[] %s = new int[]{0, 0, 0};" % n]
            if L == "c":
                return [ind + "int %s[3] = {0, 0, 0};" % n]
            if L == "go":
                return [ind + "var %s [3]int = [3]int{0, 0, 0}" % n]
        if k == "setf":
            return ["%s%s%s%s%s = %s%s" % (ind, self.v, x[1], "->" if L == "php" else ".", x[2], self.e(x[3]), self.semi)]
        if k == "seti":
            return ["%s%s%s[%d] = %s%s" % (ind, self.v, x[1], x[2], self.e(x[3]), self.semi)]
        if k == "if":
            c = self.e(x[1])
            if self.py:
                out = [ind + "if %s:" % c] + self.block(x[2], level + 1)
                if x[3]:
                    out += [ind + "else:"] + self.block(x[3], level + 1)
                return out
            out = [ind + ("if %s {" % c if L == "go" else "if (%s) {" % c)] + self.block(x[2], level + 1)
            if x[3]:
                out += [ind + "} else {"] + self.block(x[3], level + 1)
            return out + [ind + "}"]
        if k == "while":
            c = self.e(x[1])
            if self.py:
                return [ind + "while %s:" % c] + self.block(x[2], level + 1)
            head = "for %s {" % c if L == "go" else "while (%s) {" % c
            return [ind + head] + self.block(x[2], level + 1) + [ind + "}"]
        if k == "for":
            i, n = x[1], x[2]
            if self.py:
                # counted for == while with the update at the end of the body and before continue:
                # Python has no C-style for; use range()
                return [ind + "for %s in range(%d):" % (i, n)] + self.block(x[3], level + 1)
            if L == "php":
                head = "for ($%s = 0; $%s < %d; $%s = $%s + 1) {" % (i, i, n, i, i)
            elif L == "go":
                head = "for %s := 0; %s < %d; %s = %s + 1 {" % (i, i, n, i, i)
            elif L in ("javascript", "typescript"):
                head = "for (let %s = 0; %s < %d; %s = %s + 1) {" % (i, i, n, i, i)
            else:
                head = "for (int %s = 0; %s < %d; %s = %s + 1) {" % (i, i, n, i, i)
            return [ind + head] + self.block(x[3], level + 1) + [ind + "}"]
        if k == "break":
            return [ind + "break" + self.semi]
        if k == "continue":
            return [ind + "continue" + self.semi]
        if k == "return":
            return [ind + "return %s%s" % (self.e(x[1]), self.semi)]
        if k == "out":
            if L == "c":
                # 'out(f(a * b));' is a declaration for the C grammar; an assignment is unambiguous
                return [ind + "o = out(%s);" % self.e(x[1])]
            return [ind + "out(%s)%s" % (self.e(x[1]), self.semi)]
        if k == "expr":
            return [ind + self.e(x[1]) + self.semi]
        raise AssertionError(k)


def uses(prog, what):
    import json
    return ('"%s"' % what) in json.dumps(prog)


def render(lang, prog):
    r = Rd(lang)
    out = []
    need_rec = uses(prog, "newrec")
    L = lang
    if L == "python":
        if need_rec:
            out += ["class R:", "    def __init__(self):", "        self.p = 0", "        self.q = 0"]
        for f in prog["funcs"]:
            out.append("def %s(%s):" % (f["name"], ", ".join(p for p, _ in f["params"])))
            out += r.block(f["body"], 1)
        out += r.block(prog["main"], 0)
    elif L == "php":
        out.append("<?php")
        if need_rec:
            out += ["class R {", "    public $p = 0;", "    public $q = 0;", "}"]
        for f in prog["funcs"]:
            out.append("function %s(%s) {" % (f["name"], ", ".join("$" + p for p, _ in f["params"])))
            out += r.block(f["body"], 1) + ["}"]
        out += r.block(prog["main"], 0)
    elif L in ("javascript", "typescript"):
        ty = L == "typescript"
        if need_rec:
            if ty:
                out += ["class R {", "    p: number = 0;", "    q: number = 0;", "}"]
            else:
                out += ["class R {", "    constructor() {", "        this.p = 0;", "        this.q = 0;", "    }", "}"]
        for f in prog["funcs"]:
            if ty:
                ps = ", ".join("%s: %s" % (p, TYPE_NAMES[L][t]) for p, t in f["params"])
                out.append("function %s(%s): %s {" % (f["name"], ps, TYPE_NAMES[L][f["ret"]]))
            else:
                out.append("function %s(%s) {" % (f["name"], ", ".join(p for p, _ in f["params"])))
            out += r.block(f["body"], 1) + ["}"]
        out += r.block(prog["main"], 0)
    elif L == "java":
        if need_rec:
            out += ["class R {", "    int p = 0;", "    int q = 0;", "}"]
        out.append("class Main {")
        for f in prog["funcs"]:
            ps = ", ".join("%s %s" % (TYPE_NAMES[L][t], p) for p, t in f["params"])
            out.append("    static %s %s(%s) {" % (TYPE_NAMES[L][f["ret"]], f["name"], ps))
            out += r.block(f["body"], 2) + ["    }"]
        out.append("    public static void main(String[] args) {")
        out += r.block(prog["main"], 2) + ["    }", "}"]
    elif L == "c":
        out.append("int o;")
        if need_rec:
            out += ["struct R {", "    int p;", "    int q;", "};"]
        for f in prog["funcs"]:
            ps = ", ".join("%s %s" % (TYPE_NAMES[L][t], p) for p, t in f["params"])
            out.append("%s %s(%s) {" % (TYPE_NAMES[L][f["ret"]], f["name"], ps))
            out += r.block(f["body"], 1) + ["}"]
        out.append("int main() {")
        out += r.block(prog["main"], 1) + ["    return 0;", "}"]
    elif L == "go":
        out.append("package main")
        if need_rec:
            out += ["type R struct {", "    p int", "    q int", "}"]
        for f in prog["funcs"]:
            ps = ", ".join("%s %s" % (p, TYPE_NAMES[L][t]) for p, t in f["params"])
            out.append("func %s(%s) %s {" % (f["name"], ps, TYPE_NAMES[L][f["ret"]]))
            out += r.block(f["body"], 1) + ["}"]
        out.append("func main() {")
        out += r.block(prog["main"], 1) + ["}"]
    else:
        raise ValueError(lang)
    return "\n".join(out) + "\n"


LANGS = ["python", "javascript", "typescript", "java", "go", "c", "php"]
MAIN_LANGS = ("java", "go", "c")
