"""Shared generator / oracles of C10 and C11 (taint flows).

Parts
  1. rule helpers                  (spellings of source / sink rules, shipped propagation rules)
  2. ground truth runtime          (CPython execution with identity-tracking `Taint` objects; rule driven)
  3. project renderer              (chain spec -> 1-3 python files, one simple statement per line)
  4. Hypothesis strategies         (chain specs)
  5. lian driver                   (settings dir, in-process run, flows as (file, line, file, line))
  6. reference rule matcher + coarse dependence graph on the python AST   (C11)

Nothing here asserts; everything returns data.  No wall clock, no own RNG.
"""
import ast
import builtins
import os
import sys
import types

# =============================================================================================
# 1. rules

ARG = {"arg0": "\\%arg0", "arg1": "\\%arg1", "arg2": "\\%arg2", "arg3": "\\%arg3", "arg4": "\\%arg4",
       "receiver": "\\%receiver", "target": "\\%target"}
ARG_INV = {v: k for k, v in ARG.items()}
# a target spelling that designates no operand of a generated sink (lian knows %arg0..%arg4, %receiver, %target)
ARG["arg5"] = "\\%arg5"
ARG_INV[ARG["arg5"]] = "arg5"

SOURCE_KINDS = ["call", "method", "param", "field"]
SINK_KINDS = ["call", "method", "fieldw", "recordw"]

# operation spellings as in the shipped default_settings/{source,sink}.yaml
SRC_OP = {"call": "call_stmt", "method": "object_call", "param": "parameter_decl", "field": "field_read"}
SNK_OP = {"call": "call_stmt", "method": "object_call", "fieldw": "field_write", "recordw": "record_write"}
OP_KIND_SRC = {"call_stmt": "call", "object_call": "method", "object_call_stmt": "method",
               "parameter_decl": "param", "field_read": "field"}
OP_KIND_SNK = {"call_stmt": "call", "object_call": "method", "object_call_stmt": "method",
               "field_write": "fieldw", "record_write": "recordw"}

_PROP_CACHE = {}


def shipped_propagation(repo):
    """The python section(s) of the shipped default_settings/propagation.yaml, as python objects."""
    if repo in _PROP_CACHE:
        return _PROP_CACHE[repo]
    import yaml
    path = os.path.join(repo, "default_settings", "propagation.yaml")
    out = []
    try:
        with open(path) as f:
            data = yaml.safe_load(f) or []
        for group in data:
            if group.get("lang") == "python":
                out.append(group)
    except Exception:
        out = []
    if not out:
        out = [{"lang": "python", "rules": [{"operation": "assign_stmt", "src": "operand1", "dst": [["\\%target"]]}]}]
    _PROP_CACHE[repo] = out
    return out


def rule_targets(rule):
    t = rule.get("target")
    if t is None:
        return []
    if isinstance(t, list):
        return [ARG_INV.get(x, x) for x in t]
    return [ARG_INV.get(t, t)]


# =============================================================================================
# 2. ground truth runtime

class Taint(object):
    """A value produced at a source.  ids = frozenset of source sites (file, line)."""
    __slots__ = ("ids", "_rt")

    def __init__(self, ids, rt=None):
        object.__setattr__(self, "ids", frozenset(ids))
        object.__setattr__(self, "_rt", rt)

    def _bin(self, other):
        ids = self.ids
        if isinstance(other, Taint):
            ids = ids | other.ids
        return Taint(ids, self._rt)

    __add__ = __radd__ = __sub__ = __rsub__ = __mul__ = __rmul__ = _bin
    __iadd__ = __isub__ = __imul__ = _bin
    __or__ = __ror__ = __and__ = __rand__ = __xor__ = __rxor__ = _bin
    __mod__ = __rmod__ = __floordiv__ = __rfloordiv__ = __truediv__ = __rtruediv__ = _bin

    def __neg__(self):
        return Taint(self.ids, self._rt)

    def __bool__(self):
        return True

    def __repr__(self):
        return "Taint(%s)" % sorted(self.ids)

    def __getattr__(self, name):
        rt = object.__getattribute__(self, "_rt")
        if rt is not None and name in rt.sink_method_fields:
            return rt.make_receiver_sink(self, name)
        raise AttributeError(name)


class BudgetExceeded(Exception):
    pass


class _Ext(object):
    """An external object known to the rules by name (srcobj.get(), srcobj.secret, snkobj.send(x), snkobj.out = x)."""

    def __init__(self, rt, name):
        object.__setattr__(self, "_rt", rt)
        object.__setattr__(self, "_name", name)

    def __getattr__(self, field):
        rt = object.__getattribute__(self, "_rt")
        name = object.__getattribute__(self, "_name")
        full = name + "." + field
        if full in rt.field_sources:
            return rt.make_source(rt.field_sources[full], rt.caller_site(2))
        is_src = full in rt.method_sources
        sink_rules = rt.method_sinks.get(full)
        if is_src or sink_rules:
            def method(*args, **kwargs):
                site = rt.caller_site(2)
                if sink_rules:
                    rt.record_sink(site, sink_rules, args, None, None)
                if is_src:
                    return rt.make_source(rt.method_sources[full], site)
                return None
            return method

        def other(*args, **kwargs):
            return None
        return other

    def __setattr__(self, field, value):
        rt = object.__getattribute__(self, "_rt")
        name = object.__getattribute__(self, "_name")
        rules = rt.fieldw_sinks.get(name + "." + field)
        if rules:
            rt.record_sink(rt.caller_site(2), rules, (), None, value)
        object.__getattribute__(self, "__dict__")[field] = value


def held_ids(v, depth=0, seen=None):
    """Source sites of a sink operand: of the value itself, or of the values it holds (fields of a project-class instance,
    elements of a list / tuple / dict), to any depth - lian's sink check walks the states contained in the operand."""
    if isinstance(v, Taint):
        return v.ids
    if depth > 6:
        return frozenset()
    seen = seen if seen is not None else set()
    if id(v) in seen:
        return frozenset()
    inner = None
    if isinstance(v, dict):
        inner = list(v.values())
    elif isinstance(v, (list, tuple)):
        inner = list(v)
    elif type(v).__module__ not in ("builtins", __name__) and hasattr(v, "__dict__") and not isinstance(v, type) \
            and not callable(v):
        inner = list(vars(v).values())
    if not inner:
        return frozenset()
    seen.add(id(v))
    out = frozenset()
    for x in inner:
        out = out | held_ids(x, depth + 1, seen)
    return out


class Runtime(object):
    """Executes a project under CPython with sources / sinks instrumented from the rule set."""

    def __init__(self, files, source_rules, sink_rules, param_sites=None, main="a.py", budget=20000):
        self.files = dict(files)
        self.main = main
        self.budget = budget
        self.lines_run = 0
        self.param_sites = list(param_sites or [])      # index k -> (file, line) for mkval(k)
        self.hits = []                                  # (sink file, sink line, position, frozenset(source sites))
        self.sink_sites_run = set()                     # every executed sink statement (tainted or not)
        self.source_sites_run = set()
        self.modules = {}
        self.unsupported = []
        # rule tables
        self.call_sources = {}
        self.method_sources = {}
        self.field_sources = {}
        self.param_sources = {}
        self.call_sinks = {}
        self.method_sinks = {}
        self.fieldw_sinks = {}
        self.record_sinks = {}
        self.sink_method_fields = set()
        for r in source_rules:
            k = OP_KIND_SRC.get(r.get("operation"))
            n = r.get("name") or ""
            if k == "call":
                self.call_sources.setdefault(n, []).append(r)
            elif k == "method":
                self.method_sources.setdefault(n, []).append(r)
            elif k == "field":
                self.field_sources.setdefault(n, []).append(r)
            elif k == "param":
                self.param_sources.setdefault(n, []).append(r)
        for r in sink_rules:
            k = OP_KIND_SNK.get(r.get("operation"))
            n = r.get("name") or ""
            if k == "call":
                self.call_sinks.setdefault(n, []).append(r)
            elif k == "method":
                self.method_sinks.setdefault(n, []).append(r)
                self.sink_method_fields.add(n.rsplit(".", 1)[-1])
            elif k == "fieldw":
                self.fieldw_sinks.setdefault(n, []).append(r)
            elif k == "recordw":
                self.record_sinks.setdefault(r.get("key") or "", []).append(r)
        self._asts = {}
        self._record_lines = {}     # (file, line) -> [(rules, value expr source)]
        if self.record_sinks:
            self._index_record_writes()

    # -- helpers ------------------------------------------------------------------------------
    def caller_site(self, depth):
        f = sys._getframe(depth)
        return (os.path.basename(f.f_code.co_filename), f.f_lineno)

    def rule_applies(self, rule, site):
        """unit_name / line_num restrictions of a rule (the documented filters)."""
        if rule.get("unit_name") and rule["unit_name"] != site[0]:
            return False
        if rule.get("line_num") and int(rule["line_num"]) != site[1]:
            return False
        if rule.get("lang") and rule["lang"] != "python":
            return False
        return True

    def make_source(self, rules, site):
        """A Taint carrying the site if one of the rules applies there, else a clean value of the same class."""
        for r in rules:
            if self.rule_applies(r, site):
                self.source_sites_run.add(site)
                return Taint([site], self)
        return Taint([], self)

    def record_sink(self, site, rules, args, receiver, value):
        self.sink_sites_run.add(site)
        for r in rules:
            if not self.rule_applies(r, site):
                continue
            for t in rule_targets(r):
                v = None
                if t.startswith("arg") and t[3:].isdigit():
                    i = int(t[3:])
                    if i < len(args):
                        v = args[i]
                elif t == "receiver":
                    v = receiver
                elif t == "target":
                    v = value if value is not None else receiver
                ids = held_ids(v)
                if ids:
                    self.hits.append((site[0], site[1], t, ids))

    def make_receiver_sink(self, taint, field):
        rt = self

        def method(*args, **kwargs):
            site = rt.caller_site(2)
            rules = rt.rules_for_receiver_call(site, field)
            if rules:
                rt.record_sink(site, rules, args, taint, None)
            return None
        return method

    def _ast(self, fname):
        if fname not in self._asts:
            try:
                self._asts[fname] = ast.parse(self.files[fname])
            except Exception:
                self._asts[fname] = None
        return self._asts[fname]

    def rules_for_receiver_call(self, site, field):
        tree = self._ast(site[0])
        out = []
        if tree is None:
            return out
        for node in ast.walk(tree):
            if isinstance(node, ast.Call) and isinstance(node.func, ast.Attribute) and node.func.attr == field \
                    and node.lineno == site[1]:
                name = ast.unparse(node.func.value) + "." + field
                out.extend(self.method_sinks.get(name, []))
        return out

    def _index_record_writes(self):
        for fname in self.files:
            tree = self._ast(fname)
            if tree is None:
                continue
            for node in ast.walk(tree):
                if isinstance(node, ast.Dict):
                    for k, v in zip(node.keys, node.values):
                        if isinstance(k, ast.Constant) and isinstance(k.value, str):
                            key = '"%s"' % k.value
                            rules = self.record_sinks.get(key)
                            if rules and isinstance(v, ast.Name):
                                self._record_lines.setdefault((fname, node.lineno), []).append((rules, v.id))
                elif isinstance(node, ast.Assign) and len(node.targets) == 1 and isinstance(node.targets[0], ast.Subscript):
                    sl = node.targets[0].slice
                    if isinstance(sl, ast.Constant) and isinstance(sl.value, str) and isinstance(node.value, ast.Name):
                        rules = self.record_sinks.get('"%s"' % sl.value)
                        if rules:
                            self._record_lines.setdefault((fname, node.lineno), []).append((rules, node.value.id))

    # -- tracing ------------------------------------------------------------------------------
    def _tracer(self, frame, event, arg):
        co = frame.f_code
        fn = co.co_filename
        if not fn.startswith("<lianverif>/"):
            return None
        if event == "line":
            self.lines_run += 1
            if self.lines_run > self.budget:
                raise BudgetExceeded()
            if self._record_lines:
                key = (os.path.basename(fn), frame.f_lineno)
                ent = self._record_lines.get(key)
                if ent:
                    for rules, var in ent:
                        v = frame.f_locals.get(var, frame.f_globals.get(var))
                        self.sink_sites_run.add(key)
                        # whatever `target` says (the shipped spelling is `target: []`), the designated
                        # operand of a record write is the written value
                        if isinstance(v, Taint) and v.ids and any(self.rule_applies(r, key) for r in rules):
                            self.hits.append((key[0], key[1], "value", v.ids))
        return self._tracer

    # -- module system ------------------------------------------------------------------------
    def _import(self, name, globals=None, locals=None, fromlist=(), level=0):
        fname = name + ".py"
        if level == 0 and fname in self.files:
            return self._load(name)
        return self._real_import(name, globals, locals, fromlist, level)

    def _load(self, name):
        if name in self.modules:
            return self.modules[name]
        fname = name + ".py"
        mod = types.ModuleType(name)
        mod.__dict__["__builtins__"] = self.builtins
        mod.__dict__["__file__"] = "<lianverif>/" + fname
        self.modules[name] = mod
        code = compile(self.files[fname], "<lianverif>/" + fname, "exec")
        exec(code, mod.__dict__)
        return mod

    def _mkval(self, k):
        """Value passed to the parameter that source site k declares (k < 0: a clean value)."""
        if not (0 <= k < len(self.param_sites)):
            return Taint([], self)
        site = tuple(self.param_sites[k][:2])
        name = self.param_sites[k][2] if len(self.param_sites[k]) > 2 else None
        rules = self.param_sources.get(name, []) if name is not None else []
        return self.make_source(rules, site)

    def run(self):
        """-> dict(pairs=set of (src file, src line, sink file, sink line), error=None|str)."""
        rt = self
        b = dict(vars(builtins))
        self._real_import = builtins.__import__
        b["__import__"] = self._import
        b["mkval"] = self._mkval
        b["print"] = lambda *a, **k: None

        def mk_call_source(nm):
            rules = rt.call_sources[nm]

            def source(*a, **k):
                return rt.make_source(rules, rt.caller_site(2))
            return source

        def mk_call_sink(nm):
            rules = rt.call_sinks[nm]

            def sink(*args, **kwargs):
                rt.record_sink(rt.caller_site(2), rules, args, None, None)
                return None
            return sink
        for nm in self.call_sources:
            if nm.isidentifier():
                b[nm] = mk_call_source(nm)
            else:
                self.unsupported.append("call source name %r" % nm)
        for nm in self.call_sinks:
            if nm.isidentifier():
                if nm in self.call_sources:
                    self.unsupported.append("name %r is both a call source and a call sink" % nm)
                b[nm] = mk_call_sink(nm)
            else:
                self.unsupported.append("call sink name %r" % nm)
        ext_names = set()
        for full in list(self.method_sources) + list(self.field_sources) + list(self.method_sinks) + list(self.fieldw_sinks):
            recv = full.rsplit(".", 1)[0]
            if recv.isidentifier():
                ext_names.add(recv)
        for nm in sorted(ext_names):
            # a receiver that the program defines itself (a variable holding a Taint) is not injected:
            # the program's own binding shadows the builtin anyway
            b[nm] = _Ext(self, nm)
        self.builtins = b
        err = None
        old = sys.gettrace()
        sys.settrace(self._tracer)
        try:
            self._load(self.main[:-3])
        except BudgetExceeded:
            err = "budget"
        except RecursionError:
            err = "recursion"
        except Exception as e:      # the generated program raised: the case is discarded by the caller
            err = "%s: %s" % (type(e).__name__, e)
        finally:
            sys.settrace(old)
        pairs = set()
        for sf, sl, pos, ids in self.hits:
            for (f, l) in ids:
                pairs.add((f, l, sf, sl))
        return {"pairs": pairs, "error": err, "lines": self.lines_run, "sinks_run": set(self.sink_sites_run)}


def ground_truth(case):
    """case: dict(files, rules={source:[...], sink:[...]}, param_sites=[[file, line], ...]).  -> Runtime.run() result."""
    rt = Runtime(case["files"], case["rules"]["source"], case["rules"]["sink"],
                 param_sites=[tuple(x) for x in case.get("param_sites", [])], main=case.get("main", "a.py"))
    res = rt.run()
    res["unsupported"] = rt.unsupported
    return res


# =============================================================================================
# 3. renderer: chain spec -> project

FILE_NAMES = ["a.py", "b.py", "c.py"]
MOD_NAMES = ["a", "b", "c"]

INLINE_LINKS = ["assign", "binop_r", "binop_l", "binop_mul", "augassign", "field", "ctor_field", "method_field",
                "static_field", "list_lit", "list_store", "list_append", "dict_lit", "dict_store", "dict_get",
                "tuple_unpack", "tuple_assign", "if_then", "if_else", "ifexp", "for_body", "for_iter", "while_body",
                "try_body", "lambda", "call_id", "call_kw", "call_second", "merge_src", "tee"]
# links after which a nested holder (nest_obj2 / nest_dict2, always last) is generated
NEST_SAFE_LINKS = ["assign", "binop_r", "binop_l", "binop_mul", "augassign", "field", "list_lit", "list_store", "dict_lit",
                   "dict_store", "tuple_unpack", "tuple_assign", "ifexp", "if_then", "if_else"]
BLOCK_LINKS = ["in_if", "in_else", "in_for", "in_while", "in_try"]
DESCEND_LINKS = ["param", "param_kw", "closure", "method_param"]
ASCEND_LINKS = ["return", "global_write", "nonlocal", "out_field", "global_import"]
ALL_LINKS = INLINE_LINKS + BLOCK_LINKS + DESCEND_LINKS + ASCEND_LINKS
ENDINGS = ["sink", "drop", "kill", "wrongpos", "unrel_field", "unrel_obj", "unrel_var", "const_callee",
           "decoy_fieldw_prefix", "decoy_method_like_call", "far_arg_receiver"]
NEGATIVE_ENDINGS = [e for e in ENDINGS if e not in ("sink",)]


# Root-cause families of missed flows, written from the triage of the pairwise link sweep on the unchanged tree
# (see props/c10.py).  A family matches a label sequence if a label of `first` is followed, anywhere later, by a
# label of `then` ("*" = any value-carrying link).
FAMILIES = [
    ("loop-body-def", [{"first": {"for_body", "while_body"}, "then": "*"},
                       {"first": {"in_for", "in_while", "for_iter"},
                        "then": {"global_write", "out_field", "nonlocal", "return", "global_import"}}]),
    # a free variable (global / enclosing-function variable read in a callee) is only followed in the most direct
    # shape `s = srcobj.get()` ... `def rd(): sink(s)`; "ctx": any further necessary element puts the path here
    ("free-variable", [{"first": {"global_read", "closure"}, "then": "*", "ctx": True}]),
    ("try-body-def>loop", [{"first": {"try_body"}, "then": {"for_body", "while_body", "in_for", "in_while"}}]),
]


def _strip_label(label):
    return label.split("@", 1)[0]


def family_of(seq, ctx=()):
    seq = [_strip_label(x) for x in seq]
    for name, rules in FAMILIES:
        for r in rules:
            for i, a in enumerate(seq):
                if a not in r["first"]:
                    continue
                if any(r["then"] == "*" or b in r["then"] for b in seq[i + 1:]):
                    return name
                if r.get("ctx") and (ctx or len(seq) > 1):
                    return name
    return None


class Line(object):
    __slots__ = ("text", "tag", "ind")

    def __init__(self, text, ind=0, tag=None):
        self.text = text
        self.ind = ind
        self.tag = tag

    def render(self):
        return self.text


class CallRec(object):
    __slots__ = ("callee", "args", "target", "ind", "tag")

    def __init__(self, callee, args, ind=0, target=None):
        self.callee = callee          # expression text of the callee
        self.args = list(args)
        self.target = target
        self.ind = ind
        self.tag = None

    def render(self):
        call = "%s(%s)" % (self.callee, ", ".join(self.args))
        if self.target:
            return "%s = %s" % (self.target, call)
        return call


class Frame(object):
    def __init__(self, kind, file, name=None, params=(), parent=None):
        self.kind = kind              # module | func | nested | method | class
        self.file = file
        self.name = name
        self.params = list(params)
        self.parent = parent          # calling frame
        self.body = []
        self.decls = []
        self.ind = 0
        self.at_ind = 0               # indentation of a nested def inside its parent's body
        self.closers = []             # [(header Line, [closing Lines])]
        self.call_rec = None
        self.header_tag = None
        self.seg_start = 0
        self.exported = []
        self.holder = None            # body list that holds this frame's placeholder (nested frames)

    def header(self):
        if self.kind == "class":
            return "class %s:" % self.name
        return "def %s(%s):" % (self.name, ", ".join(self.params))

    def emit(self, text, tag=None, extra_ind=0):
        ln = Line(text, self.ind + extra_ind, tag)
        self.body.append(ln)
        return ln

    def close_blocks(self):
        while self.closers:
            header, closing = self.closers.pop()
            if self.body and self.body[-1] is header:
                self.body.append(Line("pass", header.ind + 4))
            self.body.extend(closing)
        self.ind = 0


def render_frame(fr, ind0):
    out = []
    if fr.kind != "module":
        out.append((" " * ind0 + fr.header(), fr.header_tag))
        base = ind0 + 4
    else:
        base = ind0
    n0 = len(out)
    for g in fr.decls:
        out.append((" " * base + g, None))
    for it in fr.body:
        if isinstance(it, Frame):
            out.extend(render_frame(it, base + it.at_ind))
        else:
            out.append((" " * (base + it.ind) + it.render(), it.tag))
    if len(out) == n0 and fr.kind != "module":
        out.append((" " * base + "pass", None))
    return out


class FileB(object):
    def __init__(self, idx):
        self.idx = idx
        self.name = FILE_NAMES[idx]
        self.mod = MOD_NAMES[idx]
        self.imports = []
        self.ginit = []
        self.frames = []              # file-level frames (classes, functions) in creation order
        self.module = Frame("module", idx, name="<module>")

    def add_import(self, text):
        if text not in self.imports:
            self.imports.append(text)

    def layout(self):
        out = [(t, None) for t in self.imports]
        out.extend((t, None) for t in self.ginit)
        for fr in self.frames:
            out.extend(render_frame(fr, 0))
        out.extend(render_frame(self.module, 0))
        if not out:
            out = [("pass", None)]
        return out


class Builder(object):
    def __init__(self, spec):
        self.spec = spec
        self.nfiles = max(1, min(3, int(spec.get("nfiles", 1))))
        self.files = [FileB(i) for i in range(self.nfiles)]
        self.uniq = bool(spec.get("uniq_names", False))
        self.avoid = set(spec.get("avoid", []))      # link labels / rule kinds stepped over (open findings)
        self.stepped = []
        self.sources = []
        self.sinks = []
        self.src_rules = []
        self.decoy_defs = set()
        self.snk_rules = []
        self.chains_meta = []
        self.param_sites = []
        self.c = 0
        self.nv = 0
        self.B = self.files[0].module

    # -- names --------------------------------------------------------------------------------
    def fld(self):
        return "f%d" % self.c

    def var(self, stem="v"):
        self.nv += 1
        return "%s%d_%d" % (stem, self.c, self.nv)

    def ref(self, cur_file, target_file, name, xf):
        """expression naming the file-level `name` of target_file from cur_file (adds the import)."""
        if cur_file == target_file:
            return name, ""
        if xf == "mod" and self._avoid_xf == "mod":
            self.stepped.append(self._avoid_label)
            xf = "from"
        if xf == "mod":
            self.files[cur_file].add_import("import %s" % MOD_NAMES[target_file])
            return "%s.%s" % (MOD_NAMES[target_file], name), "@mod"
        self.files[cur_file].add_import("from %s import %s" % (MOD_NAMES[target_file], name))
        return name, "@from"

    _avoid_xf = None
    _avoid_label = None

    def pick_file(self, cur_file, link):
        """target file of a cross-file construct; honours the avoid set for <kind>@from / <kind>@mod."""
        k = link.get("k") or link.get("kind") or ""
        self._avoid_xf = None
        tf = min(self.nfiles - 1, cur_file + int(link.get("df", 0) or 0))
        if tf != cur_file:
            if self.avoid_has(k + "@from") and (link.get("xf") != "mod" or self.avoid_has(k + "@mod")):
                self.stepped.append(k + "@from")
                return cur_file
            if self.avoid_has(k + "@mod"):
                self._avoid_xf = "mod"
                self._avoid_label = k + "@mod"
        return tf

    def avoid_has(self, label):
        if label in self.avoid:
            return True
        # "*@mod" style entries: any construct through a module attribute
        if "@" in label and ("*@" + label.split("@", 1)[1]) in self.avoid:
            return True
        return False

    # -- rules --------------------------------------------------------------------------------
    def add_src_rule(self, kind, name):
        r = {"operation": SRC_OP[kind], "name": name}
        if r not in self.src_rules:
            self.src_rules.append(r)

    def add_snk_rule(self, kind, name, pos, key=None):
        if kind == "recordw":
            r = {"operation": SNK_OP[kind], "key": key, "target": []}
        else:
            r = {"operation": SNK_OP[kind], "name": name, "target": [ARG[pos]]}
        if r not in self.snk_rules:
            self.snk_rules.append(r)

    # -- sources ------------------------------------------------------------------------------
    def source_expr(self, kind, sid, cur_file=0):
        sfx = str(sid) if self.uniq else ""
        if kind in ("decoy_call_suffix", "decoy_call_prefix"):
            # a function of the program whose name only ends / starts with the name of a call source rule: not a source
            name = "source" + sfx
            self.add_src_rule("call", name)
            dn = ("pre_" + name) if kind == "decoy_call_suffix" else (name + "_post")
            if dn not in self.decoy_defs:
                self.decoy_defs.add(dn)
                fr = Frame("func", cur_file, name=dn, params=[])
                fr.body.append(Line("return 0"))
                self.files[cur_file].frames.append(fr)
            self.sources[sid]["decoy"] = True
            return dn + "()"
        if kind == "call":
            name = "source" + sfx
            self.add_src_rule("call", name)
            return name + "()"
        if kind == "method":
            name = "srcobj.get" + sfx
            self.add_src_rule("method", name)
            return name + "()"
        name = "srcobj.secret" + sfx
        self.add_src_rule("field", name)
        return name

    def new_source(self, kind, at):
        sid = len(self.sources)
        self.sources.append({"id": sid, "kind": kind, "chain": self.c, "at": at})
        return sid

    # -- sinks --------------------------------------------------------------------------------
    def emit_sink(self, cur, v, snk, at, ending="sink", wrong=False):
        """Emit one sink statement whose designated operand is `v` (or, if wrong, carries v elsewhere)."""
        kind = snk.get("kind", "call")
        pos = snk.get("pos", "arg0")
        nargs = int(snk.get("nargs", 1))
        if self.avoid_has("snk:" + kind):
            self.stepped.append("snk:" + kind)
            kind = "call" if not self.avoid_has("snk:call") else "method"
        tid = len(self.sinks)
        sfx = str(tid) if self.uniq else ""
        if kind in ("call", "method") and pos == "receiver" and kind == "call":
            pos = "arg0"
        if kind == "fieldw":
            pos = "target"
        if kind == "recordw":
            pos = "value"
        if wrong and (kind in ("fieldw", "recordw") or pos == "receiver"):
            kind, pos = "call", "arg0"
        if pos == "receiver" and ending != "sink":
            # the operand of a negative ending need not be a Taint object at run time
            kind, pos = "call", "arg0"
        if kind in ("call", "method") and pos != "receiver":
            p = int(pos[3:])
            nargs = max(nargs, p + 1, 2 if wrong else 1)
            args = [str(i + 5) for i in range(nargs)]
            if wrong:
                q = (p + 1) % nargs
                args[q] = v
            else:
                args[p] = v
            possfx = "" if p == 0 else "_a%d" % p
            if kind == "call":
                name = "sink" + possfx + sfx
                text = "%s(%s)" % (name, ", ".join(args))
            else:
                name = "snkobj.send" + possfx + sfx
                text = "%s(%s)" % (name, ", ".join(args))
            self.add_snk_rule(kind, name, pos)
        elif kind == "method":      # receiver
            name = "%s.emit%s" % (v, sfx)
            text = "%s(%s)" % (name, ", ".join(str(i + 5) for i in range(max(0, nargs - 1))))
            self.add_snk_rule("method", name, "receiver")
        elif kind == "fieldw":
            name = "snkobj.out" + sfx
            text = "%s = %s" % (name, v)
            self.add_snk_rule("fieldw", name, "target")
        else:
            key = "data" + sfx
            d = self.var("d")
            text = '%s = {"%s": %s}' % (d, key, v)
            self.add_snk_rule("recordw", None, None, key='"%s"' % key)
        ln = cur.emit(text, tag=("snk", tid))
        self.sinks.append({"id": tid, "kind": kind, "pos": pos, "chain": self.c, "at": at, "ending": ending})
        return ln

    # -- frames -------------------------------------------------------------------------------
    def new_func(self, cur, file, params, kind="func"):
        name = self.var("f")
        fr = Frame(kind, file, name=name, params=params, parent=cur)
        self.files[file].frames.append(fr)
        return fr

    def new_class(self, file, stem="K"):
        name = self.var(stem)
        fr = Frame("class", file, name=name)
        self.files[file].frames.append(fr)
        return fr

    def call_into(self, cur, callee_expr, args, fr):
        rec = CallRec(callee_expr, args, ind=cur.ind)
        cur.body.append(rec)
        fr.call_rec = rec
        fr.parent = cur
        return rec

    def descend_plain(self, cur, link, kind="func", args=(), params=()):
        """A frame called from cur; kind func (file-level, possibly in another file), nested, method."""
        if kind == "nested" and cur.kind in ("module", "class"):
            kind = "func"
        if kind == "nested":
            fr = Frame("nested", cur.file, name=self.var("n"), params=params, parent=cur)
            fr.at_ind = cur.ind
            fr.holder = cur.body
            cur.body.append(fr)
            self.call_into(cur, fr.name, args, fr)
            return fr, ""
        if kind == "method":
            tf = self.pick_file(cur.file, link)
            cls = self.new_class(tf)
            fr = Frame("method", tf, name="m", params=["self"] + list(params), parent=cur)
            cls.body.append(fr)
            cexpr, lab = self.ref(cur.file, tf, cls.name, link.get("xf"))
            k = self.var("k")
            cur.emit("%s = %s()" % (k, cexpr))
            self.call_into(cur, "%s.m" % k, args, fr)
            return fr, lab
        tf = self.pick_file(cur.file, link)
        fr = self.new_func(cur, tf, params)
        fexpr, lab = self.ref(cur.file, tf, fr.name, link.get("xf"))
        self.call_into(cur, fexpr, args, fr)
        return fr, lab

    def wrap(self, cur):
        """cur is a module frame: move the statements this chain emitted there into a new function."""
        cur.close_blocks()
        fr = self.new_func(cur, cur.file, [])
        seg = cur.body[cur.seg_start:]
        del cur.body[cur.seg_start:]
        fr.body = seg
        for it in seg:
            if isinstance(it, Frame):
                it.holder = fr.body
        if cur.exported:
            fr.decls.append("global " + ", ".join(cur.exported))
        self.call_into(cur, fr.name, [], fr)
        return fr

    # -- links --------------------------------------------------------------------------------
    def helper(self, cur, link, params, ret):
        tf = self.pick_file(cur.file, link)
        fr = Frame("func", tf, name=self.var("h"), params=params)
        fr.body.append(Line("return " + ret))
        self.files[tf].frames.append(fr)
        return self.ref(cur.file, tf, fr.name, link.get("xf"))

    def apply_link(self, cur, v, link, at):
        """-> (cur', v', label or None)"""
        k = link["k"]
        E = cur.emit
        w = self.var()
        if self.avoid_has(k) or (k == "closure" and cur.kind == "module" and self.avoid_has("global_read")):
            self.stepped.append("global_read" if (k == "closure" and not self.avoid_has(k)) else k)
            link = dict(link)
            k = link["k"] = "param" if k in DESCEND_LINKS and not self.avoid_has("param") else \
                ("return" if k in ASCEND_LINKS and not self.avoid_has("return") else "assign")
        if k == "assign":
            E("%s = %s" % (w, v))
        elif k == "binop_r":
            E("%s = %s + 1" % (w, v))
        elif k == "binop_l":
            E("%s = 2 + %s" % (w, v))
        elif k == "binop_mul":
            E("%s = %s * 3" % (w, v))
        elif k == "augassign":
            E("%s = 0" % w)
            E("%s += %s" % (w, v))
        elif k == "field":
            cls = self.new_class(cur.file, "Bx")
            o = self.var("o")
            E("%s = %s()" % (o, cls.name))
            E("%s.%s = %s" % (o, self.fld(), v))
            E("%s = %s.%s" % (w, o, self.fld()))
        elif k == "nest_obj2":
            # the sink operand HOLDS the value two levels down (stored through an intermediate sub-object)
            cls = self.new_class(cur.file, "Bx")
            E("%s = %s()" % (w, cls.name))
            E("%s.a%d = %s()" % (w, self.c, cls.name))
            E("%s.a%d.%s = %s" % (w, self.c, self.fld(), v))
        elif k == "nest_dict2":
            E('%s = {"k": {}}' % w)
            E('%s["k"]["z"] = %s' % (w, v))
        elif k == "ctor_field":
            tf = self.pick_file(cur.file, link)
            cls = self.new_class(tf, "Ct")
            init = Frame("method", tf, name="__init__", params=["self", "x%d" % self.c])
            init.body.append(Line("self.%s = x%d" % (self.fld(), self.c)))
            cls.body.append(init)
            cexpr, lab = self.ref(cur.file, tf, cls.name, link.get("xf"))
            o = self.var("o")
            E("%s = %s(%s)" % (o, cexpr, v))
            E("%s = %s.%s" % (w, o, self.fld()))
            k = k + lab
        elif k == "method_field":
            cls = self.new_class(cur.file, "Ms")
            st = Frame("method", cur.file, name="put", params=["self", "x%d" % self.c])
            st.body.append(Line("self.%s = x%d" % (self.fld(), self.c)))
            gt = Frame("method", cur.file, name="take", params=["self"])
            gt.body.append(Line("return self.%s" % self.fld()))
            cls.body.extend([st, gt])
            o = self.var("o")
            E("%s = %s()" % (o, cls.name))
            E("%s.put(%s)" % (o, v))
            E("%s = %s.take()" % (w, o))
        elif k == "static_field":
            cls = self.new_class(cur.file, "Sf")
            E("%s.%s = %s" % (cls.name, self.fld(), v))
            E("%s = %s.%s" % (w, cls.name, self.fld()))
        elif k == "list_lit":
            l = self.var("l")
            E("%s = [%s]" % (l, v))
            E("%s = %s[0]" % (w, l))
        elif k == "list_store":
            l = self.var("l")
            E("%s = [0]" % l)
            E("%s[0] = %s" % (l, v))
            E("%s = %s[0]" % (w, l))
        elif k == "list_append":
            l = self.var("l")
            E("%s = []" % l)
            E("%s.append(%s)" % (l, v))
            E("%s = %s[0]" % (w, l))
        elif k == "dict_lit":
            d = self.var("d")
            E('%s = {"k": %s}' % (d, v))
            E('%s = %s["k"]' % (w, d))
        elif k == "dict_store":
            d = self.var("d")
            E("%s = {}" % d)
            E('%s["k"] = %s' % (d, v))
            E('%s = %s["k"]' % (w, d))
        elif k == "dict_get":
            d = self.var("d")
            E('%s = {"k": %s}' % (d, v))
            E('%s = %s.get("k")' % (w, d))
        elif k == "tuple_unpack":
            t, z = self.var("t"), self.var("z")
            E("%s = (%s, 0)" % (t, v))
            E("%s, %s = %s" % (w, z, t))
        elif k == "tuple_assign":
            z = self.var("z")
            E("%s, %s = %s, 0" % (w, z, v))
        elif k in ("if_then", "if_else"):
            c = self.var("c")
            E("%s = %s" % (c, "True" if k == "if_then" else "False"))
            E("if %s:" % c)
            E("%s = %s" % (w, v if k == "if_then" else "0"), extra_ind=4)
            E("else:")
            E("%s = %s" % (w, "0" if k == "if_then" else v), extra_ind=4)
        elif k == "ifexp":
            c = self.var("c")
            E("%s = True" % c)
            E("%s = %s if %s else 0" % (w, v, c))
        elif k == "for_body":
            E("for %s in [0]:" % self.var("i"))
            E("%s = %s" % (w, v), extra_ind=4)
        elif k == "for_iter":
            E("for %s in [%s]:" % (w, v))
            E("pass", extra_ind=4)
        elif k == "while_body":
            c = self.var("c")
            E("%s = True" % c)
            E("while %s:" % c)
            E("%s = %s" % (w, v), extra_ind=4)
            E("%s = False" % c, extra_ind=4)
        elif k == "try_body":
            E("try:")
            E("%s = %s" % (w, v), extra_ind=4)
            E("except Exception:")
            E("%s = 0" % w, extra_ind=4)
        elif k == "lambda":
            g = self.var("g")
            E("%s = lambda y%d: y%d" % (g, self.c, self.c))
            E("%s = %s(%s)" % (w, g, v))
        elif k in ("call_id", "call_kw"):
            pa = "a%d" % self.c
            fexpr, lab = self.helper(cur, link, [pa], pa)
            E("%s = %s(%s%s)" % (w, fexpr, (pa + "=") if k == "call_kw" else "", v))
            k = k + lab
        elif k == "call_second":
            fexpr, lab = self.helper(cur, link, ["a%d" % self.c, "b%d" % self.c], "b%d" % self.c)
            E("%s = %s(0, %s)" % (w, fexpr, v))
            k = k + lab
        elif k == "merge_src":
            skind = link.get("src", "method")
            if skind == "param" or self.avoid_has("src:" + skind):
                skind = "method" if not self.avoid_has("src:method") else "field"
            sid = self.new_source(skind, at)
            self.sources[sid]["secondary"] = True
            t = self.var("s")
            E("%s = %s" % (t, self.source_expr(skind, sid, cur.file)), tag=("src", sid))
            E("%s = %s + %s" % (w, v, t))
            k = "binop_merge"
        elif k == "tee":
            self.emit_sink(cur, v, link.get("snk", {}), at, ending="sink")
            return cur, v, None
        # ---- blocks that stay open --------------------------------------------------------------
        elif k in BLOCK_LINKS:
            if k in ("in_if", "in_else"):
                c = self.var("c")
                E("%s = %s" % (c, "True" if k == "in_if" else "False"))
                h = E("if %s:" % c)
                if k == "in_else":
                    E("pass", extra_ind=4)
                    h = E("else:")
                cur.closers.append((h, []))
            elif k == "in_for":
                h = E("for %s in [0]:" % self.var("i"))
                cur.closers.append((h, []))
            elif k == "in_while":
                c = self.var("c")
                E("%s = True" % c)
                E("while %s:" % c)
                h = E("%s = False" % c, extra_ind=4)
                cur.closers.append((h, []))
            else:
                h = E("try:")
                cur.closers.append((h, [Line("except Exception:", cur.ind), Line("pass", cur.ind + 4)]))
            cur.ind += 4
            E("%s = %s" % (w, v))
        # ---- descend -----------------------------------------------------------------------------
        elif k in ("param", "param_kw"):
            a = self.var("a")
            fr, lab = self.descend_plain(cur, link, "func", args=[("%s=%s" % (a, v)) if k == "param_kw" else v], params=[a])
            return fr, a, k + lab
        elif k == "method_param":
            a = self.var("a")
            fr, lab = self.descend_plain(cur, link, "method", args=[v], params=[a])
            return fr, a, k + lab
        elif k == "closure":
            if cur.kind == "module":
                fr, _ = self.descend_plain(cur, {"df": 0}, "func")
                if v not in cur.exported:
                    cur.exported.append(v)
                return fr, v, "global_read"
            fr, _ = self.descend_plain(cur, link, "nested")
            return fr, v, "closure"
        # ---- ascend ------------------------------------------------------------------------------
        elif k in ASCEND_LINKS:
            return self.ascend(cur, v, link, w)
        else:
            E("%s = %s" % (w, v))
            k = "assign"
        return cur, w, k

    def ascend(self, cur, v, link, w):
        k = link["k"]
        if k == "global_import" and cur.kind == "module" and cur.file != 0 and cur.parent is not None:
            lab = "global_import@mod" if link.get("xf") == "mod" else "global_import@from"
            if self.avoid_has(lab):
                self.stepped.append(lab)
                k = "return"
        if k == "global_write" and cur.kind != "module" and cur.parent is not None and cur.parent.file != cur.file \
                and self.avoid_has("global_write@mod"):
            self.stepped.append("global_write@mod")
            k = "return"
        if k == "global_import" and cur.kind == "module" and cur.file != 0 and cur.parent is not None:
            parent = cur.parent
            cur.close_blocks()
            if link.get("xf") == "mod":
                self.files[parent.file].add_import("import %s" % MOD_NAMES[cur.file])
                parent.emit("%s = %s.%s" % (w, MOD_NAMES[cur.file], v))
                return parent, w, "global_import@mod"
            self.files[parent.file].add_import("from %s import %s" % (MOD_NAMES[cur.file], v))
            return parent, v, "global_import@from"
        if k == "global_import":
            k = "return"
        if cur.kind == "module":
            cur = self.wrap(cur)
        parent, rec = cur.parent, cur.call_rec
        if k == "nonlocal" and not (cur.kind == "nested" and cur.holder is not None):
            k = "return"
        if k == "out_field" and rec is None:
            k = "return"
        if k == "return":
            cur.emit("return %s" % v)
            rec.target = w
            return parent, w, "return"
        if k == "global_write":
            g = self.var("G")
            self.files[cur.file].ginit.append("%s = 0" % g)
            cur.decls.append("global %s" % g)
            cur.emit("%s = %s" % (g, v))
            if parent.file == cur.file:
                parent.emit("%s = %s" % (w, g))
                return parent, w, "global_write"
            self.files[parent.file].add_import("import %s" % MOD_NAMES[cur.file])
            parent.emit("%s = %s.%s" % (w, MOD_NAMES[cur.file], g))
            return parent, w, "global_write@mod"
        if k == "nonlocal":
            x = self.var("x")
            idx = next(i for i, it in enumerate(cur.holder) if it is cur)
            cur.holder.insert(idx, Line("%s = 0" % x, cur.at_ind))
            cur.decls.append("nonlocal %s" % x)
            cur.emit("%s = %s" % (x, v))
            return parent, x, "nonlocal"
        # out_field
        cls = self.new_class(parent.file, "Bx")
        b, o = self.var("b"), self.var("o")
        idx = next(i for i, it in enumerate(parent.body) if it is rec)
        parent.body.insert(idx, Line("%s = %s()" % (b, cls.name), rec.ind))
        cur.params.append(o)
        rec.args.append(("%s=%s" % (o, b)) if any("=" in a for a in rec.args) else b)
        cur.emit("%s.%s = %s" % (o, self.fld(), v))
        parent.emit("%s = %s.%s" % (w, b, self.fld()))
        return parent, w, "out_field"

    # -- chains -------------------------------------------------------------------------------
    def plan_links(self, links):
        """Step over the avoided root-cause families: the construct that would complete one is replaced by an
        assignment (kind level: closure stands for closure / global_read)."""
        links = [dict(l) for l in links]
        val = [i for i, l in enumerate(links) if l["k"] != "tee"]
        for name, rules in FAMILIES:
            if name not in self.avoid:
                continue
            for r in rules:
                first = set(r["first"]) | ({"closure"} if "global_read" in r["first"] else set())
                for pos, i in enumerate(val):
                    if links[i]["k"] not in first:
                        continue
                    later = val[pos + 1:]
                    if r["then"] == "*":
                        if later or r.get("ctx"):
                            links[i] = {"k": "assign"}
                            self.stepped.append(name)
                    else:
                        for j in later:
                            if links[j]["k"] in r["then"]:
                                links[j] = {"k": "assign"}
                                self.stepped.append(name)
        return links

    def emit_chain(self, c, chain):
        self.c = c
        self.nv = 0
        B = self.B
        touched = []
        for fb in self.files:
            fb.module.exported = []
        src_kind = chain.get("src", "method")
        src_label = None
        if self.avoid_has("src:" + src_kind):
            self.stepped.append("src:" + src_kind)
            src_kind = "method" if not self.avoid_has("src:method") else "param"
        labels = []
        cur = B
        B.seg_start = len(B.body)
        sm = int(chain.get("start_mod", 0) or 0)
        if 0 < sm < self.nfiles:
            self.files[0].add_import("import %s" % MOD_NAMES[sm])
            cur = self.files[sm].module
            cur.parent = B
            cur.seg_start = len(cur.body)
        touched.append(cur)
        pre_labels = []
        for pre in chain.get("pre", []):
            pk = pre.get("kind", "func")
            nxt, lab = self.descend_plain(cur, dict(pre, k="pre:" + pk), pk)
            pre_labels.append("pre:%s%s" % ("func" if (pk == "nested" and nxt.kind != "nested") else pk, lab))
            cur = nxt
            touched.append(cur)
        if src_kind in ("param", "decoy_param"):
            sid = self.new_source("param", 0)
            real = src_kind == "param"
            pname = self.var("p") if real else "source"
            self.sources[sid]["decoy"] = not real
            if real:
                self.add_src_rule("param", pname)
                kidx = len(self.param_sites)
                self.param_sites.append([sid, pname])
            else:
                self.add_src_rule("call", "source")
                kidx = -1
            fr, lab = self.descend_plain(cur, dict(chain.get("pfile", {}), k="src:param"), "func",
                                         args=["mkval(%d)" % kidx], params=[pname])
            src_label = "src:param" + lab
            fr.header_tag = ("src", sid)
            cur = fr
            touched.append(cur)
            v = pname
        elif chain.get("wrap2") and src_kind in ("call", "method", "field") and not self.avoid_has("return"):
            # the source statement stands in a function that is called from two call sites of the same frame; only
            # the value of the SECOND call is carried on (the source node of a non-first calling context)
            sid = self.new_source(src_kind, 0)
            v = self.var("s")
            fr = Frame("func", cur.file, name=self.var("h"), params=[])
            t = self.var("s")
            fr.emit("%s = %s" % (t, self.source_expr(src_kind, sid, cur.file)), tag=("src", sid))
            fr.emit("return %s" % t)
            self.files[cur.file].frames.append(fr)
            cur.emit("%s = %s()" % (self.var("u"), fr.name))
            cur.emit("%s = %s()" % (v, fr.name))
            src_label = "src:" + src_kind + ">wrapped-twice"
        else:
            sid = self.new_source(src_kind, 0)
            v = self.var("s")
            cur.emit("%s = %s" % (v, self.source_expr(src_kind, sid, cur.file)), tag=("src", sid))
        at = 0
        for link in self.plan_links(chain.get("links", [])):
            cur, v, lab = self.apply_link(cur, v, link, at)
            if cur not in touched:
                touched.append(cur)
            if lab is not None:
                labels.append(lab)
                at += 1
        self.emit_ending(cur, v, chain, at)
        for fr in touched:
            fr.close_blocks()
        self.chains_meta.append({"labels": labels, "src": src_kind, "src_label": src_label or ("src:" + src_kind),
                                 "end": chain.get("end", "sink"), "pre": pre_labels,
                                 "start_mod": bool(0 < sm < self.nfiles)})

    def emit_ending(self, cur, v, chain, at):
        end = chain.get("end", "sink")
        snk = chain.get("snk", {})
        E = cur.emit
        if end == "sink":
            self.emit_sink(cur, v, snk, at)
        elif end == "drop":
            self.emit_sink(cur, "7", snk, at, ending=end)
        elif end == "kill":
            E("%s = 0" % v)
            self.emit_sink(cur, v, snk, at, ending=end)
        elif end == "wrongpos":
            self.emit_sink(cur, v, snk, at, ending=end, wrong=True)
        elif end == "unrel_field":
            cls = self.new_class(cur.file, "Bx")
            o, w = self.var("o"), self.var()
            E("%s = %s()" % (o, cls.name))
            E("%s.g%d = 0" % (o, self.c))
            E("%s.%s = %s" % (o, self.fld(), v))
            E("%s = %s.g%d" % (w, o, self.c))
            self.emit_sink(cur, w, snk, at, ending=end)
        elif end == "unrel_obj":
            cls = self.new_class(cur.file, "Bx")
            o, o2, w = self.var("o"), self.var("o"), self.var()
            E("%s = %s()" % (o, cls.name))
            E("%s = %s()" % (o2, cls.name))
            E("%s.%s = 0" % (o2, self.fld()))
            E("%s.%s = %s" % (o, self.fld(), v))
            E("%s = %s.%s" % (w, o2, self.fld()))
            self.emit_sink(cur, w, snk, at, ending=end)
        elif end == "unrel_var":
            w, u = self.var(), self.var()
            E("%s = %s" % (u, v))
            E("%s = 0" % w)
            self.emit_sink(cur, w, snk, at, ending=end)
        elif end == "const_callee":
            fexpr, _ = self.helper(cur, {}, ["a%d" % self.c], "1")
            w = self.var()
            E("%s = %s(%s)" % (w, fexpr, v))
            self.emit_sink(cur, w, snk, at, ending=end)
        elif end == "decoy_fieldw_prefix":
            tid = len(self.sinks)
            # the rule name is a proper prefix of the written field and of no other generated name
            self.add_snk_rule("fieldw", "snkobj.wr", "target")
            E("snkobj.wrx = %s" % v, tag=("snk", tid))
            self.sinks.append({"id": tid, "kind": "fieldw", "pos": "target", "chain": self.c, "at": at, "ending": end})
        elif end == "far_arg_receiver":
            # a method-call sink rule naming an argument the call does not have, on a call whose RECEIVER carries the value:
            # the designated argument does not depend on the source (seed C11-m3: the shifted receiver position met the
            # "no operand" position)
            tid = len(self.sinks)
            name = "%s.emit%s" % (v, str(tid) if self.uniq else "")
            self.add_snk_rule("method", name, "arg5")
            E("%s(5)" % name, tag=("snk", tid))
            self.sinks.append({"id": tid, "kind": "method", "pos": "arg5", "chain": self.c, "at": at, "ending": end})
        elif end == "decoy_method_like_call":
            tid = len(self.sinks)
            self.add_snk_rule("call", "sink", "arg0")
            E("snkobj.sink(%s)" % v, tag=("snk", tid))
            self.sinks.append({"id": tid, "kind": "method", "pos": "arg0", "chain": self.c, "at": at, "ending": end})
        else:
            self.emit_sink(cur, v, snk, at)

    # -- project ------------------------------------------------------------------------------
    def build(self):
        for c, chain in enumerate(self.spec.get("chains", [])):
            self.emit_chain(c, chain)
        files = {}
        where = {}
        for fb in self.files:
            lay = fb.layout()
            files[fb.name] = "\n".join(t for t, _ in lay) + "\n"
            for i, (_, tag) in enumerate(lay):
                if tag is not None:
                    where[tag] = (fb.name, i + 1)
        for s in self.sources:
            s["file"], s["line"] = where[("src", s["id"])]
        for t in self.sinks:
            t["file"], t["line"] = where[("snk", t["id"])]
        psites = []
        for sid, pname in self.param_sites:
            s = self.sources[sid]
            psites.append([s["file"], s["line"], pname])
        return {"files": files, "rules": {"source": self.src_rules, "sink": self.snk_rules}, "param_sites": psites,
                "sources": self.sources, "sinks": self.sinks, "chains": self.chains_meta, "main": "a.py",
                "stepped": sorted(self.stepped)}


def render(spec):
    return Builder(spec).build()


def planted_paths(case):
    """{(source id, sink id): [link labels]} for the pairs the generator connected by construction
    (whether the value really arrives is decided by the ground truth run, not by this table)."""
    out = {}
    for s in case["sources"]:
        for t in case["sinks"]:
            # a secondary source enters with link number s.at, so it reaches the sinks emitted after that link
            if s["chain"] == t["chain"] and s["at"] + (1 if s.get("secondary") else 0) <= t["at"]:
                labels = case["chains"][s["chain"]]["labels"]
                out[(s["id"], t["id"])] = labels[s["at"]:t["at"]]
    return out


# =============================================================================================
# 4. Hypothesis strategies

def spec_strategy(profile=None):
    """Strategy of chain specs.  profile keys: src_kinds, snk_kinds, neg (probability in tenths of a negative
    ending), endings (allowed negative endings), max_links."""
    from hypothesis import strategies as st
    profile = profile or {}
    src_kinds = profile.get("src_kinds", SOURCE_KINDS)
    snk_kinds = profile.get("snk_kinds", SINK_KINDS)
    neg = int(profile.get("neg", 2))
    endings = profile.get("endings", ["drop", "kill", "wrongpos", "unrel_field", "unrel_obj", "unrel_var", "const_callee"])
    link_pool = profile.get("links", ALL_LINKS)
    plain_links = [k for k in link_pool if k not in ("merge_src", "tee")]

    @st.composite
    def link_st(draw, allow_merge, allow_tee):
        pool = plain_links
        r = draw(st.integers(0, 19))
        if allow_merge and r == 0 and "merge_src" in link_pool:
            return {"k": "merge_src", "src": draw(st.sampled_from([k for k in src_kinds if k != "param"] or ["method"]))}
        if allow_tee and r == 1 and "tee" in link_pool:
            return {"k": "tee", "snk": draw(sink_st())}
        k = draw(st.sampled_from(pool))
        d = {"k": k}
        if k in ("param", "param_kw", "method_param", "call_id", "call_kw", "call_second", "ctor_field"):
            d["df"] = draw(st.sampled_from([0, 0, 1, 1, 2]))
            d["xf"] = draw(st.sampled_from(["from", "from", "mod"]))
        elif k == "global_import":
            d["xf"] = draw(st.sampled_from(["from", "mod"]))
        return d

    @st.composite
    def sink_st(draw):
        kind = draw(st.sampled_from(snk_kinds))
        d = {"kind": kind}
        if kind in ("call", "method"):
            pos = draw(st.sampled_from(["arg0", "arg0", "arg0", "arg1", "arg2"] + (["receiver", "receiver"] if kind == "method" else [])))
            d["pos"] = pos
            d["nargs"] = draw(st.integers(1, 3))
        return d

    @st.composite
    def chain_st(draw, nfiles, allow_merge, allow_tee):
        ch = {"src": draw(st.sampled_from(src_kinds))}
        if nfiles > 1 and draw(st.integers(0, 6)) == 0:
            ch["start_mod"] = draw(st.integers(1, nfiles - 1))
        npre = draw(st.sampled_from([0, 0, 0, 0, 0, 0, 1, 1, 2]))
        if npre:
            ch["pre"] = [{"kind": draw(st.sampled_from(["func", "func", "nested", "method"])),
                          "df": draw(st.sampled_from([0, 0, 1])), "xf": draw(st.sampled_from(["from", "from", "mod"]))}
                         for _ in range(npre)]
        if ch["src"] == "param":
            ch["pfile"] = {"kind": "param", "df": draw(st.sampled_from([0, 0, 1])), "xf": draw(st.sampled_from(["from", "from", "mod"]))}
        elif draw(st.integers(0, 5)) == 0:
            ch["wrap2"] = True
        nl = draw(st.sampled_from([0, 1, 1, 1, 1, 1, 2, 2, 3, 4][:max(2, int(profile.get("max_links", 4)) + 6)]))
        links = []
        merged = teed = False
        for _ in range(nl):
            l = draw(link_st(allow_merge and not merged, allow_tee and not teed))
            merged = merged or l["k"] == "merge_src"
            teed = teed or l["k"] == "tee"
            links.append(l)
        ch["links"] = links
        ch["end"] = draw(st.sampled_from(endings)) if draw(st.integers(0, 9)) < neg else "sink"
        ch["snk"] = draw(sink_st())
        if ch["end"] == "sink" and ch["snk"]["kind"] in ("call", "method") and ch["snk"].get("pos", "").startswith("arg") \
                and profile.get("nest", True) and draw(st.integers(0, 5)) == 0 \
                and not ch.get("pre") and ch["src"] != "param" and not ch.get("start_mod") and not ch.get("wrap2") \
                and all(l["k"] in NEST_SAFE_LINKS for l in links):
            # (module-level chains of plain links only: inside a function the shape is the open finding
            #  C10-nested-holder-inside-function, kept as a replay)
            # last link: the sink argument is an object / dict that holds the value two levels down
            links.append({"k": draw(st.sampled_from(["nest_obj2", "nest_dict2"]))})
        return ch

    @st.composite
    def spec_st(draw):
        nfiles = draw(st.sampled_from([1, 1, 2, 2, 3]))
        nch = draw(st.sampled_from([1, 1, 1, 2, 2, 3]))
        chains = []
        for i in range(nch):
            # <= 3 source sites and <= 3 sink sites in the whole project
            spare = 3 - nch
            used = sum(1 for c in chains for l in c["links"] if l["k"] in ("merge_src",))
            usedt = sum(1 for c in chains for l in c["links"] if l["k"] in ("tee",))
            chains.append(draw(chain_st(nfiles, used < spare, usedt < spare)))
        return {"nfiles": nfiles, "chains": chains}
    return spec_st()


def spec_labels(case):
    """Generator-class labels of a rendered case (for the evidence histogram)."""
    out = []
    out.append("files:%d" % len(case["files"]))
    out.append("sources:%d" % len(case["sources"]))
    out.append("sinks:%d" % len(case["sinks"]))
    for s in case["sources"]:
        out.append("src:" + s["kind"] + (":decoy" if s.get("decoy") else ""))
    for t in case["sinks"]:
        out.append("snk:%s:%s" % (t["kind"], t["pos"]))
        if t["ending"] != "sink":
            out.append("end:" + t["ending"])
    for ch in case["chains"]:
        out.append("chainlen:%d" % min(4, len(ch["labels"])))
        for lab in ch["labels"]:
            out.append("link:" + lab)
    return out


# =============================================================================================
# 5. lian driver

def group_rules(rules):
    """[{..., optional "lang"}] -> [{"lang": l, "rules": [...]}] in first-appearance order of the languages."""
    groups = []
    for r in rules:
        r = dict(r)
        lang = r.pop("lang", "python")
        for g in groups:
            if g["lang"] == lang:
                g["rules"].append(r)
                break
        else:
            groups.append({"lang": lang, "rules": [r]})
    return groups


class _SinkTrace(object):
    """Records, for every reported flow, which operands of the sink statement carried the source's tag when
    TaintRuleApplier.get_sink_tag_by_rules was evaluated (each (source, sink) pair has a fresh TaintEnv, so any
    non-zero tag belongs to that source).  Pure observation: results are passed through unchanged."""

    def __init__(self):
        self.last = None
        self.by_flow = {}
        self.restore = []
        self.state_ids = set()
        self.state_ids_of = None

    def install(self):
        from lian.taint import taint_analysis as ta
        from lian.config.constants import SFG_EDGE_KIND
        trace = self
        orig_tag = ta.TaintRuleApplier.get_sink_tag_by_rules
        orig_path = ta.PathFinder.reconstruct_define_use_path

        def get_sink_tag_by_rules(self_, node):
            res = orig_tag(self_, node)
            ops = []
            try:
                sfg = self_.sfg
                if trace.state_ids_of != id(sfg):
                    trace.state_ids = {n.node_id for n in sfg.nodes if n.node_type == 3}
                    trace.state_ids_of = id(sfg)
                for pred in self_.sfg.predecessors(node):
                    ed = self_.sfg.get_edge_data(pred, node)
                    if not ed:
                        continue
                    for data in ed.values():
                        if data.edge_type != SFG_EDGE_KIND.SYMBOL_IS_USED:
                            continue
                        if self_.taint_analysis.get_symbol_with_states_tag(pred):
                            # does the symbol's own tag sit under an id that is also the id of a STATE node?
                            own = self_.taint_analysis.taint_manager.get_symbol_tag(pred.node_id)
                            ops.append((int(data.pos), str(pred.name), bool(own) and pred.node_id in trace.state_ids))
            except Exception:
                ops = None
            trace.last = (getattr(node, "def_stmt_id", None), str(getattr(node, "name", "")), ops)
            return res

        def reconstruct_define_use_path(self_, source, sink):
            flow = orig_path(self_, source, sink)
            if trace.last is not None and trace.last[0] == sink.def_stmt_id:
                trace.by_flow.setdefault((flow.source_stmt_id, flow.sink_stmt_id), []).append(trace.last)
            return flow
        ta.TaintRuleApplier.get_sink_tag_by_rules = get_sink_tag_by_rules
        ta.PathFinder.reconstruct_define_use_path = reconstruct_define_use_path
        self.restore = [lambda: setattr(ta.TaintRuleApplier, "get_sink_tag_by_rules", orig_tag),
                        lambda: setattr(ta.PathFinder, "reconstruct_define_use_path", orig_path)]

    def uninstall(self):
        for r in self.restore:
            r()
        self.restore = []


def lian_operand(op, pos):
    """position of a used symbol of a sink statement -> the vocabulary of rule targets"""
    if op == "call_stmt":
        return "callee" if pos == 0 else "arg%d" % (pos - 1)
    if op == "object_call_stmt":
        return "receiver" if pos == 0 else ("field" if pos == 1 else "arg%d" % (pos - 2))
    if op == "field_write":
        return "receiver" if pos == 0 else ("field" if pos == 1 else "value")
    return "pos%d" % pos


def run_lian(files, rules, keep_from_code=False, propagation=None, read_json=False, trace_sinks=False):
    """Run the full pipeline in-process.  -> dict(flows=set of (src file, src line, sink file, sink line),
    detail=[(src op, sink op, ...)], exc=None|str, nflows=int)."""
    from harness import lianrun, common
    import tempfile
    import shutil
    d = tempfile.mkdtemp(prefix="tg-", dir=lianrun.scratch_dir())
    res = None
    try:
        sd = lianrun.write_settings(
            os.path.join(d, "settings"),
            entry=[{"method_list": ["%unit_init"]}],
            source=group_rules(rules["source"]), sink=group_rules(rules["sink"]),
            propagation=propagation if propagation is not None else shipped_propagation(common.REPO))
        trace = None
        if trace_sinks:
            lianrun._import()
            trace = _SinkTrace()
            trace.install()
        try:
            res = lianrun.analyze(files, settings_dir=sd, lang="python", workdir=d, keep_from_code_rules=keep_from_code,
                                  quiet=not read_json)
        finally:
            if trace is not None:
                trace.uninstall()
        out = {"flows": set(), "detail": [], "exc": None, "nflows": 0, "operands": {}, "id_clash": set()}
        if read_json:
            # second observation point: what a non-quiet run writes to taint/taint_data_flow.json
            out["json_flows"] = None
            for root, _, names in os.walk(d):
                if "taint_data_flow.json" in names:
                    import json as _json
                    with open(os.path.join(root, "taint_data_flow.json")) as f:
                        data = _json.load(f)
                    out["json_flows"] = {(os.path.basename(x["source_file_path"]), int(x["source_line"]),
                                          os.path.basename(x["sink_file_path"]), int(x["sink_line"])) for x in data}
        if res.exc is not None:
            import traceback
            tb = traceback.extract_tb(res.exc.__traceback__)
            where = ""
            for fr in reversed(tb):
                if "/lian/" in fr.filename:
                    where = "%s:%s" % (os.path.basename(fr.filename), fr.name)
                    break
            out["exc"] = "%s@%s: %s" % (type(res.exc).__name__, where, str(res.exc)[:200])
            out["exc_sig"] = (type(res.exc).__name__, where)
        ld = res.loader
        if ld is not None:
            for fl in res.flows:
                for f in fl:
                    try:
                        a = _stmt_loc(ld, f.source_stmt_id, res.inputs)
                        b = _stmt_loc(ld, f.sink_stmt_id, res.inputs)
                    except Exception as e:      # a flow whose statements cannot be located is kept visible
                        out["detail"].append(("unlocatable", repr(e)))
                        continue
                    out["nflows"] += 1
                    out["flows"].add((a[0], a[1], b[0], b[1]))
                    out["detail"].append((a[0], a[1], a[2], b[0], b[1], b[2]))
                    if trace is not None:
                        names = out["operands"].setdefault((a[0], a[1], b[0], b[1]), set())
                        for (_sid, op, ops) in trace.by_flow.get((f.source_stmt_id, f.sink_stmt_id), []):
                            for pos, nm, clash in (ops or []):
                                names.add(lian_operand(op, pos))
                                if clash:
                                    out["id_clash"].add((a[0], a[1], b[0], b[1]))
        return out
    finally:
        shutil.rmtree(d, ignore_errors=True)


def _stmt_loc(ld, sid, inputs_root):
    uid = ld.convert_stmt_id_to_unit_id(sid)
    info = ld.convert_module_id_to_module_info(uid)
    path = info.original_path
    rel = os.path.relpath(path, inputs_root) if path.startswith(inputs_root) else os.path.basename(path)
    st = ld.get_stmt_gir(sid)
    return rel, int(st.start_row) + 1, str(st.operation)


# =============================================================================================
# 6. reference rule matcher and coarse dependence graph on the python AST (C11)

class Facts(object):
    """What the statements of a project are, per (file, line), read from the python AST."""

    def __init__(self, files):
        self.files = files
        self.trees = {}
        self.calls = {}        # (file, line) -> [ast.Call]
        self.attr_loads = {}   # (file, line) -> [ast.Attribute]
        self.attr_stores = {}  # (file, line) -> [(ast.Attribute, value expr)]
        self.defs = {}         # (file, line) -> [ast.FunctionDef]
        self.dicts = {}        # (file, line) -> [ast.Dict]
        self.sub_stores = {}   # (file, line) -> [(ast.Subscript, value expr)]
        self.assign_at = {}    # (file, line) -> [statement nodes]
        self.known_callables = set()
        for fn, text in files.items():
            try:
                tree = ast.parse(text)
            except SyntaxError:
                continue
            self.trees[fn] = tree
            for node in ast.walk(tree):
                ln = getattr(node, "lineno", None)
                if ln is None:
                    continue
                key = (fn, ln)
                if isinstance(node, ast.Call):
                    self.calls.setdefault(key, []).append(node)
                elif isinstance(node, ast.Attribute) and isinstance(node.ctx, ast.Load):
                    self.attr_loads.setdefault(key, []).append(node)
                elif isinstance(node, (ast.FunctionDef, ast.AsyncFunctionDef)):
                    self.defs.setdefault(key, []).append(node)
                    self.known_callables.add(node.name)
                elif isinstance(node, ast.ClassDef):
                    self.known_callables.add(node.name)
                elif isinstance(node, ast.Dict):
                    self.dicts.setdefault(key, []).append(node)
                if isinstance(node, (ast.Assign, ast.AugAssign, ast.AnnAssign, ast.For, ast.Expr, ast.Return)):
                    self.assign_at.setdefault(key, []).append(node)
                if isinstance(node, ast.Assign):
                    for t in node.targets:
                        if isinstance(t, ast.Attribute):
                            self.attr_stores.setdefault(key, []).append((t, node.value))
                        elif isinstance(t, ast.Subscript):
                            self.sub_stores.setdefault(key, []).append((t, node.value))
                        elif isinstance(t, ast.Name) and isinstance(node.value, ast.Lambda):
                            self.known_callables.add(t.id)


def _txt(node):
    try:
        return ast.unparse(node)
    except Exception:
        return "?"


def _this(text):
    return "%this" + text[4:] if text.startswith("self.") or text == "self" else text


def _restr_ok(rule, site, ignore=()):
    if "unit_name" not in ignore and rule.get("unit_name") and rule["unit_name"] != os.path.basename(site[0]):
        return False
    if "line_num" not in ignore and rule.get("line_num") and int(rule["line_num"]) != site[1]:
        return False
    if "lang" not in ignore and rule.get("lang", "python") not in ("python", "%", "any"):
        return False
    return True


def _name_ok(rule_name, text, ignore):
    """exact comparison; 'name~' in ignore: the rule name only has to occur inside the text (what a substring test
    accepts); 'name' in ignore: any name"""
    if "name" in ignore:
        return True
    if text == rule_name or _this(text) == rule_name:
        return True
    if "name~" in ignore and rule_name and (rule_name in text or rule_name in _this(text)):
        return True
    return False


def source_match(facts, rule, site, ignore=()):
    """Does the statement at site=(file, line) match the source rule?  `ignore`: filters left out (used to name
    which field of the rule a wrongly reported statement disagrees with).  -> list of defined-variable seeds."""
    if not _restr_ok(rule, site, ignore):
        return None
    kind = OP_KIND_SRC.get(rule.get("operation"))
    name = rule.get("name") or ""
    kinds = [kind] if "operation" not in ignore else ["call", "method", "param", "field"]
    if kinds == ["call"]:
        # a call_stmt rule with a dotted name also designates the method call spelled that way: the shipped rules
        # say so (sink.yaml: operation call_stmt, name pickle.load / web.FileResponse)
        kinds = ["call", "method"]
    for kd in kinds:
        if kd == "call":
            for c in facts.calls.get(site, []):
                if isinstance(c.func, ast.Name) and _name_ok(name, c.func.id, ignore):
                    return ["call"]
        elif kd == "method":
            for c in facts.calls.get(site, []):
                if isinstance(c.func, ast.Attribute) and _name_ok(name, _txt(c.func), ignore):
                    return ["method"]
        elif kd == "param":
            for d in facts.defs.get(site, []):
                for a in d.args.args + d.args.kwonlyargs + d.args.posonlyargs:
                    if _name_ok(name, a.arg, ignore):
                        return ["param:" + a.arg]
        elif kd == "field":
            for a in facts.attr_loads.get(site, []):
                if _name_ok(name, _txt(a), ignore):
                    return ["field:" + a.attr]
    return None


def sink_match(facts, rule, site, ignore=()):
    """-> list of designated operand expressions (ast nodes) if the statement at site matches the sink rule."""
    if not _restr_ok(rule, site, ignore):
        return None
    kind = OP_KIND_SNK.get(rule.get("operation"))
    name = rule.get("name") or ""
    targets = rule_targets(rule)
    kinds = [kind] if "operation" not in ignore else ["call", "method", "fieldw", "recordw"]
    if kinds == ["call"]:
        kinds = ["call", "method"]        # see source_match
    for kd in kinds:
        if kd in ("call", "method"):
            for c in facts.calls.get(site, []):
                if kd == "call":
                    ok = isinstance(c.func, ast.Name) and _name_ok(name, c.func.id, ignore)
                else:
                    ok = isinstance(c.func, ast.Attribute) and _name_ok(name, _txt(c.func), ignore)
                if not ok:
                    continue
                ops = []
                for t in targets:
                    if t.startswith("arg") and t[3:].isdigit():
                        i = int(t[3:])
                        if i < len(c.args):
                            ops.append(c.args[i])
                        elif c.keywords and i - len(c.args) < len(c.keywords):
                            ops.append(c.keywords[i - len(c.args)].value)
                    elif t == "receiver":
                        ops.append(c.func.value if isinstance(c.func, ast.Attribute) else c.func)
                    elif t == "target" or not t:
                        ops.extend(c.args)
                        ops.extend(k.value for k in c.keywords)
                        if isinstance(c.func, ast.Attribute):
                            ops.append(c.func.value)
                return ops
        elif kd == "fieldw":
            for a, val in facts.attr_stores.get(site, []):
                if _name_ok(name, _txt(a), ignore):
                    ops = []
                    for t in targets:
                        if t == "arg1":
                            ops.append(val)
                        elif t in ("receiver", "arg0"):
                            ops.append(a.value)
                        elif t == "target" or not t:
                            ops.extend([val, a.value])
                    return ops
        elif kd == "recordw":
            key = rule.get("key") or ""
            for d in facts.dicts.get(site, []):
                for k, v in zip(d.keys, d.values):
                    if isinstance(k, ast.Constant) and ('"%s"' % k.value == key or "name" in ignore):
                        return [v]
    return None


class DepGraph(object):
    """Flow-insensitive, context-insensitive, name-based dependence graph with two taint modes:
    D = the value itself derives from the source, C = the value is an object / container holding such a value.
    Deliberately coarse: names are global over the project, any same-named function and any same-named field are
    merged, containers are index-insensitive.  Fields are kept apart by name (o.f never feeds o.g)."""

    def __init__(self, facts, relax=()):
        """relax: named weakenings of the reference reading, used only to NAME why an unjustified flow was reported:
        'call'   = a call statement taints everything it defines (result, receiver, objects the callee writes to)
                   from any of its arguments, whatever the resolved callee does;
        'object' = storing into a field taints the whole object, so every other field read of it is tainted."""
        self.facts = facts
        self.relax = set(relax)
        self.edges = {}
        self.funcs = {}          # name -> [param names]
        self.side = {}           # function name -> root names its body stores through
        for fn, tree in facts.trees.items():
            for node in ast.walk(tree):
                if isinstance(node, (ast.FunctionDef, ast.AsyncFunctionDef)):
                    roots = self.side.setdefault(node.name, set())
                    for st in ast.walk(node):
                        if isinstance(st, ast.Assign):
                            for t in st.targets:
                                if isinstance(t, (ast.Attribute, ast.Subscript)):
                                    r = self.root(t.value)
                                    if r and r != "self":
                                        roots.add(r)
                        elif isinstance(st, ast.Call) and isinstance(st.func, ast.Attribute):
                            r = self.root(st.func.value)
                            if r and r != "self":
                                roots.add(r)
                        elif isinstance(st, ast.Call) and isinstance(st.func, ast.Name):
                            roots.add("call:" + st.func.id)
        changed = True
        while changed:          # callees of callees
            changed = False
            for name, roots in self.side.items():
                for r in list(roots):
                    if r.startswith("call:"):
                        extra = self.side.get(r[5:], set()) - roots
                        if extra:
                            roots |= extra
                            changed = True
        for fn, tree in facts.trees.items():
            for node in ast.walk(tree):
                if isinstance(node, (ast.FunctionDef, ast.AsyncFunctionDef)):
                    params = [a.arg for a in node.args.posonlyargs + node.args.args + node.args.kwonlyargs]
                    self.funcs.setdefault(node.name, []).append(params)
                elif isinstance(node, ast.Assign) and isinstance(node.value, ast.Lambda):
                    for t in node.targets:
                        if isinstance(t, ast.Name):
                            params = [a.arg for a in node.value.args.args]
                            self.funcs.setdefault(t.id, []).append(params)
                            d, c = self.expr(node.value.body)
                            self.flow(d, ("ret:" + t.id, "D"))
                            self.flow(c, ("ret:" + t.id, "C"))
        self.classes = {}
        for fn, tree in facts.trees.items():
            for node in ast.walk(tree):
                if isinstance(node, ast.ClassDef):
                    self.classes[node.name] = node
        for fn, tree in facts.trees.items():
            self.block(tree.body, None)

    def edge(self, a, b):
        self.edges.setdefault(a, set()).add(b)

    def flow(self, states, dst):
        for s in states:
            self.edge(s, dst)

    @staticmethod
    def root(node):
        while isinstance(node, (ast.Attribute, ast.Subscript, ast.Call)):
            node = node.value if not isinstance(node, ast.Call) else node.func
        return node.id if isinstance(node, ast.Name) else None

    def expr(self, e):
        """-> (states making e directly tainted, states making e a holder of taint)"""
        D, C = set(), set()
        if e is None or isinstance(e, ast.Constant):
            return D, C
        if isinstance(e, ast.Name):
            return {("v:" + e.id, "D")}, {("v:" + e.id, "C")}
        if isinstance(e, ast.Attribute):
            d, c = self.expr(e.value)
            D |= {("f:" + e.attr, "D"), ("v:" + e.attr, "D")} | d
            C |= {("f:" + e.attr, "C"), ("v:" + e.attr, "C")}
            return D, C
        if isinstance(e, ast.Subscript):
            d, c = self.expr(e.value)
            return d | c, set(c)
        if isinstance(e, (ast.List, ast.Tuple, ast.Set)):
            for x in e.elts:
                d, c = self.expr(x)
                C |= d | c
            return D, C
        if isinstance(e, ast.Dict):
            for x in list(e.keys) + list(e.values):
                d, c = self.expr(x)
                C |= d | c
            return D, C
        if isinstance(e, ast.Call):
            return self.call(e)
        if isinstance(e, ast.Lambda):
            return D, C
        for ch in ast.iter_child_nodes(e):
            if isinstance(ch, ast.expr):
                d, c = self.expr(ch)
                D |= d
                C |= c
        return D, C

    def call(self, e):
        D, C = set(), set()
        fname = e.func.id if isinstance(e.func, ast.Name) else (e.func.attr if isinstance(e.func, ast.Attribute) else None)
        args = list(e.args) + [k.value for k in e.keywords]
        arg_states = []
        arg_nodes = []
        for a in args:
            d, c = self.expr(a)
            if isinstance(a, ast.Name):
                node = "v:" + a.id
            else:
                # the temporary that holds the argument value
                node = "t:%d:%d" % (getattr(a, "lineno", 0), getattr(a, "col_offset", 0))
                self.flow(d, (node, "D"))
                self.flow(c, (node, "C"))
                d, c = d | {(node, "D")}, c | {(node, "C")}
            arg_states.append((d, c))
            arg_nodes.append(node)
        recv = e.func.value if isinstance(e.func, ast.Attribute) else None
        rd, rc = self.expr(recv) if recv is not None else (set(), set())
        known = fname in self.funcs or fname in self.classes
        if fname in self.funcs:
            for params in self.funcs[fname]:
                for p in params:
                    for (d, c), node in zip(arg_states, arg_nodes):
                        self.flow(d, ("v:" + p, "D"))
                        self.flow(c, ("v:" + p, "C"))
                        # the parameter and the caller's argument are the same value / object
                        self.edge(("v:" + p, "D"), (node, "D"))
                        self.edge(("v:" + p, "C"), (node, "C"))
                    if recv is not None:
                        self.flow(rd, ("v:" + p, "D"))
                        self.flow(rc, ("v:" + p, "C"))
                        r = self.root(recv)
                        if r:
                            self.edge(("v:" + p, "C"), ("v:" + r, "C"))
            D.add(("ret:" + fname, "D"))
            C.add(("ret:" + fname, "C"))
        if fname in self.classes:
            for st in ast.walk(self.classes[fname]):
                if isinstance(st, ast.FunctionDef) and st.name == "__init__":
                    for a in st.args.args:
                        for (d, c), node in zip(arg_states, arg_nodes):
                            self.flow(d, ("v:" + a.arg, "D"))
                            self.flow(c, ("v:" + a.arg, "C"))
                            self.edge(("v:" + a.arg, "D"), (node, "D"))
                            self.edge(("v:" + a.arg, "C"), (node, "C"))
            for d, c in arg_states:
                C |= d | c
        if not known or "call" in self.relax:
            for d, c in arg_states:
                D |= d | c
            D |= rd | rc
        if recv is not None:
            r = self.root(recv)
            if r:
                for d, c in arg_states:
                    self.flow(d | c, ("v:" + r, "D" if "call" in self.relax else "C"))
        if "call" in self.relax and fname is not None:
            names = [fname] + (["__init__"] if fname in self.classes else [])
            for nm in names:
                for r in self.side.get(nm, ()):
                    if not r.startswith("call:"):
                        for d, c in arg_states:
                            self.flow(d | c, ("v:" + r, "D"))
                        self.flow(rd | rc, ("v:" + r, "D"))
        return D, C

    def assign(self, target, D, C, value=None):
        if isinstance(target, ast.Name):
            self.flow(D, ("v:" + target.id, "D"))
            self.flow(C, ("v:" + target.id, "C"))
            if isinstance(value, ast.Name):     # aliases hold what is later stored through either name
                self.edge(("v:" + target.id, "C"), ("v:" + value.id, "C"))
        elif isinstance(target, (ast.Tuple, ast.List)):
            if isinstance(value, (ast.Tuple, ast.List)) and len(value.elts) == len(target.elts):
                for t, v in zip(target.elts, value.elts):
                    d, c = self.expr(v)
                    self.assign(t, d, c, v)
            else:
                for t in target.elts:
                    self.assign(t, D | C, set(C))
        elif isinstance(target, ast.Attribute):
            for pre in ("f:", "v:"):
                self.flow(D, (pre + target.attr, "D"))
                self.flow(C, (pre + target.attr, "C"))
            r = self.root(target.value)
            if r:
                self.flow(D | C, ("v:" + r, "D" if "object" in self.relax else "C"))
        elif isinstance(target, ast.Subscript):
            r = self.root(target.value)
            if r:
                self.flow(D | C, ("v:" + r, "C"))
        elif isinstance(target, ast.Starred):
            self.assign(target.value, D, C)

    def block(self, body, func):
        for st in body:
            if isinstance(st, (ast.FunctionDef, ast.AsyncFunctionDef)):
                self.block(st.body, st.name)
            elif isinstance(st, ast.ClassDef):
                self.block(st.body, func)
            elif isinstance(st, ast.Assign):
                D, C = self.expr(st.value)
                for t in st.targets:
                    self.assign(t, D, C, st.value)
            elif isinstance(st, ast.AugAssign):
                D, C = self.expr(st.value)
                self.assign(st.target, D, C)
            elif isinstance(st, ast.AnnAssign):
                D, C = self.expr(st.value)
                self.assign(st.target, D, C, st.value)
            elif isinstance(st, ast.Return):
                D, C = self.expr(st.value)
                if func:
                    self.flow(D, ("ret:" + func, "D"))
                    self.flow(C, ("ret:" + func, "C"))
            elif isinstance(st, ast.Expr):
                self.expr(st.value)
            elif isinstance(st, (ast.For, ast.AsyncFor)):
                D, C = self.expr(st.iter)
                self.assign(st.target, D | C, set(C))
                self.block(st.body, func)
                self.block(st.orelse, func)
            elif isinstance(st, ast.While):
                self.expr(st.test)
                self.block(st.body, func)
                self.block(st.orelse, func)
            elif isinstance(st, ast.If):
                self.expr(st.test)
                self.block(st.body, func)
                self.block(st.orelse, func)
            elif isinstance(st, ast.Try):
                self.block(st.body, func)
                for h in st.handlers:
                    self.block(h.body, func)
                self.block(st.orelse, func)
                self.block(st.finalbody, func)
            elif isinstance(st, ast.With):
                for it in st.items:
                    D, C = self.expr(it.context_expr)
                    if it.optional_vars is not None:
                        self.assign(it.optional_vars, D, C)
                self.block(st.body, func)

    def closure(self, seeds):
        seen = set(seeds)
        work = list(seeds)
        while work:
            a = work.pop()
            for b in self.edges.get(a, ()):
                if b not in seen:
                    seen.add(b)
                    work.append(b)
        return seen

    def source_seeds(self, site, how):
        """initial states for a source statement; how = result of source_match."""
        seeds = set()
        for h in how:
            if h.startswith("param:"):
                seeds.add(("v:" + h[6:], "D"))
            if h.startswith("field:"):
                # the source is the field: every read of that field name carries it
                seeds.add(("f:" + h[6:], "D"))
                seeds.add(("v:" + h[6:], "D"))
        for st in self.facts.assign_at.get(site, []):
            if isinstance(st, ast.Assign):
                for t in st.targets:
                    for n in ast.walk(t):
                        if isinstance(n, ast.Name):
                            seeds.add(("v:" + n.id, "D"))
                        elif isinstance(n, ast.Attribute):
                            seeds.add(("f:" + n.attr, "D"))
                            r = self.root(n.value)
                            if r:
                                seeds.add(("v:" + r, "C"))
            elif isinstance(st, (ast.AugAssign, ast.AnnAssign)):
                for n in ast.walk(st.target):
                    if isinstance(n, ast.Name):
                        seeds.add(("v:" + n.id, "D"))
            elif isinstance(st, ast.For):
                for n in ast.walk(st.target):
                    if isinstance(n, ast.Name):
                        seeds.add(("v:" + n.id, "D"))
            elif isinstance(st, ast.Return):
                pass
        return seeds

    def operand_states(self, expr):
        d, c = self.expr(expr)
        return d | c


def justify(facts, graph, rules, flow):
    """flow = (src file, src line, sink file, sink line).  -> dict describing how the flow is (not) justified."""
    ssite, tsite = (flow[0], flow[1]), (flow[2], flow[3])
    out = {"source_rule": False, "sink_rule": False, "dependence": False, "other_operand": False,
           "source_relax": None, "sink_relax": None}
    seeds = set()
    for r in rules["source"]:
        how = source_match(facts, r, ssite)
        if how is not None:
            out["source_rule"] = True
            seeds |= graph.source_seeds(ssite, how)
    ops = []
    for r in rules["sink"]:
        o = sink_match(facts, r, tsite)
        if o is not None:
            out["sink_rule"] = True
            ops.extend(o)
    if not out["source_rule"]:
        out["source_relax"] = _relax(facts, rules["source"], ssite, source_match)
        # still compute the dependence from whatever the statement defines
        seeds |= graph.source_seeds(ssite, [])
    if not out["sink_rule"]:
        out["sink_relax"] = _relax(facts, rules["sink"], tsite, sink_match)
    reach = graph.closure(seeds)
    for o in ops:
        if graph.operand_states(o) & reach:
            out["dependence"] = True
    if not out["dependence"]:
        # does any operand of the sink statement depend on the source?  (wrong position vs no dependence at all)
        for c in facts.calls.get(tsite, []):
            for a in list(c.args) + [k.value for k in c.keywords] + ([c.func.value] if isinstance(c.func, ast.Attribute) else []):
                if graph.operand_states(a) & reach:
                    out["other_operand"] = True
        for a, val in facts.attr_stores.get(tsite, []):
            if (graph.operand_states(val) | graph.operand_states(a.value)) & reach:
                out["other_operand"] = True
    return out


PREFERRED_RELAX = []        # set by props/c11.py from the open known findings


def _relax(facts, rules, site, matcher):
    """Smallest set of rule fields that has to be ignored for some rule to match the statement; the name of the rule
    is given up last (a rule with another name is another rule)."""
    import itertools
    # a substring relation between names is tried first only for field writes (the one matcher that tests the rule
    # name with `in`); elsewhere generated names such as sink / sink_a2 contain each other by accident
    if matcher is sink_match and facts.attr_stores.get(site):
        fields = ["name~", "line_num", "unit_name", "lang", "operation"]
    else:
        fields = ["line_num", "unit_name", "lang", "operation", "name~"]
    # among explanations of the same size, one made of relaxations that are open findings comes first (a tie must not
    # be decided in favour of a field whose defect was repaired)
    fields = [f for f in fields if f in PREFERRED_RELAX] + [f for f in fields if f not in PREFERRED_RELAX]
    for with_name in (False, True):
        for n in range(0 if with_name else 1, len(fields) + 1):
            for combo in itertools.combinations(fields, n):
                ign = combo + (("name",) if with_name else ())
                for r in rules:
                    if matcher(facts, r, site, ignore=ign) is not None:
                        return "+".join(ign)
    return "nothing-close"
