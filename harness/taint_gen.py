"""Shared generator / oracles of C10 and C11 (taint flows).

Parts
  1. rule helpers                  (spellings of source / sink rules, shipped propagation rules)
  2. ground truth runtime          (CPython execution with identity-tracking `Taint` objects; rule driven)
  3. project renderer              (chain spec -> 1-3 python files, one simple statement per line)
  4. Hypothesis strategies         (chain specs)
  5. lian driver                   (settings dir, in-process run, flows as (file, line, file, line))
  6. reference rule matcher + coarse dependence graph on the python AST   (C11)

Nothing here asserts; everything returns data.  No wall clock, no own RNG.
"""
import ast
import builtins
import os
import sys
import types

# =============================================================================================
# 1. rules

ARG = {"arg0": "\\%arg0", "arg1": "\\%arg1", "arg2": "\\%arg2", "arg3": "\\%arg3", "arg4": "\\%arg4",
       "receiver": "\\%receiver", "target": "\\%target"}
ARG_INV = {v: k for k, v in ARG.items()}

SOURCE_KINDS = ["call", "method", "param", "field"]
SINK_KINDS = ["call", "method", "fieldw", "recordw"]

# operation spellings as in the shipped default_settings/{source,sink}.yaml
SRC_OP = {"call": "call_stmt", "method": "object_call", "param": "parameter_decl", "field": "field_read"}
SNK_OP = {"call": "call_stmt", "method": "object_call", "fieldw": "field_write", "recordw": "record_write"}
OP_KIND_SRC = {"call_stmt": "call", "object_call": "method", "object_call_stmt": "method",
               "parameter_decl": "param", "field_read": "field"}
OP_KIND_SNK = {"call_stmt": "call", "object_call": "method", "object_call_stmt": "method",
               "field_write": "fieldw", "record_write": "recordw"}

_PROP_CACHE = {}


def shipped_propagation(repo):
    """The python section(s) of the shipped default_settings/propagation.yaml, as python objects."""
    if repo in _PROP_CACHE:
        return _PROP_CACHE[repo]
    import yaml
    path = os.path.join(repo, "default_settings", "propagation.yaml")
    out = []
    try:
        with open(path) as f:
            data = yaml.safe_load(f) or []
        for group in data:
            if group.get("lang") == "python":
                out.append(group)
    except Exception:
        out = []
    if not out:
        out = [{"lang": "python", "rules": [{"operation": "assign_stmt", "src": "operand1", "dst": [["\\%target"]]}]}]
    _PROP_CACHE[repo] = out
    return out


def rule_targets(rule):
    t = rule.get("target")
    if t is None:
        return []
    if isinstance(t, list):
        return [ARG_INV.get(x, x) for x in t]
    return [ARG_INV.get(t, t)]


# =============================================================================================
# 2. ground truth runtime

class Taint(object):
    """A value produced at a source.  ids = frozenset of source sites (file, line)."""
    __slots__ = ("ids", "_rt")

    def __init__(self, ids, rt=None):
        object.__setattr__(self, "ids", frozenset(ids))
        object.__setattr__(self, "_rt", rt)

    def _bin(self, other):
        ids = self.ids
        if isinstance(other, Taint):
            ids = ids | other.ids
        return Taint(ids, self._rt)

    __add__ = __radd__ = __sub__ = __rsub__ = __mul__ = __rmul__ = _bin
    __iadd__ = __isub__ = __imul__ = _bin
    __or__ = __ror__ = __and__ = __rand__ = __xor__ = __rxor__ = _bin
    __mod__ = __rmod__ = __floordiv__ = __rfloordiv__ = __truediv__ = __rtruediv__ = _bin

    def __neg__(self):
        return Taint(self.ids, self._rt)

    def __bool__(self):
        return True

    def __repr__(self):
        return "Taint(%s)" % sorted(self.ids)

    def __getattr__(self, name):
        rt = object.__getattribute__(self, "_rt")
        if rt is not None and name in rt.sink_method_fields:
            return rt.make_receiver_sink(self, name)
        raise AttributeError(name)


class BudgetExceeded(Exception):
    pass


class _Ext(object):
    """An external object known to the rules by name (srcobj.get(), srcobj.secret, snkobj.send(x), snkobj.out = x)."""

    def __init__(self, rt, name):
        object.__setattr__(self, "_rt", rt)
        object.__setattr__(self, "_name", name)

    def __getattr__(self, field):
        rt = object.__getattribute__(self, "_rt")
        name = object.__getattribute__(self, "_name")
        full = name + "." + field
        if full in rt.field_sources:
            return rt.make_source(rt.field_sources[full], rt.caller_site(2))
        is_src = full in rt.method_sources
        sink_rules = rt.method_sinks.get(full)
        if is_src or sink_rules:
            def method(*args, **kwargs):
                site = rt.caller_site(2)
                if sink_rules:
                    rt.record_sink(site, sink_rules, args, None, None)
                if is_src:
                    return rt.make_source(rt.method_sources[full], site)
                return None
            return method

        def other(*args, **kwargs):
            return None
        return other

    def __setattr__(self, field, value):
        rt = object.__getattribute__(self, "_rt")
        name = object.__getattribute__(self, "_name")
        rules = rt.fieldw_sinks.get(name + "." + field)
        if rules:
            rt.record_sink(rt.caller_site(2), rules, (), None, value)
        object.__getattribute__(self, "__dict__")[field] = value


class Runtime(object):
    """Executes a project under CPython with sources / sinks instrumented from the rule set."""

    def __init__(self, files, source_rules, sink_rules, param_sites=None, main="a.py", budget=20000):
        self.files = dict(files)
        self.main = main
        self.budget = budget
        self.lines_run = 0
        self.param_sites = list(param_sites or [])      # index k -> (file, line) for mkval(k)
        self.hits = []                                  # (sink file, sink line, position, frozenset(source sites))
        self.sink_sites_run = set()                     # every executed sink statement (tainted or not)
        self.source_sites_run = set()
        self.modules = {}
        self.unsupported = []
        # rule tables
        self.call_sources = {}
        self.method_sources = {}
        self.field_sources = {}
        self.param_sources = {}
        self.call_sinks = {}
        self.method_sinks = {}
        self.fieldw_sinks = {}
        self.record_sinks = {}
        self.sink_method_fields = set()
        for r in source_rules:
            k = OP_KIND_SRC.get(r.get("operation"))
            n = r.get("name") or ""
            if k == "call":
                self.call_sources.setdefault(n, []).append(r)
            elif k == "method":
                self.method_sources.setdefault(n, []).append(r)
            elif k == "field":
                self.field_sources.setdefault(n, []).append(r)
            elif k == "param":
                self.param_sources.setdefault(n, []).append(r)
        for r in sink_rules:
            k = OP_KIND_SNK.get(r.get("operation"))
            n = r.get("name") or ""
            if k == "call":
                self.call_sinks.setdefault(n, []).append(r)
            elif k == "method":
                self.method_sinks.setdefault(n, []).append(r)
                self.sink_method_fields.add(n.rsplit(".", 1)[-1])
            elif k == "fieldw":
                self.fieldw_sinks.setdefault(n, []).append(r)
            elif k == "recordw":
                self.record_sinks.setdefault(r.get("key") or "", []).append(r)
        self._asts = {}
        self._record_lines = {}     # (file, line) -> [(rules, value expr source)]
        if self.record_sinks:
            self._index_record_writes()

    # -- helpers ------------------------------------------------------------------------------
    def caller_site(self, depth):
        f = sys._getframe(depth)
        return (os.path.basename(f.f_code.co_filename), f.f_lineno)

    def rule_applies(self, rule, site):
        """unit_name / line_num restrictions of a rule (the documented filters)."""
        if rule.get("unit_name") and rule["unit_name"] != site[0]:
            return False
        if rule.get("line_num") and int(rule["line_num"]) != site[1]:
            return False
        if rule.get("lang") and rule["lang"] != "python":
            return False
        return True

    def make_source(self, rules, site):
        """A Taint carrying the site if one of the rules applies there, else a clean value of the same class."""
        for r in rules:
            if self.rule_applies(r, site):
                self.source_sites_run.add(site)
                return Taint([site], self)
        return Taint([], self)

    def record_sink(self, site, rules, args, receiver, value):
        self.sink_sites_run.add(site)
        for r in rules:
            if not self.rule_applies(r, site):
                continue
            for t in rule_targets(r):
                v = None
                if t.startswith("arg") and t[3:].isdigit():
                    i = int(t[3:])
                    if i < len(args):
                        v = args[i]
                elif t == "receiver":
                    v = receiver
                elif t == "target":
                    v = value if value is not None else receiver
                if isinstance(v, Taint) and v.ids:
                    self.hits.append((site[0], site[1], t, v.ids))

    def make_receiver_sink(self, taint, field):
        rt = self

        def method(*args, **kwargs):
            site = rt.caller_site(2)
            rules = rt.rules_for_receiver_call(site, field)
            if rules:
                rt.record_sink(site, rules, args, taint, None)
            return None
        return method

    def _ast(self, fname):
        if fname not in self._asts:
            try:
                self._asts[fname] = ast.parse(self.files[fname])
            except Exception:
                self._asts[fname] = None
        return self._asts[fname]

    def rules_for_receiver_call(self, site, field):
        tree = self._ast(site[0])
        out = []
        if tree is None:
            return out
        for node in ast.walk(tree):
            if isinstance(node, ast.Call) and isinstance(node.func, ast.Attribute) and node.func.attr == field \
                    and node.lineno == site[1]:
                name = ast.unparse(node.func.value) + "." + field
                out.extend(self.method_sinks.get(name, []))
        return out

    def _index_record_writes(self):
        for fname in self.files:
            tree = self._ast(fname)
            if tree is None:
                continue
            for node in ast.walk(tree):
                if isinstance(node, ast.Dict):
                    for k, v in zip(node.keys, node.values):
                        if isinstance(k, ast.Constant) and isinstance(k.value, str):
                            key = '"%s"' % k.value
                            rules = self.record_sinks.get(key)
                            if rules and isinstance(v, ast.Name):
                                self._record_lines.setdefault((fname, node.lineno), []).append((rules, v.id))
                elif isinstance(node, ast.Assign) and len(node.targets) == 1 and isinstance(node.targets[0], ast.Subscript):
                    sl = node.targets[0].slice
                    if isinstance(sl, ast.Constant) and isinstance(sl.value, str) and isinstance(node.value, ast.Name):
                        rules = self.record_sinks.get('"%s"' % sl.value)
                        if rules:
                            self._record_lines.setdefault((fname, node.lineno), []).append((rules, node.value.id))

    # -- tracing ------------------------------------------------------------------------------
    def _tracer(self, frame, event, arg):
        co = frame.f_code
        fn = co.co_filename
        if not fn.startswith("<lianverif>/"):
            return None
        if event == "line":
            self.lines_run += 1
            if self.lines_run > self.budget:
                raise BudgetExceeded()
            if self._record_lines:
                key = (os.path.basename(fn), frame.f_lineno)
                ent = self._record_lines.get(key)
                if ent:
                    for rules, var in ent:
                        v = frame.f_locals.get(var, frame.f_globals.get(var))
                        self.sink_sites_run.add(key)
                        # whatever `target` says (the shipped spelling is `target: []`), the designated
                        # operand of a record write is the written value
                        if isinstance(v, Taint) and v.ids and any(self.rule_applies(r, key) for r in rules):
                            self.hits.append((key[0], key[1], "value", v.ids))
        return self._tracer

    # -- module system ------------------------------------------------------------------------
    def _import(self, name, globals=None, locals=None, fromlist=(), level=0):
        fname = name + ".py"
        if level == 0 and fname in self.files:
            return self._load(name)
        return self._real_import(name, globals, locals, fromlist, level)

    def _load(self, name):
        if name in self.modules:
            return self.modules[name]
        fname = name + ".py"
        mod = types.ModuleType(name)
        mod.__dict__["__builtins__"] = self.builtins
        mod.__dict__["__file__"] = "<lianverif>/" + fname
        self.modules[name] = mod
        code = compile(self.files[fname], "<lianverif>/" + fname, "exec")
        exec(code, mod.__dict__)
        return mod

    def _mkval(self, k):
        """Value passed to the parameter that source site k declares (k < 0: a clean value)."""
        if not (0 <= k < len(self.param_sites)):
            return Taint([], self)
        site = tuple(self.param_sites[k][:2])
        name = self.param_sites[k][2] if len(self.param_sites[k]) > 2 else None
        rules = self.param_sources.get(name, []) if name is not None else []
        return self.make_source(rules, site)

    def run(self):
        """-> dict(pairs=set of (src file, src line, sink file, sink line), error=None|str)."""
        rt = self
        b = dict(vars(builtins))
        self._real_import = builtins.__import__
        b["__import__"] = self._import
        b["mkval"] = self._mkval
        b["print"] = lambda *a, **k: None

        def mk_call_source(nm):
            rules = rt.call_sources[nm]

            def source(*a, **k):
                return rt.make_source(rules, rt.caller_site(2))
            return source

        def mk_call_sink(nm):
            rules = rt.call_sinks[nm]

            def sink(*args, **kwargs):
                rt.record_sink(rt.caller_site(2), rules, args, None, None)
                return None
            return sink
        for nm in self.call_sources:
            if nm.isidentifier():
                b[nm] = mk_call_source(nm)
            else:
                self.unsupported.append("call source name %r" % nm)
        for nm in self.call_sinks:
            if nm.isidentifier():
                if nm in self.call_sources:
                    self.unsupported.append("name %r is both a call source and a call sink" % nm)
                b[nm] = mk_call_sink(nm)
            else:
                self.unsupported.append("call sink name %r" % nm)
        ext_names = set()
        for full in list(self.method_sources) + list(self.field_sources) + list(self.method_sinks) + list(self.fieldw_sinks):
            recv = full.rsplit(".", 1)[0]
            if recv.isidentifier():
                ext_names.add(recv)
        for nm in sorted(ext_names):
            # a receiver that the program defines itself (a variable holding a Taint) is not injected:
            # the program's own binding shadows the builtin anyway
            b[nm] = _Ext(self, nm)
        self.builtins = b
        err = None
        old = sys.gettrace()
        sys.settrace(self._tracer)
        try:
            self._load(self.main[:-3])
        except BudgetExceeded:
            err = "budget"
        except RecursionError:
            err = "recursion"
        except Exception as e:      # the generated program raised: the case is discarded by the caller
            err = "%s: %s" % (type(e).__name__, e)
        finally:
            sys.settrace(old)
        pairs = set()
        for sf, sl, pos, ids in self.hits:
            for (f, l) in ids:
                pairs.add((f, l, sf, sl))
        return {"pairs": pairs, "error": err, "lines": self.lines_run, "sinks_run": set(self.sink_sites_run)}


def ground_truth(case):
    """case: dict(files, rules={source:[...], sink:[...]}, param_sites=[[file, line], ...]).  -> Runtime.run() result."""
    rt = Runtime(case["files"], case["rules"]["source"], case["rules"]["sink"],
                 param_sites=[tuple(x) for x in case.get("param_sites", [])], main=case.get("main", "a.py"))
    res = rt.run()
    res["unsupported"] = rt.unsupported
    return res
