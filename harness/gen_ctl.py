"""Control-structure shapes and their renderers in seven languages (C04, C06).

A shape is a tuple-tree:
  ("s",)                      simple statement  x = <fresh constant>
  ("if", then, else|None)     then/else are blocks (tuples of shapes); else None = no else arm
  ("wh", body, else|None)     while (else arm: Python only)
  ("fi", body)                for-in / for-of / range / foreach over a list parameter
  ("fc", body)                C-style counted for
  ("dw", body)                do-while
  ("br",) ("co",) ("rt",)     break / continue / return
  ("sw", (case bodies...), default|None)    switch / match
  ("def",)                    nested function declaration
Blocks are non-empty tuples except where a language allows an empty body (class 'empty_body').
"""
import itertools

from hypothesis import strategies as st

LANG_CONSTRUCTS = {
    "python": {"tryjump", "s", "if", "wh", "fi", "br", "co", "rt", "sw", "def", "whelse", "try", "tryelse"},
    "javascript": {"tryjump", "try", "swbreak", "s", "if", "wh", "fi", "fc", "dw", "br", "co", "rt", "sw", "def", "empty"},
    "typescript": {"tryjump", "try", "swbreak", "s", "if", "wh", "fi", "fc", "dw", "br", "co", "rt", "sw", "empty"},
    "java": {"tryjump", "try", "swbreak", "s", "if", "wh", "fi", "fc", "dw", "br", "co", "rt", "sw", "empty"},
    "c": {"swbreak", "s", "if", "wh", "fc", "dw", "br", "co", "rt", "sw", "empty"},
    "go": {"swbreak", "s", "if", "wh", "fi", "fc", "br", "co", "rt", "sw", "empty"},
    "php": {"tryjump", "try", "swbreak", "s", "if", "wh", "fi", "fc", "dw", "br", "co", "rt", "sw", "empty"},
}
LANG_EXT = {"python": "py", "javascript": "js", "typescript": "ts", "java": "java", "c": "c", "go": "go", "php": "php"}
LOOP_KINDS = ("wh", "fi", "fc", "dw")


def constructs_of(shape_block, acc=None):
    acc = set() if acc is None else acc
    for s in shape_block:
        k = s[0]
        acc.add(k)
        if k == "if":
            if not s[1]:
                acc.add("empty")
            constructs_of(s[1], acc)
            if s[2] is not None:
                constructs_of(s[2], acc)
        elif k == "wh":
            if not s[1]:
                acc.add("empty")
            constructs_of(s[1], acc)
            if s[2] is not None:
                acc.add("whelse")
                constructs_of(s[2], acc)
        elif k in ("fi", "fc", "dw"):
            if not s[1]:
                acc.add("empty")
            constructs_of(s[1], acc)
        elif k == "sw":
            for b in s[1]:
                constructs_of(b, acc)
            if s[2] is not None:
                constructs_of(s[2], acc)
        elif k == "try":
            # ("try", body, handler|None, else|None, final|None, raises)
            for b in s[1:5]:
                if b is not None:
                    constructs_of(b, acc)
            if s[3] is not None:
                acc.add("tryelse")
            if s[5]:
                acc.add("raise")
    return acc


def has_jump(block):
    return bool(constructs_of(block) & {"br", "co", "rt", "raise"})


def size_of(block):
    n = 0
    for s in block:
        n += 1
        k = s[0]
        if k == "if":
            n += size_of(s[1]) + (size_of(s[2]) if s[2] is not None else 0)
        elif k == "wh":
            n += size_of(s[1]) + (size_of(s[2]) if s[2] is not None else 0)
        elif k in ("fi", "fc", "dw"):
            n += size_of(s[1])
        elif k == "sw":
            n += sum(size_of(b) for b in s[1]) + (size_of(s[2]) if s[2] is not None else 0)
        elif k == "try":
            n += sum(size_of(b) for b in s[1:5] if b is not None) + (1 if s[5] else 0)
    return n


# ---------------------------------------------------------------------------------------------
# exhaustive enumeration

def enum_blocks(n, depth, in_loop, in_switch, kinds, allow_empty=False):
    """All blocks with exactly n nodes, nesting depth <= depth."""
    if n == 0:
        if allow_empty:
            yield ()
        return
    for first_size in range(1, n + 1):
        for first in enum_stmts(first_size, depth, in_loop, in_switch, kinds):
            if first_size == n:
                yield (first,)
            else:
                if first[0] in ("br", "co", "rt"):
                    continue          # statements after an unconditional jump are dead code
                for rest in enum_blocks(n - first_size, depth, in_loop, in_switch, kinds):
                    yield (first,) + rest


def enum_stmts(n, depth, in_loop, in_switch, kinds):
    if n == 1:
        if "s" in kinds:
            yield ("s",)
        if "rt" in kinds:
            yield ("rt",)
        if in_loop or (in_switch and "swbreak" in kinds):
            if "br" in kinds:
                yield ("br",)
        if in_loop and "co" in kinds:
            yield ("co",)
        if "def" in kinds:
            yield ("def",)
        return
    if depth <= 0:
        return
    m = n - 1
    if "if" in kinds:
        for b in enum_blocks(m, depth - 1, in_loop, in_switch, kinds):
            yield ("if", b, None)
        for k in range(1, m):
            for a in enum_blocks(k, depth - 1, in_loop, in_switch, kinds):
                for b in enum_blocks(m - k, depth - 1, in_loop, in_switch, kinds):
                    yield ("if", a, b)
    for lk in LOOP_KINDS:
        if lk not in kinds:
            continue
        for b in enum_blocks(m, depth - 1, True, False, kinds):
            if lk == "wh":
                yield ("wh", b, None)
            else:
                yield (lk, b)
    if "whelse" in kinds and "wh" in kinds:
        for k in range(1, m):
            for a in enum_blocks(k, depth - 1, True, False, kinds):
                for b in enum_blocks(m - k, depth - 1, in_loop, in_switch, kinds):
                    yield ("wh", a, b)
    if "try" in kinds and m >= 2:
        # try body / handler (+ finally), with and without a raise at the end of the body
        for k in range(1, m):
            for a in enum_blocks(k, depth - 1, in_loop, in_switch, kinds):
                for h in enum_blocks(m - k, depth - 1, in_loop, in_switch, kinds):
                    yield ("try", a, h, None, None, False)
                    if a[-1][0] not in ("br", "co", "rt"):
                        yield ("try", a, h, None, None, True)
        if m >= 3:
            inner = kinds if "tryjump" in kinds else kinds - {"br", "co", "rt"}
            for k in range(1, m - 1):
                for a in enum_blocks(k, depth - 1, in_loop, in_switch, inner):
                    for f in enum_blocks(m - k - 1, depth - 1, in_loop, in_switch, kinds - {"br", "co", "rt"}):
                        yield ("try", a, (("s",),), None, f, "tryjump" in kinds and a[-1][0] not in ("br", "co", "rt"))
                        yield ("try", a, None, None, f, False)
    if "sw" in kinds and m >= 2:
        # two cases, optional default
        for k in range(1, m):
            for a in enum_blocks(k, depth - 1, in_loop, True, kinds):
                for b in enum_blocks(m - k, depth - 1, in_loop, True, kinds):
                    yield ("sw", (a, b), None)
        if m >= 3:
            for k1 in range(1, m - 1):
                for k2 in range(1, m - k1):
                    for a in enum_blocks(k1, depth - 1, in_loop, True, kinds):
                        for b in enum_blocks(k2, depth - 1, in_loop, True, kinds):
                            for d in enum_blocks(m - k1 - k2, depth - 1, in_loop, True, kinds):
                                yield ("sw", (a, b), d)


def all_shapes(max_nodes, depth, kinds):
    for n in range(1, max_nodes + 1):
        for b in enum_blocks(n, depth, False, False, kinds):
            yield b


# ---------------------------------------------------------------------------------------------
# sampling

def shapes(kinds, max_nodes=9, depth=3):
    kinds = set(kinds)

    @st.composite
    def block(draw, budget, d, in_loop, in_switch):
        out = []
        n = draw(st.integers(1, max(1, min(4, budget))))
        for i in range(n):
            if budget <= 0:
                break
            opts = ["s", "s"]
            if "rt" in kinds:
                opts.append("rt")
            if (in_loop or (in_switch and "swbreak" in kinds)) and "br" in kinds:
                opts += ["br", "br"]
            if in_loop and "co" in kinds:
                opts += ["co", "co"]
            if d > 0 and budget >= 2:
                for k in ("if", "if", "if", "wh", "fi", "fc", "dw", "sw", "try"):
                    if k in kinds:
                        opts.append(k)
            k = opts[draw(st.integers(0, len(opts) - 1))]
            budget -= 1
            if k in ("s", "rt", "br", "co"):
                out.append((k,))
                if k != "s":
                    break
                continue
            if k == "if":
                a = draw(block(budget // 2 + 1, d - 1, in_loop, in_switch))
                budget -= size_of(a)
                b = None
                if draw(st.booleans()) and budget > 0:
                    b = draw(block(budget // 2 + 1, d - 1, in_loop, in_switch))
                    budget -= size_of(b)
                out.append(("if", a, b))
            elif k == "wh":
                a = draw(block(budget // 2 + 1, d - 1, True, False))
                budget -= size_of(a)
                b = None
                if "whelse" in kinds and draw(st.integers(0, 3)) == 0 and budget > 0:
                    b = draw(block(2, d - 1, in_loop, in_switch))
                    budget -= size_of(b)
                out.append(("wh", a, b))
            elif k in ("fi", "fc", "dw"):
                a = draw(block(budget // 2 + 1, d - 1, True, False))
                budget -= size_of(a)
                out.append((k, a))
            elif k == "sw":
                a = draw(block(2, d - 1, in_loop, True))
                b = draw(block(2, d - 1, in_loop, True))
                dflt = draw(block(2, d - 1, in_loop, True)) if draw(st.booleans()) else None
                budget -= size_of(a) + size_of(b) + (size_of(dflt) if dflt else 0)
                out.append(("sw", (a, b), dflt))
            elif k == "try":
                a = draw(block(3, d - 1, in_loop, in_switch))
                h = draw(block(2, d - 1, in_loop, in_switch)) if draw(st.integers(0, 3)) > 0 else None
                f = draw(block(2, d - 1, False, False)) if (h is None or draw(st.booleans())) else None
                if f is not None:
                    f = tuple(x for x in f if x[0] not in ("br", "co", "rt")) or (("s",),)
                e = None
                if "tryelse" in kinds and h is not None and draw(st.integers(0, 3)) == 0:
                    e = draw(block(2, d - 1, in_loop, in_switch))
                raises = a[-1][0] not in ("br", "co", "rt") and draw(st.booleans())
                if f is not None and "tryjump" not in kinds:
                    # step-over: no jump may leave a try statement that has a finally body
                    if has_jump(a) or (h is not None and has_jump(h)) or (e is not None and has_jump(e)):
                        f = None
                    raises = False
                if h is None and f is None:
                    h = (("s",),)
                budget -= sum(size_of(x) for x in (a, h, e, f) if x is not None)
                out.append(("try", a, h, e, f, raises))
        return tuple(out)
    return block(max_nodes, depth, False, False)


# ---------------------------------------------------------------------------------------------
# rendering

class R:
    """Per-language syntax table."""

    def __init__(self, lang):
        self.lang = lang
        self.py = lang == "python"
        self.go = lang == "go"
        self.php = lang == "php"
        self.v = "$" if self.php else ""
        self.semi = "" if (self.py or self.go) else ";"


def render_methods(lang, blocks, extra_params=""):
    """-> source text of one file holding one method per block, named m0, m1, ..."""
    r = R(lang)
    out = []
    counter = [0]
    if lang == "python":
        for i, b in enumerate(blocks):
            out.append("def m%d(%s):" % (i, "" if i % 3 == 2 else "c0, c1, c2, n, lst" + extra_params))
            out += render_block(r, b, 1, counter, [i % 2])
    elif lang in ("javascript", "typescript"):
        ty = lang == "typescript"
        out.append("var x = 0;")
        for i, b in enumerate(blocks):
            if ty:
                out.append("function m%d(%s): number {" % (i, "" if i % 3 == 2 else "c0: boolean, c1: boolean, c2: boolean, n: number, lst: number[]"))
            else:
                out.append("function m%d(%s) {" % (i, "" if i % 3 == 2 else "c0, c1, c2, n, lst"))
            out += render_block(r, b, 1, counter, [i % 2])
            out.append("}")
    elif lang == "java":
        out.append("class A {")
        out.append("    static int x;")
        for i, b in enumerate(blocks):
            out.append("    static int m%d(%s) {" % (i, "" if i % 3 == 2 else "boolean c0, boolean c1, boolean c2, int n, int[] lst"))
            out += render_block(r, b, 2, counter, [i % 2])
            out.append("    }")
        out.append("}")
    elif lang == "c":
        out.append("int x;")
        for i, b in enumerate(blocks):
            out.append("int m%d(%s) {" % (i, "" if i % 3 == 2 else "int c0, int c1, int c2, int n, int* lst"))
            out += render_block(r, b, 1, counter, [i % 2])
            out.append("}")
    elif lang == "go":
        out.append("package main")
        out.append("var x int")
        for i, b in enumerate(blocks):
            out.append("func m%d(%s) int {" % (i, "" if i % 3 == 2 else "c0 bool, c1 bool, c2 bool, n int, lst []int"))
            out += render_block(r, b, 1, counter, [i % 2])
            out.append("}")
    elif lang == "php":
        out.append("<?php")
        for i, b in enumerate(blocks):
            out.append("function m%d(%s) {" % (i, "" if i % 3 == 2 else "$c0, $c1, $c2, $n, $lst"))
            out += render_block(r, b, 1, counter, [i % 2])
            out.append("}")
    else:
        raise ValueError(lang)
    return "\n".join(out) + "\n"


def render_block(r, block, level, counter, cond):
    ind = "    " * level
    out = []
    if not block:
        if r.py:
            out.append(ind + "pass")
        return out
    for s in block:
        k = s[0]
        if k == "s" and len(s) == 3:
            # payload: ("s", "def"|"use", var)
            counter[0] += 1
            if s[1] == "def":
                out.append("%s%s%s = %d%s" % (ind, r.v, s[2], counter[0], r.semi))
            elif s[1] == "upd":
                out.append("%s%s%s = %s%s + %d%s" % (ind, r.v, s[2], r.v, s[2], counter[0], r.semi))
            else:
                out.append("%s%st%d = %s%s%s" % (ind, r.v, counter[0], r.v, s[2], r.semi))
        elif k == "s":
            counter[0] += 1
            out.append("%s%sx = %d%s" % (ind, r.v, counter[0], r.semi))
        elif k == "rt":
            out.append("%sreturn %sx%s" % (ind, r.v, r.semi))
        elif k == "br":
            out.append("%sbreak%s" % (ind, r.semi))
        elif k == "co":
            out.append("%scontinue%s" % (ind, r.semi))
        elif k == "def":
            counter[0] += 1
            if r.py:
                out.append("%sdef inner%d(q):" % (ind, counter[0]))
                out.append("%s    return q" % ind)
            else:
                out.append("%sfunction inner%d(q) { return q; }" % (ind, counter[0]))
        elif k == "if":
            c = "%sc%d" % (r.v, cond[0] % 3)
            cond[0] += 1
            if r.py:
                out.append("%sif %s:" % (ind, c))
                out += render_block(r, s[1], level + 1, counter, cond)
                if s[2] is not None:
                    out.append("%selse:" % ind)
                    out += render_block(r, s[2], level + 1, counter, cond)
            else:
                out.append("%sif %s {" % (ind, c if r.go else "(" + c + ")"))
                out += render_block(r, s[1], level + 1, counter, cond)
                if s[2] is not None:
                    out.append("%s} else {" % ind)
                    out += render_block(r, s[2], level + 1, counter, cond)
                out.append("%s}" % ind)
        elif k == "wh":
            c = "%sc%d" % (r.v, cond[0] % 3)
            if cond[0] % 2 == 0:
                c = ("%s and %sn > %d" if r.py else "%s && %sn > %d") % (c, r.v, cond[0])
            cond[0] += 1
            if r.py:
                out.append("%swhile %s:" % (ind, c))
                out += render_block(r, s[1], level + 1, counter, cond)
                if s[2] is not None:
                    out.append("%selse:" % ind)
                    out += render_block(r, s[2], level + 1, counter, cond)
            elif r.go:
                out.append("%sfor %s {" % (ind, c))
                out += render_block(r, s[1], level + 1, counter, cond)
                out.append("%s}" % ind)
            else:
                out.append("%swhile (%s) {" % (ind, c))
                out += render_block(r, s[1], level + 1, counter, cond)
                out.append("%s}" % ind)
        elif k == "fi":
            counter[0] += 1
            e = "e%d" % counter[0]
            if r.py:
                out.append("%sfor %s in lst:" % (ind, e))
            elif r.lang in ("javascript", "typescript"):
                out.append("%sfor (const %s of lst) {" % (ind, e))
            elif r.lang == "java":
                out.append("%sfor (int %s : lst) {" % (ind, e))
            elif r.go:
                out.append("%sfor _, %s := range lst {" % (ind, e))
            elif r.php:
                out.append("%sforeach ($lst as $%s) {" % (ind, e))
            out += render_block(r, s[1], level + 1, counter, cond)
            if not r.py:
                out.append("%s}" % ind)
        elif k == "fc":
            counter[0] += 1
            i = "i%d" % counter[0]
            if r.lang in ("javascript", "typescript"):
                out.append("%sfor (let %s = 0; %s < n; %s++) {" % (ind, i, i, i))
            elif r.lang in ("java", "c"):
                out.append("%sfor (int %s = 0; %s < n; %s++) {" % (ind, i, i, i))
            elif r.go:
                out.append("%sfor %s := 0; %s < n; %s++ {" % (ind, i, i, i))
            elif r.php:
                out.append("%sfor ($%s = 0; $%s < $n; $%s++) {" % (ind, i, i, i))
            out += render_block(r, s[1], level + 1, counter, cond)
            out.append("%s}" % ind)
        elif k == "dw":
            c = "%sc%d" % (r.v, cond[0] % 3)
            if cond[0] % 2 == 0:
                c = "%s && %sn > %d" % (c, r.v, cond[0])
            cond[0] += 1
            out.append("%sdo {" % ind)
            out += render_block(r, s[1], level + 1, counter, cond)
            out.append("%s} while (%s);" % (ind, c))
        elif k == "sw":
            if r.py:
                out.append("%smatch n:" % ind)
                for j, b in enumerate(s[1]):
                    out.append("%s    case %d:" % (ind, j + 1))
                    out += render_block(r, b, level + 2, counter, cond)
                if s[2] is not None:
                    out.append("%s    case _:" % ind)
                    out += render_block(r, s[2], level + 2, counter, cond)
            else:
                out.append("%sswitch %s {" % (ind, "n" if r.go else "(%sn)" % r.v))
                for j, b in enumerate(s[1]):
                    out.append("%scase %d:" % (ind, j + 1))
                    out += render_block(r, b, level + 1, counter, cond)
                if s[2] is not None:
                    out.append("%sdefault:" % ind)
                    out += render_block(r, s[2], level + 1, counter, cond)
                out.append("%s}" % ind)
        elif k == "try":
            body, handler, els, final, raises = s[1], s[2], s[3], s[4], s[5]
            if r.py:
                out.append("%stry:" % ind)
                out += render_block(r, body, level + 1, counter, cond)
                if raises:
                    out.append("%s    raise ValueError()" % ind)
                if handler is not None:
                    out.append("%sexcept Exception:" % ind)
                    out += render_block(r, handler, level + 1, counter, cond)
                if els is not None:
                    out.append("%selse:" % ind)
                    out += render_block(r, els, level + 1, counter, cond)
                if final is not None:
                    out.append("%sfinally:" % ind)
                    out += render_block(r, final, level + 1, counter, cond)
            else:
                out.append("%stry {" % ind)
                out += render_block(r, body, level + 1, counter, cond)
                if raises:
                    out.append("%s    throw new Exception(%s);" % (ind, '"e"'))
                if handler is not None:
                    catch = {"java": "catch (Exception ex) {", "php": "catch (Exception $ex) {"}.get(r.lang, "catch (ex) {")
                    out.append("%s} %s" % (ind, catch))
                    out += render_block(r, handler, level + 1, counter, cond)
                if final is not None:
                    out.append("%s} finally {" % ind)
                    out += render_block(r, final, level + 1, counter, cond)
                out.append("%s}" % ind)
        else:
            raise ValueError(k)
    return out


def with_payloads(block, choose):
    """Replace every simple statement of a shape by ("s", kind, var) using choose() -> (kind, var)."""
    out = []
    for s in block:
        k = s[0]
        if k == "s":
            kind, var = choose()
            out.append(("s", kind, var))
        elif k == "if":
            out.append(("if", with_payloads(s[1], choose), with_payloads(s[2], choose) if s[2] is not None else None))
        elif k == "wh":
            out.append(("wh", with_payloads(s[1], choose), with_payloads(s[2], choose) if s[2] is not None else None))
        elif k in ("fi", "fc", "dw"):
            out.append((k, with_payloads(s[1], choose)))
        elif k == "sw":
            out.append(("sw", tuple(with_payloads(b, choose) for b in s[1]), with_payloads(s[2], choose) if s[2] is not None else None))
        else:
            out.append(s)
    return tuple(out)
