"""Hypothesis grammar for Python programs (DESIGN.md 2.1), 'semantic' profile used by C01 (and re-used by
other checks).  Programs are built by construction from a typed environment so that they are valid,
terminate (loops carry a fresh bounded counter that is incremented first) and rarely raise.

One simple statement per line.  Every program carries a set of labels; at most one *risky* feature
class (constructs for which a lowering defect is already known or suspected) is allowed per program so
that a failure can be attributed to a root-cause class without shrinking (see props/c01.py).
"""
from hypothesis import strategies as st

INT = ("int",)
BOOL = ("bool",)
STR = ("str",)


def LIST(t):
    return ("list", t)


def TUP(a, b):
    return ("tuple", a, b)


def DICT(t):
    return ("dict", t)


def OBJ(k):
    return ("obj", k)


RISKY = ["continue_in_while", "chained_comparison", "effectful_short_circuit", "nested_tuple_pattern",
         "quote_in_string", "list_augassign", "while_else", "for_else", "global_stmt", "nonlocal_stmt",
         "lambda", "default_refers_to_variable", "negative_index", "string_index", "swap_assignment",
         "method_value", "recursion", "multi_target_assign", "augassign_subscript", "augassign_field",
         "dict_iteration"]

SAFE_CHARS = "abcxyz012 _-"
QUOTE_STRINGS = ['a"b', "it's", 'say "hi"', "x'y\"z", '"', "'", '"x"', '%s', '{}', "a'", '""']


class Ctx:
    def __init__(self, draw, risky, size):
        self.draw = draw
        self.risky = risky                 # the single risky class allowed in this program (or None)
        self.labels = set()
        self.counter = 0
        self.size = size
        self.funcs = []                    # dicts: name, params[(name,type,default_text|None,kwonly)], ret
        self.classes = []                  # dicts: name, fields{name:type}, init_params, methods[...]
        self.globals = {}                  # name -> type (module-level variables assigned before functions)
        self.budget = size

    def fresh(self, prefix):
        self.counter += 1
        return "%s%d" % (prefix, self.counter)

    def allow(self, label):
        return self.risky == label

    def use(self, label):
        self.labels.add(label)

    def choice(self, n):
        return self.draw(st.integers(0, n - 1))

    def pick(self, seq):
        return seq[self.draw(st.integers(0, len(seq) - 1))]

    def coin(self, num=1, den=2):
        return self.draw(st.integers(0, den - 1)) < num


class Scope:
    """Definitely-assigned variables of the current function (name -> type) + loop/function context."""

    def __init__(self, vars=None, in_loop=False, in_func=None, ret=None, globals_ro=None, depth=0, this_cls=None):
        self.vars = dict(vars or {})
        self.in_loop = in_loop
        self.in_func = in_func
        self.ret = ret
        self.globals_ro = dict(globals_ro or {})   # readable globals (not assignable without 'global')
        self.depth = depth
        self.this_cls = this_cls
        self.lens = {}                              # list/tuple var -> guaranteed minimum length

    def child(self, in_loop=None):
        s = Scope(self.vars, self.in_loop if in_loop is None else in_loop, self.in_func, self.ret, self.globals_ro,
                  self.depth + 1, self.this_cls)
        s.lens = dict(self.lens)
        return s

    def readable(self, t):
        out = [n for n, ty in self.vars.items() if ty == t]
        out += [n for n, ty in self.globals_ro.items() if ty == t and n not in self.vars]
        return out

    def readable_where(self, pred):
        out = [(n, ty) for n, ty in self.vars.items() if pred(ty)]
        out += [(n, ty) for n, ty in self.globals_ro.items() if pred(ty) and n not in self.vars]
        return out


# ---------------------------------------------------------------------------------------------
# expressions

def gen_int_literal(c):
    return str(c.draw(st.integers(0, 9)))


def gen_str_literal(c):
    if c.allow("quote_in_string") and c.coin(1, 2):
        c.use("quote_in_string")
        s = c.pick(QUOTE_STRINGS)
        return repr(s)
    n = c.draw(st.integers(0, 4))
    s = "".join(c.pick(SAFE_CHARS) for _ in range(n))
    return '"%s"' % s


def gen_expr(c, sc, t, depth=0, pure=False):
    """Return source text of an expression of type t.  pure=True: no calls (no side effects)."""
    k = t[0]
    c.budget -= 1
    leafy = depth >= 3 or c.budget <= 0
    if k == "int":
        return gen_int(c, sc, depth, pure, leafy)
    if k == "bool":
        return gen_bool(c, sc, depth, pure, leafy)
    if k == "str":
        return gen_str(c, sc, depth, pure, leafy)
    if k == "list":
        return gen_list(c, sc, t, depth, pure, leafy)
    if k == "tuple":
        return gen_tuple(c, sc, t, depth, pure, leafy)
    if k == "dict":
        return gen_dict(c, sc, t, depth, pure, leafy)
    if k == "obj":
        return gen_obj(c, sc, t, depth, pure, leafy)
    raise AssertionError(t)


def paren(s):
    return "(" + s + ")"


def call_candidates(c, sc, t):
    out = []
    for f in c.funcs:
        if f["ret"] == t and f["name"] != sc.in_func:
            out.append(("func", f))
    for n, ty in sc.readable_where(lambda ty: ty[0] == "obj"):
        cls = c.classes[ty[1]]
        for m in cls["methods"]:
            if m["ret"] == t and not (sc.this_cls == ty[1] and sc.in_func == m["name"]):
                out.append(("method", n, m))
    return out


def gen_args(c, sc, params, depth):
    """Argument list text for a parameter list [(name,type,default,kwonly)]."""
    parts = []
    named_mode = False
    order = list(params)
    for (name, ty, default, kwonly) in order:
        if default is not None and c.coin(1, 2):
            if not kwonly:
                named_mode = True      # later positional params must be passed by keyword
            continue
        e = gen_expr(c, sc, ty, depth + 1)
        if kwonly or named_mode or c.coin(1, 4):
            named_mode = True
            parts.append((name, e))
            c.use("keyword_argument")
        else:
            parts.append((None, e))
    # keyword arguments may be written in any order
    pos = [e for n, e in parts if n is None]
    kws = ["%s=%s" % (n, e) for n, e in parts if n is not None]
    if len(kws) >= 2 and c.coin(1, 2):
        kws = list(reversed(kws))
        c.use("keyword_arguments_reordered")
    return ", ".join(pos + kws)


def gen_call(c, sc, cand, depth):
    if cand[0] == "func":
        f = cand[1]
        c.use("user_function_call")
        if any(p[2] is not None for p in f["params"]):
            c.use("call_with_defaults")
        return "%s(%s)" % (f["name"], gen_args(c, sc, f["params"], depth))
    _, recv, m = cand
    c.use("method_call")
    return "%s.%s(%s)" % (recv, m["name"], gen_args(c, sc, m["params"], depth))


def gen_int(c, sc, depth, pure, leafy):
    vars_ = sc.readable(INT)
    if leafy:
        if vars_ and c.coin(2, 3):
            return c.pick(vars_)
        return gen_int_literal(c)
    r = c.choice(14)
    if r <= 1:
        return gen_int_literal(c)
    if r <= 4 and vars_:
        return c.pick(vars_)
    if r <= 7:
        op = c.pick(["+", "-", "*", "+", "-"])
        a = gen_expr(c, sc, INT, depth + 1, pure)
        b = gen_expr(c, sc, INT, depth + 1, pure)
        c.use("arith")
        return paren("%s %s %s" % (a, op, b))
    if r == 8:
        op = c.pick(["//", "%"])
        a = gen_expr(c, sc, INT, depth + 1, pure)
        c.use("intdiv")
        return paren("%s %s %s" % (a, op, c.draw(st.integers(1, 5))))
    if r == 9:
        c.use("unary_minus")
        return paren("-" + gen_expr(c, sc, INT, depth + 1, pure))
    if r == 10:
        c.use("conditional_expression")
        return paren("%s if %s else %s" % (gen_expr(c, sc, INT, depth + 1, pure), gen_expr(c, sc, BOOL, depth + 1, pure),
                                            gen_expr(c, sc, INT, depth + 1, pure)))
    if r == 11 and not pure:
        if sc.this_cls is not None and c.coin(1, 2):
            # the receiver passed on as an ordinary argument
            c.use("self_as_argument")
            return "h%s(self, %s)" % (c.classes[sc.this_cls]["name"], gen_expr(c, sc, INT, depth + 1, pure))
        cands = call_candidates(c, sc, INT)
        if cands:
            return gen_call(c, sc, c.pick(cands), depth)
    if r == 12:
        # element / field / dict reads
        opts = []
        for n, ty in sc.readable_where(lambda ty: ty == LIST(INT)):
            opts.append("%s[%d]" % (n, c.draw(st.integers(0, max(0, sc.lens.get(n, 1) - 1)))))
        for n, ty in sc.readable_where(lambda ty: ty[0] == "tuple"):
            for i in (0, 1):
                if ty[1 + i] == INT:
                    opts.append("%s[%d]" % (n, i))
        for n, ty in sc.readable_where(lambda ty: ty == DICT(INT)):
            opts.append('%s["a"]' % n)
            opts.append('%s["b"]' % n)
        for n, ty in sc.readable_where(lambda ty: ty[0] == "obj"):
            for fn, fty in c.classes[ty[1]]["fields"].items():
                if fty == INT:
                    opts.append("%s.%s" % (n, fn))
        if sc.this_cls is not None:
            for fn, fty in c.classes[sc.this_cls]["fields"].items():
                if fty == INT and fn in sc.vars.get("%selffields", ()):
                    opts.append("self.%s" % fn)
        if opts:
            c.use("element_or_field_read")
            return c.pick(opts)
    if vars_:
        return c.pick(vars_)
    return gen_int_literal(c)


def gen_bool(c, sc, depth, pure, leafy):
    vars_ = sc.readable(BOOL)
    if leafy:
        if vars_ and c.coin(1, 2):
            return c.pick(vars_)
        a = gen_expr(c, sc, INT, 9, True)
        b = gen_expr(c, sc, INT, 9, True)
        return paren("%s %s %s" % (a, c.pick(["<", "<=", ">", ">=", "==", "!="]), b))
    r = c.choice(12)
    if c.allow("chained_comparison") and c.coin(1, 2):
        r = 10
    if c.allow("effectful_short_circuit") and not pure and c.coin(1, 2):
        c.use("effectful_short_circuit")
        c.use("boolean_operator")
        return paren("%s %s eff(%s)" % (gen_expr(c, sc, BOOL, depth + 1, True), c.pick(["and", "or"]), gen_expr(c, sc, INT, depth + 1, True)))
    if r <= 4:
        a = gen_expr(c, sc, INT, depth + 1, pure)
        b = gen_expr(c, sc, INT, depth + 1, pure)
        c.use("comparison")
        return paren("%s %s %s" % (a, c.pick(["<", "<=", ">", ">=", "==", "!="]), b))
    if r == 5:
        c.use("not")
        return paren("not " + gen_expr(c, sc, BOOL, depth + 1, pure))
    if r <= 7:
        op = c.pick(["and", "or"])
        a = gen_expr(c, sc, BOOL, depth + 1, pure)
        b = gen_expr(c, sc, BOOL, depth + 1, True)
        c.use("boolean_operator")
        return paren("%s %s %s" % (a, op, b))
    if r == 8:
        a = gen_expr(c, sc, STR, depth + 1, pure)
        b = gen_expr(c, sc, STR, depth + 1, pure)
        return paren("%s %s %s" % (a, c.pick(["==", "!="]), b))
    if r == 9:
        ls = sc.readable(LIST(INT))
        if ls:
            c.use("in_operator")
            return paren("%s in %s" % (gen_expr(c, sc, INT, depth + 1, pure), c.pick(ls)))
    if r == 10 and c.allow("chained_comparison"):
        c.use("chained_comparison")
        # operands are pure: like and/or, the links of a chain are lowered eagerly (see effectful_short_circuit)
        a, b, d = (gen_expr(c, sc, INT, depth + 2, True) for _ in range(3))
        return paren("%s %s %s %s %s" % (a, c.pick(["<", "<=", ">", "=="]), b, c.pick(["<", "<=", ">", "!="]), d))
    if r == 11:
        return c.pick(["True", "False"])
    if vars_:
        return c.pick(vars_)
    return c.pick(["True", "False"])


def gen_str(c, sc, depth, pure, leafy):
    vars_ = sc.readable(STR)
    if leafy or c.coin(1, 2):
        if vars_ and c.coin(1, 2):
            return c.pick(vars_)
        return gen_str_literal(c)
    r = c.choice(4)
    if r <= 1:
        c.use("str_concat")
        return paren("%s + %s" % (gen_expr(c, sc, STR, depth + 1, pure), gen_expr(c, sc, STR, depth + 1, pure)))
    if r == 2 and not pure:
        cands = call_candidates(c, sc, STR)
        if cands:
            return gen_call(c, sc, c.pick(cands), depth)
    if r == 3:
        c.use("conditional_expression")
        return paren("%s if %s else %s" % (gen_expr(c, sc, STR, depth + 1, pure), gen_expr(c, sc, BOOL, depth + 1, pure),
                                            gen_expr(c, sc, STR, depth + 1, pure)))
    if vars_:
        return c.pick(vars_)
    return gen_str_literal(c)


def gen_list(c, sc, t, depth, pure, leafy):
    vars_ = sc.readable(t)
    r = c.choice(6)
    if vars_ and r <= 1:
        return c.pick(vars_)
    if r == 2 and vars_ and not leafy:
        n = c.pick(vars_)
        c.use("slice")
        lo = c.pick(["", "0", "1"])
        hi = c.pick(["", "1", "2", "3"])
        return "%s[%s:%s]" % (n, lo, hi)
    if r == 3 and not leafy:
        c.use("list_concat")
        return paren("%s + %s" % (gen_expr(c, sc, t, depth + 1, pure), gen_expr(c, sc, t, depth + 1, pure)))
    if r == 4 and not pure and not leafy:
        cands = call_candidates(c, sc, t)
        if cands:
            return gen_call(c, sc, c.pick(cands), depth)
    n = c.draw(st.integers(2, 3))
    c.use("list_literal")
    return "[" + ", ".join(gen_expr(c, sc, t[1], depth + 1, pure) for _ in range(n)) + "]"


def gen_tuple(c, sc, t, depth, pure, leafy):
    vars_ = sc.readable(t)
    if vars_ and c.coin(1, 3):
        return c.pick(vars_)
    if not pure and not leafy and c.coin(1, 4):
        cands = call_candidates(c, sc, t)
        if cands:
            return gen_call(c, sc, c.pick(cands), depth)
    c.use("tuple_literal")
    return "(%s, %s)" % (gen_expr(c, sc, t[1], depth + 1, pure), gen_expr(c, sc, t[2], depth + 1, pure))


def gen_dict(c, sc, t, depth, pure, leafy):
    vars_ = sc.readable(t)
    if vars_ and c.coin(1, 2):
        return c.pick(vars_)
    c.use("dict_literal")
    return '{"a": %s, "b": %s}' % (gen_expr(c, sc, t[1], depth + 1, pure), gen_expr(c, sc, t[1], depth + 1, pure))


def gen_obj(c, sc, t, depth, pure, leafy):
    vars_ = sc.readable(t)
    if vars_ and (pure or c.coin(2, 3)):
        return c.pick(vars_)
    cls = c.classes[t[1]]
    if pure and not vars_:
        # cannot build an object without a call; fall back on a constructor anyway (constructor bodies only
        # assign fields, so this stays free of observable effects)
        pass
    c.use("constructor_call")
    return "%s(%s)" % (cls["name"], gen_args(c, sc, cls["init_params"], depth))


# ---------------------------------------------------------------------------------------------
# statements

SCALARS = [INT, INT, INT, BOOL, STR]


def pick_type(c, allow_obj=True):
    r = c.choice(12)
    if r <= 4:
        return INT
    if r == 5:
        return BOOL
    if r == 6:
        return STR
    if r == 7:
        return LIST(INT)
    if r == 8:
        return TUP(INT, c.pick([INT, STR]))
    if r == 9:
        return DICT(INT)
    if r == 10 and allow_obj and c.classes:
        return OBJ(c.choice(len(c.classes)))
    if r == 11:
        return LIST(STR)
    return INT


def gen_block(c, sc, n_stmts, indent):
    lines = []
    for _ in range(n_stmts):
        if c.budget <= 0:
            break
        if c.risky in STMT_RISKY and c.risky not in c.labels and c.coin(1, 2):
            lines.extend(stmt_risky(c, sc, indent))
            continue
        lines.extend(gen_stmt(c, sc, indent))
    if not lines:
        lines.append(indent + "pass")
        c.use("pass")
    return lines


def assignable(sc, t):
    return [n for n, ty in sc.vars.items() if ty == t and not n.startswith(("%", "w"))]


def gen_stmt(c, sc, indent):
    c.budget -= 2
    r = c.choice(30)
    deep = sc.depth >= 3
    if r <= 6:
        return stmt_assign(c, sc, indent)
    if r <= 8:
        return stmt_out(c, sc, indent)
    if r <= 10:
        return stmt_augassign(c, sc, indent)
    if r <= 13 and not deep:
        return stmt_if(c, sc, indent)
    if r <= 15 and not deep:
        return stmt_while(c, sc, indent)
    if r <= 17 and not deep:
        return stmt_for(c, sc, indent)
    if r == 18:
        return stmt_unpack(c, sc, indent)
    if r == 19:
        return stmt_store(c, sc, indent)
    if r == 20 and sc.in_loop:
        c.use("break_or_continue")
        kw = c.pick(["break", "continue"])
        if kw == "continue" and sc.in_loop == "while":
            if not c.allow("continue_in_while"):
                kw = "break"
            else:
                c.use("continue_in_while")
        cond = gen_expr(c, sc, BOOL, 1, True)
        if c.coin(1, 3):
            c.use("jump_in_else_arm")
            return [indent + "if %s:" % cond, indent + "    out(%s)" % gen_expr(c, sc, INT, 2, True), indent + "else:", indent + "    " + kw]
        return [indent + "if %s:" % cond, indent + "    " + kw]
    if r == 21 and sc.in_func and sc.ret is not None:
        c.use("early_return")
        cond = gen_expr(c, sc, BOOL, 1, True)
        return [indent + "if %s:" % cond, indent + "    return " + gen_expr(c, sc, sc.ret, 1)]
    if r == 22:
        return stmt_call(c, sc, indent)
    if r == 23 and c.risky in STMT_RISKY:
        return stmt_risky(c, sc, indent)
    return stmt_assign(c, sc, indent)


def stmt_assign(c, sc, indent):
    t = pick_type(c)
    existing = assignable(sc, t)
    if existing and c.coin(1, 2):
        name = c.pick(existing)
        c.use("reassignment")
    else:
        name = c.fresh("v")
    e = gen_expr(c, sc, t)
    sc.vars[name] = t
    if t[0] == "list":
        sc.lens[name] = 2 if e.startswith("[") else 0
        if not e.startswith("["):
            sc.lens.pop(name, None)
            sc.lens[name] = 0
    return [indent + "%s = %s" % (name, e)]


def stmt_out(c, sc, indent):
    t = pick_type(c)
    c.use("out")
    return [indent + "out(%s)" % gen_expr(c, sc, t)]


def stmt_augassign(c, sc, indent):
    ints = assignable(sc, INT)
    strs = assignable(sc, STR)
    r = c.choice(6)
    if r == 3 and strs:
        c.use("augmented_assignment")
        return [indent + "%s += %s" % (c.pick(strs), gen_expr(c, sc, STR, 1))]
    if ints:
        c.use("augmented_assignment")
        op = c.pick(["+=", "-=", "*=", "+=", "//=", "%="])
        if op in ("//=", "%="):
            return [indent + "%s %s %d" % (c.pick(ints), op, c.draw(st.integers(1, 4)))]
        return [indent + "%s %s %s" % (c.pick(ints), op, gen_expr(c, sc, INT, 1))]
    return stmt_assign(c, sc, indent)


def stmt_if(c, sc, indent):
    c.use("if")
    cond = gen_expr(c, sc, BOOL, 0)
    lines = [indent + "if %s:" % cond]
    a = sc.child()
    lines += gen_block(c, a, c.draw(st.integers(1, 3)), indent + "    ")
    branches = [a]
    n_elif = c.draw(st.integers(0, 2)) if c.coin(1, 3) else 0
    for _ in range(n_elif):
        c.use("elif")
        b = sc.child()
        lines.append(indent + "elif %s:" % gen_expr(c, sc, BOOL, 0))
        lines += gen_block(c, b, c.draw(st.integers(1, 2)), indent + "    ")
        branches.append(b)
    has_else = c.coin(1, 2)
    if has_else:
        c.use("else")
        b = sc.child()
        lines.append(indent + "else:")
        lines += gen_block(c, b, c.draw(st.integers(1, 3)), indent + "    ")
        branches.append(b)
        # variables assigned (with one type) on every branch are definitely assigned afterwards
        common = set(branches[0].vars)
        for b in branches[1:]:
            common &= set(b.vars)
        for n in common:
            tys = {b.vars[n] for b in branches}
            if len(tys) == 1 and n not in sc.vars:
                sc.vars[n] = tys.pop()
                if sc.vars[n][0] == "list":
                    sc.lens[n] = min(b.lens.get(n, 0) for b in branches)
    # list lengths may have changed in branches: be conservative
    for n in list(sc.lens):
        sc.lens[n] = min([sc.lens[n]] + [b.lens.get(n, 0) for b in branches])
    return lines


def stmt_while(c, sc, indent):
    c.use("while")
    w = c.fresh("w")
    bound = c.draw(st.integers(1, 4))
    cond = "%s < %d" % (w, bound)
    if c.coin(1, 3):
        cond = "%s and %s" % (cond, gen_expr(c, sc, BOOL, 1, True))
        c.use("while_compound_condition")
    lines = [indent + "%s = 0" % w, indent + "while %s:" % cond]
    sc.vars[w] = INT
    body = sc.child(in_loop="while")
    lines.append(indent + "    %s += 1" % w)
    if c.allow("continue_in_while") and c.coin(3, 4):
        c.use("continue_in_while")
        pre = gen_block(c, body, c.draw(st.integers(0, 1)), indent + "    ") if c.coin(1, 2) else []
        lines += pre
        if c.coin(1, 3):
            c.use("jump_in_else_arm")
            lines += [indent + "    if %s:" % gen_expr(c, body, BOOL, 1, True), indent + "        pass", indent + "    else:", indent + "        continue"]
        else:
            lines += [indent + "    if %s:" % gen_expr(c, body, BOOL, 1, True), indent + "        continue"]
    lines += gen_block(c, body, c.draw(st.integers(1, 3)), indent + "    ")
    if c.allow("while_else") and c.coin(3, 4):
        c.use("while_else")
        lines.append(indent + "else:")
        lines += gen_block(c, sc.child(), c.draw(st.integers(1, 2)), indent + "    ")
    for n in list(sc.lens):
        sc.lens[n] = min(sc.lens[n], body.lens.get(n, 0))
    return lines


def stmt_for(c, sc, indent):
    c.use("for_in")
    x = c.fresh("e")
    r = c.choice(4)
    if r <= 1:
        et = c.pick([INT, INT, STR])
        it = gen_expr(c, sc, LIST(et), 1)
    elif r == 2:
        et = INT
        it = gen_expr(c, sc, TUP(INT, INT), 1)
        c.use("for_over_tuple")
    else:
        et = INT
        it = gen_expr(c, sc, LIST(INT), 1)
    lines = [indent + "for %s in %s:" % (x, it)]
    body = sc.child(in_loop="for")
    body.vars[x] = et
    lines += gen_block(c, body, c.draw(st.integers(1, 3)), indent + "    ")
    if c.allow("for_else") and c.coin(3, 4):
        c.use("for_else")
        lines.append(indent + "else:")
        lines += gen_block(c, sc.child(), 1, indent + "    ")
    for n in list(sc.lens):
        sc.lens[n] = min(sc.lens[n], body.lens.get(n, 0))
    return lines


def stmt_unpack(c, sc, indent):
    c.use("tuple_unpacking")
    t1, t2 = INT, c.pick([INT, STR])
    a, b = c.fresh("v"), c.fresh("v")
    r = c.choice(4)
    if r <= 2:
        line = "%s, %s = %s" % (a, b, gen_expr(c, sc, TUP(t1, t2), 1))
    else:
        line = "%s, %s = %s, %s" % (a, b, gen_expr(c, sc, t1, 1), gen_expr(c, sc, t2, 1))
    sc.vars[a] = t1
    sc.vars[b] = t2
    return [indent + line]


def stmt_store(c, sc, indent):
    opts = []
    for n in assignable(sc, LIST(INT)):
        if sc.lens.get(n, 0) >= 1:
            opts.append(("elem", n))
    for n in assignable(sc, DICT(INT)):
        opts.append(("key", n))
    for n, ty in sc.readable_where(lambda ty: ty[0] == "obj"):
        opts.append(("field", n, ty))
    if sc.this_cls is not None:
        opts.append(("selffield",))
    if not opts:
        return stmt_assign(c, sc, indent)
    o = c.pick(opts)
    if o[0] == "elem":
        c.use("element_write")
        return [indent + "%s[0] = %s" % (o[1], gen_expr(c, sc, INT, 1))]
    if o[0] == "key":
        c.use("dict_write")
        return [indent + '%s["%s"] = %s' % (o[1], c.pick(["a", "b"]), gen_expr(c, sc, INT, 1))]
    if o[0] == "field":
        cls = c.classes[o[2][1]]
        fn = c.pick(sorted(cls["fields"]))
        c.use("field_write")
        return [indent + "%s.%s = %s" % (o[1], fn, gen_expr(c, sc, cls["fields"][fn], 1))]
    cls = c.classes[sc.this_cls]
    fn = c.pick(sorted(cls["fields"]))
    c.use("field_write")
    e = gen_expr(c, sc, cls["fields"][fn], 1)
    sc.vars["%selffields"] = tuple(sorted(set(sc.vars.get("%selffields", ())) | {fn}))
    return [indent + "self.%s = %s" % (fn, e)]


def stmt_call(c, sc, indent):
    cands = []
    for t in (INT, STR, LIST(INT), BOOL):
        cands += call_candidates(c, sc, t)
    if not cands:
        return stmt_out(c, sc, indent)
    c.use("call_statement")
    return [indent + gen_call(c, sc, c.pick(cands), 0)]


STMT_RISKY = {"list_augassign", "augassign_subscript", "augassign_field", "swap_assignment", "multi_target_assign",
              "lambda", "string_index", "negative_index", "method_value", "nested_tuple_pattern", "dict_iteration"}


def stmt_risky(c, sc, indent):
    """Statement forms that exist only as labelled risky classes; each builds the variables it needs."""
    k = c.risky
    if k == "multi_target_assign":
        c.use(k)
        a, b = c.fresh("v"), c.fresh("v")
        e = gen_expr(c, sc, INT, 1)
        sc.vars[a] = INT
        sc.vars[b] = INT
        return [indent + "%s = %s = %s" % (a, b, e)]
    if k == "lambda":
        c.use(k)
        f = c.fresh("lam")
        v = c.fresh("v")
        l1 = indent + "%s = lambda q: q + %s" % (f, gen_expr(c, sc, INT, 2, True))
        l2 = indent + "%s = %s(%s)" % (v, f, gen_expr(c, sc, INT, 1))
        sc.vars[v] = INT
        return [l1, l2]
    if k == "string_index":
        c.use(k)
        v = c.fresh("v")
        e = gen_expr(c, sc, STR, 1)
        sc.vars[v] = STR
        return [indent + '%s = (%s + "ab")[%d]' % (v, e, c.choice(2))]
    if k == "negative_index":
        c.use(k)
        l, v = c.fresh("v"), c.fresh("v")
        e = gen_expr(c, sc, LIST(INT), 1)
        sc.vars[l] = LIST(INT)
        sc.lens[l] = 0
        sc.vars[v] = INT
        return [indent + "%s = %s + [7]" % (l, e), indent + "%s = %s[-%d]" % (v, l, 1)]
    if k == "list_augassign":
        c.use(k)
        l, m = c.fresh("v"), c.fresh("v")
        e1 = gen_expr(c, sc, LIST(INT), 1)
        e2 = gen_expr(c, sc, LIST(INT), 1)
        sc.vars[l] = LIST(INT)
        sc.vars[m] = LIST(INT)
        sc.lens[l] = sc.lens[m] = 0
        return [indent + "%s = %s" % (l, e1), indent + "%s = %s" % (m, l), indent + "%s += %s" % (l, e2), indent + "out(%s)" % m]
    if k == "augassign_subscript":
        c.use(k)
        l = c.fresh("v")
        e0 = gen_expr(c, sc, INT, 2)
        e1 = gen_expr(c, sc, INT, 2)
        sc.vars[l] = LIST(INT)
        sc.lens[l] = 2
        return [indent + "%s = [%s, %s]" % (l, e0, e1), indent + "%s[%d] %s %s" % (l, c.choice(2), c.pick(["+=", "-=", "*="]), gen_expr(c, sc, INT, 1))]
    if k == "augassign_field":
        objs = [(n, ty) for n, ty in sc.readable_where(lambda ty: ty[0] == "obj") if INT in c.classes[ty[1]]["fields"].values()]
        pre = []
        if not objs:
            cands = [i for i, cl in enumerate(c.classes) if INT in cl["fields"].values()]
            if not cands:
                return stmt_assign(c, sc, indent)
            o = c.fresh("v")
            pre = [indent + "%s = %s" % (o, gen_obj(c, sc, OBJ(cands[0]), 1, False, False))]
            sc.vars[o] = OBJ(cands[0])
            objs = [(o, OBJ(cands[0]))]
        n, ty = objs[0]
        fn = sorted(f for f, t in c.classes[ty[1]]["fields"].items() if t == INT)[0]
        c.use(k)
        return pre + [indent + "%s.%s %s %s" % (n, fn, c.pick(["+=", "-=", "*="]), gen_expr(c, sc, INT, 1))]
    if k == "swap_assignment":
        c.use(k)
        a, b = c.fresh("v"), c.fresh("v")
        e1, e2 = gen_expr(c, sc, INT, 1), gen_expr(c, sc, INT, 1)
        sc.vars[a] = INT
        sc.vars[b] = INT
        return [indent + "%s = %s" % (a, e1), indent + "%s = %s" % (b, e2), indent + "%s, %s = %s, %s" % (a, b, b, a)]
    if k == "method_value":
        for n, ty in sc.readable_where(lambda ty: ty[0] == "obj"):
            ms = [m for m in c.classes[ty[1]]["methods"] if not m["params"] and m["ret"] == INT]
            if ms:
                c.use(k)
                f, v = c.fresh("mv"), c.fresh("v")
                sc.vars[v] = INT
                return [indent + "%s = %s.%s" % (f, n, ms[0]["name"]), indent + "%s = %s()" % (v, f)]
        return stmt_assign(c, sc, indent)
    if k == "nested_tuple_pattern":
        c.use(k)
        a, b, d = c.fresh("v"), c.fresh("v"), c.fresh("v")
        t2 = c.pick([INT, STR])
        line = "%s, (%s, %s) = %s, (%s, %s)" % (a, b, d, gen_expr(c, sc, INT, 1), gen_expr(c, sc, t2, 1), gen_expr(c, sc, INT, 1))
        sc.vars[a] = INT
        sc.vars[b] = t2
        sc.vars[d] = INT
        return [indent + line]
    if k == "dict_iteration":
        c.use(k)
        x = c.fresh("e")
        it = gen_expr(c, sc, DICT(INT), 1)
        body = sc.child(in_loop="for")
        body.vars[x] = STR
        return [indent + "for %s in %s:" % (x, it)] + gen_block(c, body, c.draw(st.integers(1, 2)), indent + "    ")
    return stmt_assign(c, sc, indent)


# ---------------------------------------------------------------------------------------------
# definitions

def gen_params(c, max_n=3, allow_kwonly=True):
    n = c.draw(st.integers(0, max_n))
    params = []
    seen_default = False
    kwonly = False
    for i in range(n):
        ty = c.pick([INT, INT, INT, STR, BOOL, LIST(INT)])
        name = "p%d" % i
        default = None
        if seen_default or c.coin(1, 3):
            if ty == INT:
                default = str(c.draw(st.integers(0, 9)))
            elif ty == STR:
                default = '"%s"' % c.pick(["", "d", "xy"])
            elif ty == BOOL:
                default = c.pick(["True", "False"])
            else:
                ty = INT
                default = str(c.draw(st.integers(0, 9)))
            seen_default = True
        if allow_kwonly and not kwonly and i > 0 and c.coin(1, 6):
            kwonly = True
        if kwonly and default is None and False:
            pass
        params.append((name, ty, default, kwonly))
        if kwonly:
            seen_default = seen_default  # keyword-only params may or may not have defaults
    return params


def params_text(params, with_self=False):
    parts = ["self"] if with_self else []
    star_done = False
    for (name, ty, default, kwonly) in params:
        if kwonly and not star_done:
            parts.append("*")
            star_done = True
        parts.append(name if default is None else "%s=%s" % (name, default))
    return ", ".join(parts)


def fix_kwonly(params):
    """After a keyword-only marker every parameter is keyword-only; a non-default positional parameter may not
    follow a default one (already ensured); keyword-only ones may come in any default/non-default order."""
    out = []
    kw = False
    for (n, t, d, k) in params:
        kw = kw or k
        out.append((n, t, d, kw))
    return out


def gen_function(c, name, ret, globals_ro, this_cls=None, fields_known=()):
    params = fix_kwonly(gen_params(c))
    if any(p[3] for p in params):
        c.use("keyword_only_parameter")
    if any(p[2] is not None for p in params):
        c.use("default_parameter")
    sc = Scope({p[0]: p[1] for p in params}, in_func=name, ret=ret, globals_ro=globals_ro, this_cls=this_cls)
    for p in params:
        if p[1][0] == "list":
            sc.lens[p[0]] = 0
    if this_cls is not None:
        sc.vars["%selffields"] = tuple(fields_known)
    indent = "    " if this_cls is None else "        "
    head_indent = "" if this_cls is None else "    "
    lines = [head_indent + "def %s(%s):" % (name, params_text(params, with_self=this_cls is not None))]
    body = []
    if this_cls is None and c.allow("global_stmt") and c.globals and c.coin(1, 2):
        g = c.pick(sorted(n for n, t in c.globals.items() if t == INT) or [None])
        if g:
            c.use("global_stmt")
            body.append(indent + "global %s" % g)
            body.append(indent + "%s = %s + 1" % (g, g))
    if this_cls is None and c.coin(1, 5):
        body += gen_nested_function(c, sc, indent)
    body += gen_block(c, sc, c.draw(st.integers(1, 5)), indent)
    body.append(indent + "return " + gen_expr(c, sc, ret, 1))
    return params, lines + body


def gen_nested_function(c, sc, indent):
    """A closure reading (and with the nonlocal class, writing) a variable of the enclosing function."""
    c.use("nested_function")
    y = c.fresh("y")
    inner = c.fresh("inner")
    lines = [indent + "%s = %s" % (y, gen_expr(c, sc, INT, 1))]
    sc.vars[y] = INT
    lines.append(indent + "def %s(q):" % inner)
    if c.allow("nonlocal_stmt"):
        c.use("nonlocal_stmt")
        lines.append(indent + "    nonlocal %s" % y)
        lines.append(indent + "    %s = %s + q" % (y, y))
        lines.append(indent + "    return %s" % y)
    else:
        c.use("closure_read")
        lines.append(indent + "    return %s + q" % y)
    v = c.fresh("v")
    lines.append(indent + "%s = %s(%s)" % (v, inner, gen_expr(c, sc, INT, 1)))
    sc.vars[v] = INT
    return lines


def gen_class(c, idx, globals_ro):
    name = "C%d" % idx
    nf = c.draw(st.integers(1, 3))
    fields = {}
    for i in range(nf):
        fields["f%d" % i] = c.pick([INT, INT, STR, LIST(INT)])
    lines = ["def h%s(o, k):" % name,
             "    return k + (%s)" % ("o.%s" % [fn for fn, ft in fields.items() if ft == INT][0] if any(ft == INT for ft in fields.values()) else "1"),
             "class %s:" % name]
    cls = {"name": name, "fields": fields, "init_params": [], "methods": []}
    if c.coin(1, 3):
        c.use("class_field")
        lines.append("    k%d = %d" % (idx, c.draw(st.integers(0, 9))))
    # __init__: one parameter per field (some with defaults), assigns every field
    init_params = []
    seen_default = False
    for fn, ft in fields.items():
        default = None
        if ft == INT and (seen_default or c.coin(1, 3)):
            default = str(c.draw(st.integers(0, 9)))
            seen_default = True
        elif seen_default:
            # a later non-default parameter is not allowed: give it a default too
            default = {"str": '""', "list": None}.get(ft[0])
            if default is None:
                ft = INT
                fields[fn] = INT
                default = "0"
        init_params.append(("a" + fn, ft, default, False))
    cls["init_params"] = init_params
    lines.append("    def __init__(%s):" % params_text(init_params, with_self=True))
    for fn in fields:
        lines.append("        self.%s = a%s" % (fn, fn))
    c.classes.append(cls)
    int_fields = [fn for fn, ft in fields.items() if ft == INT]
    cls["helper_field"] = int_fields[0] if int_fields else None
    nm = c.draw(st.integers(1, 2))
    for j in range(nm):
        mname = "m%d" % j
        ret = c.pick([INT, INT, STR, BOOL])
        saved = c.classes[idx]["methods"]
        params, mlines = gen_function(c, mname, ret, globals_ro, this_cls=idx, fields_known=tuple(sorted(fields)))
        lines += mlines
        saved.append({"name": mname, "params": params, "ret": ret})
    return lines


@st.composite
def programs(draw, size=60, risky_classes=RISKY, p_risky=0.5):
    """-> dict(source=str, labels=[...], risky=str|None)"""
    risky = None
    if risky_classes and draw(st.integers(0, 99)) < int(p_risky * 100):
        risky = risky_classes[draw(st.integers(0, len(risky_classes) - 1))]
    c = Ctx(draw, risky, size)
    lines = []
    if risky == "effectful_short_circuit":
        lines += ["def eff(v):", "    out(v)", "    return v > 3"]
    # module-level globals
    for i in range(draw(st.integers(0, 2))):
        g = "g%d" % i
        c.globals[g] = INT
        lines.append("%s = %d" % (g, draw(st.integers(0, 9))))
    globals_ro = dict(c.globals)
    # classes
    for i in range(draw(st.integers(0, 2))):
        c.budget = size // 2
        lines += gen_class(c, i, globals_ro)
    # functions
    nfun = draw(st.integers(1, 3))
    for i in range(nfun):
        c.budget = size // 2
        name = "f%d" % i
        ret = c.pick([INT, INT, INT, STR, BOOL, LIST(INT), TUP(INT, INT)])
        params, flines = gen_function(c, name, ret, globals_ro)
        lines += flines
        c.funcs.append({"name": name, "params": params, "ret": ret})
    if c.allow("recursion"):
        c.use("recursion")
        lines += ["def rec(n, acc):", "    if n <= 0 or n > 6:", "        return acc", "    out(n)", "    return rec(n - 1, acc + n)"]
        c.funcs.append({"name": "rec", "params": [("n", INT, None, False), ("acc", INT, None, False)], "ret": INT})
    if c.allow("default_refers_to_variable") and c.globals:
        c.use("default_refers_to_variable")
        g = sorted(c.globals)[0]
        lines += ["def dflt(a, b=%s):" % g, "    return a - b"]
        c.funcs.append({"name": "dflt", "params": [("a", INT, None, False), ("b", INT, "0", False)], "ret": INT})
    # module-level code: the entry calls
    c.budget = size
    sc = Scope(dict(c.globals))
    top = gen_block(c, sc, draw(st.integers(2, 6)), "")
    lines += top
    for f in c.funcs[:3]:
        for _ in range(draw(st.integers(1, 2))):
            lines.append("out(%s(%s))" % (f["name"], gen_args(c, sc, f["params"], 1)))
    src = "\n".join(lines) + "\n"
    return {"source": src, "labels": sorted(c.labels), "risky": risky if (risky in c.labels) else None}
