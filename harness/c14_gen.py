"""Project generators for C14 (determinism): name-rich multi-file Python projects built by Hypothesis,
plus corpus projects copied from the repository's own test inputs.

The generator is purely syntactic (programs are analysed, never executed).  Its job is to put many
DISTINCT STRINGS into every place where lian keeps sets / dicts keyed by names: variables, functions,
classes, methods, fields, imported names, unresolved external names (>= 2 per statement so that the
order in which external symbol ids are handed out matters), dict keys, several call sites per callee,
closures, inheritance, taint sources (parameter `p`) and sinks (`sink(x)`).
"""
import os

from hypothesis import strategies as st

from harness import common

VARS = ["alpha", "beta", "gamma", "delta", "eps", "zeta", "eta", "theta", "iota", "kappa", "lam", "mu", "nu", "xi",
        "omi", "rho", "sigma", "tau", "ups", "phi", "chi", "psi", "omega", "ax", "by", "cz", "dw", "ev", "fu", "gt"]
FUNCS = ["load", "store", "merge", "split", "check", "build", "parse", "emit", "scan", "fold", "wrap", "peel"]
CLASSES = ["Node", "Tree", "Pool", "Cache", "Queue", "Graph", "Table", "Store"]
METHODS = ["get", "put", "run", "step", "make", "join", "push", "pop", "size", "reset"]
FIELDS = ["val", "nxt", "key", "buf", "cnt", "ref", "tag", "own"]
EXTS = ["ext_open", "ext_read", "ext_env", "ext_conf", "ext_log", "ext_db", "ext_net", "ext_user", "ext_key",
        "ext_tmp", "ext_sys", "ext_id", "ext_msg", "ext_ctx"]
KEYS = ["k_a", "k_b", "k_c", "k_d", "k_e", "k_f"]
MODS = ["mod_a", "util_b", "core_c", "lib_d", "pkg_e", "app_f", "zeta_g", "main_h"]
EXT_MODS = ["os", "json", "extpkg", "vendor.tool"]

# entry points of the settings used for every python project: the unit initialisers plus functions by name
ENTRY_FUNCS = ["load", "check", "build", "scan", "run", "get"]


class _G:
    """One project under construction; every choice is a Hypothesis draw."""

    def __init__(self, draw):
        self.draw = draw
        self.tmpc = 0

    # -- drawing helpers ---------------------------------------------------------------------------
    def i(self, lo, hi):
        return self.draw(st.integers(lo, hi))

    def pick(self, seq):
        return self.draw(st.sampled_from(list(seq)))

    def chance(self, pct):
        return self.draw(st.integers(0, 99)) < pct

    def some(self, seq, lo, hi):
        seq = list(seq)
        hi = min(hi, len(seq))
        lo = min(lo, hi)
        return self.draw(st.lists(st.sampled_from(seq), min_size=lo, max_size=hi, unique=True))

    # -- expressions -------------------------------------------------------------------------------
    def atom(self, sc):
        r = self.i(0, 9)
        if r < 6 and sc["vars"]:
            return self.pick(sc["vars"])
        if r < 8:
            return self.pick(EXTS)
        if r == 8:
            return str(self.i(0, 9))
        return '"%s"' % self.pick(KEYS)

    def var_atom(self, sc):
        return self.pick(sc["vars"]) if sc["vars"] else self.pick(EXTS)

    def newvar(self, sc):
        v = self.pick(VARS)
        if v not in sc["vars"]:
            sc["vars"].append(v)
        return v

    def call_expr(self, sc):
        """A call to something the project defines (function, imported function, constructor)."""
        c = self.pick(sc["callables"])
        n = c["nparams"]
        args = [self.atom(sc) for _ in range(n)]
        if c["kind"] == "func" and n >= 2 and self.chance(25):
            # keyword argument with a single-state (literal) value: a keyword argument whose value has >= 2
            # states is the second construct of the known finding C14-unmatched-parameters-in-set-order
            args[-1] = "%s=%s" % (c["params"][-1], self.pick(["0", "7", '"kw"']))
        return c, "%s(%s)" % (c["expr"], ", ".join(args))

    # -- statements --------------------------------------------------------------------------------
    def stmts(self, sc, n, depth, ind):
        out = []
        for _ in range(n):
            out.extend(self.stmt(sc, depth, ind))
        return out

    def stmt(self, sc, depth, ind):
        pad = "    " * ind
        kinds = ["binop", "binop", "call", "call", "extcall", "extpair", "dict", "list", "sink", "sink"]
        if sc["objs"]:
            kinds += ["mcall", "mcall", "fwrite", "fread"]
        if sc["dicts"]:
            kinds += ["dread", "dwrite"]
        if sc["lists"]:
            kinds += ["lread"]
        if depth < 2:
            kinds += ["if", "for"]
        if sc.get("in_func") and depth == 0:
            kinds += ["closure"]
        if sc.get("self_fields"):
            kinds += ["selfread", "selfwrite"]
        k = self.pick(kinds)
        if k == "binop":
            a, b = self.atom(sc), self.atom(sc)
            return ["%s%s = %s %s %s" % (pad, self.newvar(sc), a, self.pick(["+", "+", "-", "*"]), b)]
        if k == "call" and sc["callables"]:
            c, e = self.call_expr(sc)
            v = self.newvar(sc)
            if c["kind"] == "class":
                sc["objs"][v] = c["cls"]
            return ["%s%s = %s" % (pad, v, e)]
        if k == "extcall":
            return ["%s%s = %s(%s, %s)" % (pad, self.newvar(sc), self.pick(EXTS), self.atom(sc), self.pick(EXTS))]
        if k == "extpair":
            a, b = self.some(EXTS, 2, 2)
            return ["%s%s = %s + %s" % (pad, self.newvar(sc), a, b)]
        if k == "dict":
            ks = self.some(KEYS, 2, 4)
            body = ", ".join('"%s": %s' % (kk, self.atom(sc)) for kk in ks)
            v = self.newvar(sc)
            sc["dicts"][v] = ks
            return ["%s%s = {%s}" % (pad, v, body)]
        if k == "list":
            v = self.newvar(sc)
            n = self.i(2, 4)
            sc["lists"][v] = n
            return ["%s%s = [%s]" % (pad, v, ", ".join(self.atom(sc) for _ in range(n)))]
        if k == "sink":
            return ["%ssink(%s)" % (pad, self.var_atom(sc))]
        if k == "mcall":
            o = self.pick(sorted(sc["objs"]))
            cls = sc["objs"][o]
            ms = cls["all_methods"]
            if ms:
                m = self.pick(ms)
                args = ", ".join(self.atom(sc) for _ in range(m["nparams"]))
                return ["%s%s = %s.%s(%s)" % (pad, self.newvar(sc), o, m["name"], args)]
            return ["%s%s = %s.%s" % (pad, self.newvar(sc), o, self.pick(FIELDS))]
        if k == "fwrite":
            o = self.pick(sorted(sc["objs"]))
            return ["%s%s.%s = %s" % (pad, o, self.pick(FIELDS), self.atom(sc))]
        if k == "fread":
            o = self.pick(sorted(sc["objs"]))
            return ["%s%s = %s.%s" % (pad, self.newvar(sc), o, self.pick(FIELDS))]
        if k == "dread":
            d = self.pick(sorted(sc["dicts"]))
            return ['%s%s = %s["%s"]' % (pad, self.newvar(sc), d, self.pick(sc["dicts"][d]))]
        if k == "dwrite":
            d = self.pick(sorted(sc["dicts"]))
            return ['%s%s["%s"] = %s' % (pad, d, self.pick(KEYS), self.atom(sc))]
        if k == "lread":
            l = self.pick(sorted(sc["lists"]))
            return ["%s%s = %s[%d]" % (pad, self.newvar(sc), l, self.i(0, sc["lists"][l] - 1))]
        if k == "selfread":
            return ["%s%s = self.%s" % (pad, self.newvar(sc), self.pick(sc["self_fields"]))]
        if k == "selfwrite":
            return ["%sself.%s = %s" % (pad, self.pick(FIELDS), self.atom(sc))]
        if k == "if":
            out = ["%sif %s:" % (pad, self.atom(sc))]
            out += self.stmts(sc, self.i(1, 2), depth + 1, ind + 1)
            if self.chance(60):
                out.append("%selse:" % pad)
                out += self.stmts(sc, self.i(1, 2), depth + 1, ind + 1)
            return out
        if k == "for":
            it = self.pick(sorted(sc["lists"])) if sc["lists"] and self.chance(70) else self.atom(sc)
            x = self.newvar(sc)
            out = ["%sfor %s in %s:" % (pad, x, it)]
            out += self.stmts(sc, self.i(1, 2), depth + 1, ind + 1)
            return out
        if k == "closure":
            name = "inner_" + self.pick(FUNCS)
            z = self.pick(VARS)
            free = self.var_atom(sc)
            out = ["%sdef %s(%s):" % (pad, name, z),
                   "%s    %s = %s + %s" % (pad, "cv_" + z, z, free),
                   "%s    return %s" % (pad, "cv_" + z)]
            out.append("%s%s = %s(%s)" % (pad, self.newvar(sc), name, self.atom(sc)))
            return out
        # fall-back (e.g. "call" with no callables yet)
        return ["%s%s = %s" % (pad, self.newvar(sc), self.atom(sc))]

    # -- definitions -------------------------------------------------------------------------------
    def new_scope(self, mod_sc, params=(), in_func=True):
        return {"vars": list(params) + list(mod_sc["consts"]), "objs": {}, "dicts": {}, "lists": {},
                "callables": mod_sc["callables"], "in_func": in_func}

    def func(self, mod_sc, name, ind=0, is_method=False, self_fields=None):
        pad = "    " * ind
        extra = self.some(VARS, 0, 2)
        params = ["p"] + extra
        sig = (["self"] if is_method else []) + params
        if extra and self.chance(30):
            sig[-1] = "%s=%s" % (sig[-1], self.pick(["0", '"dflt"', "None"]))
        sc = self.new_scope(mod_sc, params)
        if is_method:
            sc["self_fields"] = list(self_fields or [])
        body = self.stmts(sc, self.i(2, 4), 0, ind + 1)
        if self.chance(75):
            body.append("%s    sink(%s)" % (pad, self.pick(["p"] + sc["vars"][:3])))
        body.append("%s    return %s" % (pad, self.var_atom(sc)))
        return {"name": name, "nparams": len(params), "params": params}, ["%sdef %s(%s):" % (pad, name, ", ".join(sig))] + body

    def klass(self, mod_sc, name, bases):
        base = self.pick(bases) if bases and self.chance(60) else None
        head = "class %s(%s):" % (name, base["expr"]) if base else "class %s:" % name
        lines = [head]
        fields = self.some(FIELDS, 1, 3)
        lines.append("    %s = %s" % (self.pick(FIELDS), self.pick(["0", '"cf"', "[]"])))
        lines.append("    def __init__(self, p):")
        for f in fields:
            lines.append("        self.%s = %s" % (f, self.pick(["p", "p", "0", self.pick(EXTS)])))
        methods = []
        for mname in self.some(METHODS, 1, 2):
            info, ls = self.func(mod_sc, mname, ind=1, is_method=True, self_fields=fields)
            methods.append(info)
            lines += ls
        # an overriding method hides the inherited one: calls always pass exactly the parameters of the method
        # that is resolved (calls leaving >= 2 parameters unmatched are the construct of the known finding
        # C14-unmatched-parameters-in-set-order; they are exercised by its replay files, not generated here)
        own = {m["name"] for m in methods}
        inherited = [m for m in (base["cls"]["all_methods"] if base else []) if m["name"] not in own]
        cls = {"name": name, "methods": methods, "base": base, "all_methods": methods + inherited}
        return cls, lines

    def module(self, idx, name, earlier):
        """earlier: list of finished module infos this one may import from."""
        lines = []
        mod_sc = {"callables": [], "consts": []}
        bases = []
        # imports
        for m in earlier:
            if not (self.chance(80) or m is earlier[-1]):
                continue
            style = self.pick(["import", "from", "from", "alias", "star"])
            if style == "star":
                # every public symbol of m at once (>= 2 candidates behind one import statement)
                lines.append("from %s import *" % m["name"])
                for f in m["funcs"]:
                    mod_sc["callables"].append({"kind": "func", "expr": f["name"], "nparams": f["nparams"], "params": f["params"]})
                for c in m["classes"]:
                    ent = {"kind": "class", "expr": c["name"], "nparams": 1, "cls": c}
                    mod_sc["callables"].append(ent)
                    bases.append(ent)
                for cn in m["consts"]:
                    mod_sc["consts"].append(cn)
                continue
            if style == "import" or style == "alias":
                ref = m["name"] if style == "import" else "m_" + m["name"][-1]
                lines.append("import %s" % m["name"] if style == "import" else "import %s as %s" % (m["name"], ref))
                for f in m["funcs"]:
                    mod_sc["callables"].append({"kind": "func", "expr": "%s.%s" % (ref, f["name"]), "nparams": f["nparams"], "params": f["params"]})
                for c in m["classes"]:
                    ent = {"kind": "class", "expr": "%s.%s" % (ref, c["name"]), "nparams": 1, "cls": c}
                    mod_sc["callables"].append(ent)
                    bases.append(ent)
            else:
                names = []
                for f in m["funcs"]:
                    if self.chance(70):
                        names.append(f["name"])
                        mod_sc["callables"].append({"kind": "func", "expr": f["name"], "nparams": f["nparams"], "params": f["params"]})
                for c in m["classes"]:
                    if self.chance(70):
                        names.append(c["name"])
                        ent = {"kind": "class", "expr": c["name"], "nparams": 1, "cls": c}
                        mod_sc["callables"].append(ent)
                        bases.append(ent)
                for cn in m["consts"]:
                    if self.chance(40):
                        names.append(cn)
                        mod_sc["consts"].append(cn)
                if not names and m["funcs"]:
                    f = m["funcs"][0]
                    names.append(f["name"])
                    mod_sc["callables"].append({"kind": "func", "expr": f["name"], "nparams": f["nparams"], "params": f["params"]})
                if names:
                    lines.append("from %s import %s" % (m["name"], ", ".join(names)))
        if self.chance(60):
            em = self.pick(EXT_MODS)
            lines.append(self.pick(["import %s" % em, "from %s import %s" % (em, self.pick(EXTS))]))
        # constants
        consts = []
        for cn in self.some([v.upper() for v in VARS], 1, 3):
            val = self.pick(["1", '"c"', '{"%s": 2, "%s": 3}' % tuple(self.some(KEYS, 2, 2)), "[1, 2]", self.pick(EXTS)])
            lines.append("%s = %s" % (cn, val))
            consts.append(cn)
            mod_sc["consts"].append(cn)
        # classes (names unique over the project so that `from m import C` never shadows a local one)
        classes = []
        used = {c["name"] for m in earlier for c in m["classes"]} | {f["name"] for m in earlier for f in m["funcs"]}
        for cname in self.some([c for c in CLASSES if c not in used], 1 if idx == 0 else 0, 2):
            cls, ls = self.klass(mod_sc, cname, bases)
            classes.append(cls)
            lines += ls
            ent = {"kind": "class", "expr": cname, "nparams": 1, "cls": cls}
            mod_sc["callables"].append(ent)
            bases.append(ent)
        # functions
        funcs = []
        for fname in self.some([f for f in FUNCS if f not in used], 1, 3):
            info, ls = self.func(mod_sc, fname)
            funcs.append(info)
            lines += ls
            mod_sc["callables"].append({"kind": "func", "expr": fname, "nparams": info["nparams"], "params": info["params"]})
        # module-level code: several call sites per callee, objects, sinks, >= 2 external names in one statement
        sc = self.new_scope(mod_sc, (), in_func=False)
        top = []
        a, b = self.some(EXTS, 2, 2)
        top.append("%s = %s(%s, %s)" % (self.newvar(sc), self.pick(EXTS), a, b))
        for c in classes:
            v = self.newvar(sc)
            sc["objs"][v] = c
            top.append("%s = %s(%s)" % (v, c["name"], self.atom(sc)))
        for f in funcs:
            for _ in range(self.i(1, 2)):
                top.append("%s = %s(%s)" % (self.newvar(sc), f["name"], ", ".join(self.atom(sc) for _ in range(f["nparams"]))))
        top += self.stmts(sc, self.i(2, 4), 0, 0)
        top.append("sink(%s)" % self.var_atom(sc))
        lines += top
        return {"name": name, "funcs": funcs, "classes": classes, "consts": consts}, "\n".join(lines) + "\n"


@st.composite
def python_projects(draw):
    """-> {"salt": int, "lang": "python", "files": {relative path: text}}.  salt == 0 marks Hypothesis'
    all-simplest first example (identical in every shard), which the caller skips."""
    salt = draw(st.integers(0, 2 ** 30))
    g = _G(draw)
    nmods = draw(st.integers(2, 3))
    names = draw(st.lists(st.sampled_from(MODS), min_size=nmods, max_size=nmods, unique=True))
    sub = draw(st.integers(0, 3)) == 0      # one module inside a package directory
    infos = []
    files = {}
    for idx, name in enumerate(names):
        info, text = g.module(idx, name, infos)
        infos.append(info)
        files[name + ".py"] = text
    if sub:
        # an extra unit in a sub-directory (module-symbol tree with a directory node); not imported by name
        info, text = g.module(len(names), "leaf", [])
        files["sub_pkg/leaf.py"] = text
        files["sub_pkg/__init__.py"] = ""
    if draw(st.integers(0, 2)) == 0:
        # two modules of the same base name in different directories and an import that names only the base name:
        # lian has two candidates for it
        for d, k in (("alpha", 1), ("beta", 2)):
            files["%s/util.py" % d] = "def load(p):\n    q = p + %d\n    return q\n\ndef keep%d(p):\n    sink(p)\n    return p\n" % (k, k)
        last = names[-1] + ".py"
        files[last] = "from util import load\n" + files[last] + "sink(load(%s))\n" % g.pick(EXTS)
    return {"salt": salt, "lang": "python", "files": files}


class _GJ(_G):
    """JavaScript rendering of the same project shape (CommonJS modules, classes, closures, object/array
    literals, unresolved globals, parameter sources and sink() calls)."""

    def call_expr(self, sc):
        c = self.pick(sc["callables"])
        args = [self.atom(sc) for _ in range(c["nparams"])]
        new = "new " if c["kind"] == "class" else ""
        return c, "%s%s(%s)" % (new, c["expr"], ", ".join(args))

    def stmt(self, sc, depth, ind):
        pad = "    " * ind
        kinds = ["binop", "binop", "call", "call", "extcall", "extpair", "dict", "list", "sink", "sink"]
        if sc["objs"]:
            kinds += ["mcall", "mcall", "fwrite", "fread"]
        if sc["dicts"]:
            kinds += ["dread", "dwrite"]
        if sc["lists"]:
            kinds += ["lread"]
        if depth < 2:
            kinds += ["if", "for"]
        if sc.get("in_func") and depth == 0:
            kinds += ["closure"]
        if sc.get("self_fields"):
            kinds += ["selfread", "selfwrite"]
        k = self.pick(kinds)
        var = lambda: "var " + self.newvar(sc)
        if k == "binop":
            a, b = self.atom(sc), self.atom(sc)
            return ["%s%s = %s %s %s;" % (pad, var(), a, self.pick(["+", "+", "-", "*"]), b)]
        if k == "call" and sc["callables"]:
            c, e = self.call_expr(sc)
            v = self.newvar(sc)
            if c["kind"] == "class":
                sc["objs"][v] = c["cls"]
            return ["%svar %s = %s;" % (pad, v, e)]
        if k == "extcall":
            return ["%s%s = %s(%s, %s);" % (pad, var(), self.pick(EXTS), self.atom(sc), self.pick(EXTS))]
        if k == "extpair":
            a, b = self.some(EXTS, 2, 2)
            return ["%s%s = %s + %s;" % (pad, var(), a, b)]
        if k == "dict":
            ks = self.some(KEYS, 2, 4)
            body = ", ".join("%s: %s" % (kk, self.atom(sc)) for kk in ks)
            v = self.newvar(sc)
            sc["dicts"][v] = ks
            return ["%svar %s = {%s};" % (pad, v, body)]
        if k == "list":
            v = self.newvar(sc)
            n = self.i(2, 4)
            sc["lists"][v] = n
            return ["%svar %s = [%s];" % (pad, v, ", ".join(self.atom(sc) for _ in range(n)))]
        if k == "sink":
            return ["%ssink(%s);" % (pad, self.var_atom(sc))]
        if k == "mcall":
            o = self.pick(sorted(sc["objs"]))
            ms = sc["objs"][o]["all_methods"]
            if ms:
                m = self.pick(ms)
                args = ", ".join(self.atom(sc) for _ in range(m["nparams"]))
                return ["%s%s = %s.%s(%s);" % (pad, var(), o, m["name"], args)]
            return ["%s%s = %s.%s;" % (pad, var(), o, self.pick(FIELDS))]
        if k == "fwrite":
            return ["%s%s.%s = %s;" % (pad, self.pick(sorted(sc["objs"])), self.pick(FIELDS), self.atom(sc))]
        if k == "fread":
            return ["%s%s = %s.%s;" % (pad, var(), self.pick(sorted(sc["objs"])), self.pick(FIELDS))]
        if k == "dread":
            d = self.pick(sorted(sc["dicts"]))
            return ["%s%s = %s.%s;" % (pad, var(), d, self.pick(sc["dicts"][d]))]
        if k == "dwrite":
            d = self.pick(sorted(sc["dicts"]))
            return ['%s%s["%s"] = %s;' % (pad, d, self.pick(KEYS), self.atom(sc))]
        if k == "lread":
            l = self.pick(sorted(sc["lists"]))
            return ["%s%s = %s[%d];" % (pad, var(), l, self.i(0, sc["lists"][l] - 1))]
        if k == "selfread":
            return ["%s%s = this.%s;" % (pad, var(), self.pick(sc["self_fields"]))]
        if k == "selfwrite":
            return ["%sthis.%s = %s;" % (pad, self.pick(FIELDS), self.atom(sc))]
        if k == "if":
            out = ["%sif (%s) {" % (pad, self.atom(sc))]
            out += self.stmts(sc, self.i(1, 2), depth + 1, ind + 1)
            if self.chance(60):
                out.append("%s} else {" % pad)
                out += self.stmts(sc, self.i(1, 2), depth + 1, ind + 1)
            out.append("%s}" % pad)
            return out
        if k == "for":
            it = self.pick(sorted(sc["lists"])) if sc["lists"] and self.chance(70) else self.atom(sc)
            x = self.newvar(sc)
            out = ["%sfor (var %s of %s) {" % (pad, x, it)]
            out += self.stmts(sc, self.i(1, 2), depth + 1, ind + 1)
            out.append("%s}" % pad)
            return out
        if k == "closure":
            name = "inner_" + self.pick(FUNCS)
            z = self.pick(VARS)
            free = self.var_atom(sc)
            style = self.i(0, 1)
            head = "%sfunction %s(%s) {" % (pad, name, z) if style == 0 else "%svar %s = function (%s) {" % (pad, name, z)
            out = [head, "%s    var cv_%s = %s + %s;" % (pad, z, z, free), "%s    return cv_%s;" % (pad, z),
                   "%s}" % pad if style == 0 else "%s};" % pad]
            out.append("%s%s = %s(%s);" % (pad, var(), name, self.atom(sc)))
            return out
        return ["%s%s = %s;" % (pad, var(), self.atom(sc))]

    def func(self, mod_sc, name, ind=0, is_method=False, self_fields=None):
        pad = "    " * ind
        extra = self.some(VARS, 0, 2)
        params = ["p"] + extra
        sig = list(params)
        if extra and self.chance(30):
            sig[-1] = "%s = %s" % (sig[-1], self.pick(["0", '"dflt"', "null"]))
        sc = self.new_scope(mod_sc, params)
        if is_method:
            sc["self_fields"] = list(self_fields or [])
        body = self.stmts(sc, self.i(2, 4), 0, ind + 1)
        if self.chance(75):
            body.append("%s    sink(%s);" % (pad, self.pick(["p"] + sc["vars"][:3])))
        body.append("%s    return %s;" % (pad, self.var_atom(sc)))
        head = "%s%s(%s) {" % (pad, name, ", ".join(sig)) if is_method else "%sfunction %s(%s) {" % (pad, name, ", ".join(sig))
        return {"name": name, "nparams": len(params), "params": params}, [head] + body + ["%s}" % pad]

    def klass(self, mod_sc, name, bases):
        base = self.pick(bases) if bases and self.chance(60) else None
        lines = ["class %s extends %s {" % (name, base["expr"]) if base else "class %s {" % name]
        fields = self.some(FIELDS, 1, 3)
        lines.append("    constructor(p) {")
        if base:
            lines.append("        super(p);")
        for f in fields:
            lines.append("        this.%s = %s;" % (f, self.pick(["p", "p", "0", self.pick(EXTS)])))
        lines.append("    }")
        methods = []
        for mname in self.some(METHODS, 1, 2):
            info, ls = self.func(mod_sc, mname, ind=1, is_method=True, self_fields=fields)
            methods.append(info)
            lines += ls
        lines.append("}")
        own = {m["name"] for m in methods}
        inherited = [m for m in (base["cls"]["all_methods"] if base else []) if m["name"] not in own]
        return {"name": name, "methods": methods, "base": base, "all_methods": methods + inherited}, lines

    def module(self, idx, name, earlier):
        lines = []
        mod_sc = {"callables": [], "consts": []}
        bases = []
        for m in earlier:
            if not (self.chance(80) or m is earlier[-1]):
                continue
            if self.chance(50):
                ref = "m_" + m["name"][-1]
                lines.append("const %s = require('./%s');" % (ref, m["name"]))
                for f in m["funcs"]:
                    mod_sc["callables"].append({"kind": "func", "expr": "%s.%s" % (ref, f["name"]), "nparams": f["nparams"], "params": f["params"]})
                for c in m["classes"]:
                    ent = {"kind": "class", "expr": "%s.%s" % (ref, c["name"]), "nparams": 1, "cls": c}
                    mod_sc["callables"].append(ent)
                    bases.append(ent)
            else:
                names = []
                for f in m["funcs"]:
                    if self.chance(70) or not names:
                        names.append(f["name"])
                        mod_sc["callables"].append({"kind": "func", "expr": f["name"], "nparams": f["nparams"], "params": f["params"]})
                for c in m["classes"]:
                    if self.chance(70):
                        names.append(c["name"])
                        ent = {"kind": "class", "expr": c["name"], "nparams": 1, "cls": c}
                        mod_sc["callables"].append(ent)
                        bases.append(ent)
                if names:
                    lines.append("const { %s } = require('./%s');" % (", ".join(names), m["name"]))
        if self.chance(60):
            lines.append("const %s = require('%s');" % (self.pick(["fs", "path", "extlib"]), self.pick(["fs", "path", "extlib"])))
        consts = []
        for cn in self.some([v.upper() for v in VARS], 1, 3):
            val = self.pick(["1", '"c"', "{%s: 2, %s: 3}" % tuple(self.some(KEYS, 2, 2)), "[1, 2]", self.pick(EXTS)])
            lines.append("var %s = %s;" % (cn, val))
            consts.append(cn)
            mod_sc["consts"].append(cn)
        classes = []
        used = {c["name"] for m in earlier for c in m["classes"]} | {f["name"] for m in earlier for f in m["funcs"]}
        for cname in self.some([c for c in CLASSES if c not in used], 1 if idx == 0 else 0, 2):
            cls, ls = self.klass(mod_sc, cname, bases)
            classes.append(cls)
            lines += ls
            ent = {"kind": "class", "expr": cname, "nparams": 1, "cls": cls}
            mod_sc["callables"].append(ent)
            bases.append(ent)
        funcs = []
        for fname in self.some([f for f in FUNCS if f not in used], 1, 3):
            info, ls = self.func(mod_sc, fname)
            funcs.append(info)
            lines += ls
            mod_sc["callables"].append({"kind": "func", "expr": fname, "nparams": info["nparams"], "params": info["params"]})
        sc = self.new_scope(mod_sc, (), in_func=False)
        top = []
        a, b = self.some(EXTS, 2, 2)
        top.append("var %s = %s(%s, %s);" % (self.newvar(sc), self.pick(EXTS), a, b))
        for c in classes:
            v = self.newvar(sc)
            sc["objs"][v] = c
            top.append("var %s = new %s(%s);" % (v, c["name"], self.atom(sc)))
        for f in funcs:
            for _ in range(self.i(1, 2)):
                top.append("var %s = %s(%s);" % (self.newvar(sc), f["name"], ", ".join(self.atom(sc) for _ in range(f["nparams"]))))
        top += self.stmts(sc, self.i(2, 4), 0, 0)
        top.append("sink(%s);" % self.var_atom(sc))
        lines += top
        exported = [f["name"] for f in funcs] + [c["name"] for c in classes]
        lines.append("module.exports = { %s };" % ", ".join(exported))
        return {"name": name, "funcs": funcs, "classes": classes, "consts": []}, "\n".join(lines) + "\n"


@st.composite
def javascript_projects(draw):
    salt = draw(st.integers(0, 2 ** 30))
    g = _GJ(draw)
    nmods = draw(st.integers(2, 3))
    names = draw(st.lists(st.sampled_from(MODS), min_size=nmods, max_size=nmods, unique=True))
    infos, files = [], {}
    for idx, name in enumerate(names):
        info, text = g.module(idx, name, infos)
        infos.append(info)
        files[name + ".js"] = text
    return {"salt": salt, "lang": "javascript", "files": files}


# ---------------------------------------------------------------------------------------------
# corpus projects

CORPUS_DIRS = {
    "python": ["tests/dataflows/python", "tests/state_flows", "tests/control_flows", "tests/apply_summary_tests",
               "tests/motivativing_examples", "tests/import/python"],
    "javascript": ["tests/dataflows/js", "tests/import/js", "tests/motivativing_examples", "tests/builtin_apis",
                   "tests/prototype"],
    "java": ["tests/dataflows/java", "tests/import/java", "tests/control_flows"],
}
CORPUS_EXT = {"python": ".py", "javascript": ".js", "java": ".java"}
MAX_CORPUS_FILE = 12000     # bytes


def corpus_files(lang):
    """Sorted list of (repo-relative path, text) of the repository's own small test inputs of one language.
    Directory projects (tests/import/<lang>/<dir>) are returned as separate entries by corpus_dir_projects."""
    out = []
    ext = CORPUS_EXT[lang]
    for d in CORPUS_DIRS[lang]:
        root = os.path.join(common.REPO, d)
        if not os.path.isdir(root):
            continue
        for n in sorted(os.listdir(root)):
            p = os.path.join(root, n)
            if os.path.isfile(p) and n.endswith(ext) and 0 < os.path.getsize(p) <= MAX_CORPUS_FILE:
                try:
                    with open(p, encoding="utf-8") as f:
                        out.append((os.path.join(d, n), f.read()))
                except (UnicodeDecodeError, OSError):
                    pass
    return out


def corpus_dir_projects(lang):
    """Whole directory projects of the corpus: [(name, {relative path: text})], sorted by name."""
    out = []
    ext = CORPUS_EXT[lang]
    tops = {"python": ["tests/import/python"], "javascript": ["tests/import/js", "tests/import/js_import_export"],
            "java": ["tests/import/java"]}[lang]
    for top in tops:
        root = os.path.join(common.REPO, top)
        if not os.path.isdir(root):
            continue
        cands = [root] if lang != "python" else []
        cands += [os.path.join(root, n) for n in sorted(os.listdir(root)) if os.path.isdir(os.path.join(root, n))]
        for c in cands:
            files = {}
            for dp, dns, fns in os.walk(c):
                dns.sort()
                for n in sorted(fns):
                    p = os.path.join(dp, n)
                    if n.endswith(ext) and os.path.getsize(p) <= MAX_CORPUS_FILE:
                        try:
                            with open(p, encoding="utf-8") as f:
                                files[os.path.relpath(p, c)] = f.read()
                        except (UnicodeDecodeError, OSError):
                            pass
            if len(files) >= 2:
                out.append((os.path.relpath(c, common.REPO), files))
    return out


def corpus_projects_strategy(lang, k_lo=2, k_hi=3):
    """Groups of k corpus files as one project (several units per project so that unit-keyed collections
    have more than one element) or one whole directory project."""
    singles = corpus_files(lang)
    dirs = corpus_dir_projects(lang)

    @st.composite
    def s(draw):
        salt = draw(st.integers(0, 2 ** 30))
        if dirs and draw(st.integers(0, 5)) == 0:
            name, files = draw(st.sampled_from(dirs))
            return {"salt": salt, "lang": lang, "files": dict(files), "origin": [name]}
        picks = draw(st.lists(st.sampled_from(singles), min_size=k_lo, max_size=k_hi, unique_by=lambda t: os.path.basename(t[0])))
        files = {os.path.basename(p): t for p, t in picks}
        return {"salt": salt, "lang": lang, "files": files, "origin": [p for p, _ in picks]}
    return s()
