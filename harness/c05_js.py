"""C05 helper: JavaScript scope trees (function vs block scope, var hoisting, let/const, parameters, nested
functions, shadowing) with the generator's own resolver as ground truth, and an optional cross-check of that
resolver against a real engine (node) through a generated probe script.

tree  := {"k": "module", "body": [stmt]}
stmt  := {"t": "decl", "kw": "var"|"let"|"const", "n": name}        kw n = <number>;
         {"t": "read", "n": name}                                    var wK = n;
         {"t": "write", "n": name}                                   n = <number>;
         {"t": "block", "bk": "if"|"else"|"while"|"bare"|"for", "n": loop variable (for), "body": [stmt]}
         {"t": "func", "name": name, "params": [names], "style": "decl"|"expr"|"arrow", "body": [stmt]}
One declaration / identifier occurrence of interest per line.
"""
import json
import os
import shutil
import subprocess
import tempfile

ALPHABET = ["x", "y", "z"]


# ---------------------------------------------------------------------------------------------
# scope model built while rendering

class Scope:
    __slots__ = ("kind", "bk", "line", "parent", "decls", "name", "top", "_children")

    def __init__(self, kind, parent, line=0, bk=None, name=None):
        self.kind = kind          # module | function | block
        self.bk = bk              # for blocks: if / else / while / bare / for (the for-head scope) / for-body
        self.line = line
        self.parent = parent
        self.decls = {}           # name -> Decl
        self.name = name

    def function(self):
        s = self
        while s.kind == "block":
            s = s.parent
        return s

    def chain(self):
        out, s = [], self
        while s is not None:
            out.append(s)
            s = s.parent
        return out

    def top_level(self):
        return self.function().kind == "module"


class Decl:
    __slots__ = ("name", "kind", "scope", "lines", "in_block_only", "written_before_decl")

    def __init__(self, name, kind, scope):
        self.name, self.kind, self.scope = name, kind, scope
        self.lines = []           # [(line, op)]  op: variable_decl / parameter_decl / method_decl
        self.in_block_only = True
        self.written_before_decl = False   # an assignment to it precedes its first declaration in the same function


class Occ:
    __slots__ = ("line", "name", "role", "scope")

    def __init__(self, line, name, role, scope):
        self.line, self.name, self.role, self.scope = line, name, role, scope


class Program:
    """rendered program + scope model + resolver"""

    def __init__(self, tree):
        self.tree = tree
        self.lines = []
        self.occs = []
        self.scopes = []
        self.decl_at = {}       # (line, name) -> Decl
        self.func_calls = []    # for the probe
        self.wcount = 0
        self.module = self._scope("module", None)
        self._body(tree["body"], self.module, 0)
        self.source = "\n".join(self.lines) + "\n"
        # names that some assignment really creates as an implicit global (the assignment itself is unresolved)
        self.implicit_globals = {o.name for o in self.occs if o.role == "write" and self.resolve(o.scope, o.name) is None}
        for o in self.occs:
            if o.role == "write":
                # lian decides by NAME: any declaration of that name later in the same function is affected
                f = o.scope.function()
                for sc in self.scopes:
                    d = sc.decls.get(o.name)
                    if d is not None and sc.function() is f and d.kind in ("var", "let", "const") \
                            and o.line < min(ln for ln, _ in d.lines):
                        d.written_before_decl = True

    def _scope(self, kind, parent, line=0, bk=None, name=None):
        s = Scope(kind, parent, line, bk, name)
        s._children = []
        if parent is not None:
            parent._children.append(s)
        self.scopes.append(s)
        return s

    def _emit(self, ind, text):
        self.lines.append("  " * ind + text)
        return len(self.lines)

    def _declare(self, scope, name, kind, line, op, in_block):
        target = scope.function() if kind in ("var", "function", "param") else scope
        d = target.decls.get(name)
        if d is None:
            d = target.decls[name] = Decl(name, kind, target)
        if not d.lines:
            d.in_block_only = bool(in_block)     # = the textually first declaration sits in a block
        d.lines.append((line, op))
        self.decl_at[(line, name, "param" if op == "parameter_decl" else "decl")] = d
        return d

    def _body(self, stmts, scope, ind):
        for s in stmts:
            t = s["t"]
            in_block = scope.kind == "block"
            if t == "decl":
                ln = self._emit(ind, "%s %s = %d;" % (s["kw"], s["n"], s.get("v", 1)))
                s["_line"] = ln
                self._declare(scope, s["n"], s["kw"], ln, "variable_decl", in_block)
                self.occs.append(Occ(ln, s["n"], "def", scope))
            elif t == "read":
                self.wcount += 1
                w = "w%d" % self.wcount
                ln = self._emit(ind, "var %s = %s;" % (w, s["n"]))
                s["_line"] = ln
                self.occs.append(Occ(ln, s["n"], "use", scope))
            elif t == "write":
                ln = self._emit(ind, "%s = %d;" % (s["n"], s.get("v", 2)))
                s["_line"] = ln
                self.occs.append(Occ(ln, s["n"], "write", scope))
            elif t == "call":
                ln = self._emit(ind, "%s(1);" % s["n"])
                s["_line"] = ln
                self.occs.append(Occ(ln, s["n"], "use", scope))
            elif t == "block":
                bk = s["bk"]
                if bk == "if":
                    ln = self._emit(ind, "if (1) {")
                    b = self._scope("block", scope, ln, "if")
                elif bk == "else":
                    self._emit(ind, "if (0) {")
                    ln = self._emit(ind, "} else {")
                    b = self._scope("block", scope, ln, "else")
                elif bk == "while":
                    ln = self._emit(ind, "while (0) {")
                    b = self._scope("block", scope, ln, "while")
                elif bk == "bare":
                    ln = self._emit(ind, "{")
                    b = self._scope("block", scope, ln, "bare")
                elif bk == "for":
                    n = s["n"]
                    ln = self._emit(ind, "for (let %s = 0; %s < 1; %s++) {" % (n, n, n))
                    head = self._scope("block", scope, ln, "for")
                    self._declare(head, n, "let", ln, "variable_decl", True)
                    self.occs.append(Occ(ln, n, "def", head))
                    b = self._scope("block", head, ln, "for-body")
                else:
                    raise ValueError(bk)
                s["_line"] = ln
                self._body(s["body"], b, ind + 1)
                self._emit(ind, "}")
            elif t == "func":
                style = s.get("style", "decl")
                params = ", ".join(s["params"])
                if style == "decl":
                    ln = self._emit(ind, "function %s(%s) {" % (s["name"], params))
                    self._declare(scope, s["name"], "function", ln, "method_decl", in_block)
                elif style == "expr":
                    ln = self._emit(ind, "const %s = function (%s) {" % (s["name"], params))
                    self._declare(scope, s["name"], "const", ln, "variable_decl", in_block)
                    self.occs.append(Occ(ln, s["name"], "def", scope))      # the assignment `name = %mmN`
                else:
                    ln = self._emit(ind, "const %s = (%s) => {" % (s["name"], params))
                    self._declare(scope, s["name"], "const", ln, "variable_decl", in_block)
                    self.occs.append(Occ(ln, s["name"], "def", scope))
                s["_line"] = ln
                f = self._scope("function", scope, ln, name=s["name"])
                for p in s["params"]:
                    self._declare(f, p, "param", ln, "parameter_decl", False)
                self._body(s["body"], f, ind + 1)
                self._emit(ind, "}" if style == "decl" else "};")
            else:
                raise ValueError(t)

    # -- resolver ------------------------------------------------------------------------------
    def resolve(self, scope, name):
        for s in scope.chain():
            if name in s.decls:
                return s.decls[name]
        return None

    def resolved(self):
        return [(o, self.resolve(o.scope, o.name)) for o in self.occs]


def use_kind(scope):
    f = scope.function()
    if f.kind == "module":
        base = "module"
    elif f.parent.function().kind == "module":
        base = "function"
    else:
        base = "nested-function"
    return base + ("-block" if scope.kind == "block" else "")


def all_scopes_of(scope):
    """child scopes registered under a scope (set by Program)"""
    return getattr(scope, "_children", ())


def expected_kinds(d):
    """root-cause qualified kinds of the expected declaration, most specific first; the last one is the plain
    kind (where-kind)."""
    if d is None:
        return ["unresolved"]
    where = "module" if d.scope.kind == "module" else ("function" if d.scope.kind == "function" else "block")
    out = []
    if d.written_before_decl and d.scope.kind != "module":
        out.append("variable-assigned-before-its-declaration-in-the-function")
    if d.kind in ("var", "function", "param"):
        if d.kind == "var" and d.in_block_only:
            out.append(where + "-var-first-declared-in-a-block")
        out.append(where + "-" + d.kind)
        return out
    if d.scope.kind == "block":
        if d.scope.bk == "bare":
            out.append("block-let:bare")
        if d.kind in ("let", "const") and d.scope.bk != "bare":
            # a bare block is flattened into its parent: its let behaves like an earlier let of that parent
            first0 = min(ln for ln, _ in d.lines)
            for anc in d.scope.chain()[1:]:
                if any(c.kind == "block" and c.bk == "bare" and c.parent is anc and d.name in c.decls
                       and c.decls[d.name].kind in ("let", "const")
                       and min(ln for ln, _ in c.decls[d.name].lines) < first0 for c in all_scopes_of(anc)):
                    out.append("block-let:bare")
                    break
                if anc.kind == "function":
                    break
        if d.kind in ("let", "const"):
            first = min(ln for ln, _ in d.lines)
            for s in d.scope.chain()[1:]:
                o = s.decls.get(d.name)
                if o is not None and o.kind in ("let", "const") and min(ln for ln, _ in o.lines) < first:
                    out.append("block-let-shadowing-earlier-outer-let")
                    break
                if s.kind == "function":
                    break
        base = "block-%s:%s" % ("let" if d.kind in ("let", "const") else d.kind, d.scope.bk)
        if base not in out:
            out.append(base)
        return out
    out.append(where + "-" + ("let" if d.kind in ("let", "const") else d.kind))
    return out


def expected_kind(d):
    return expected_kinds(d)[-1]


# ---------------------------------------------------------------------------------------------
# fix-up: remove what would be a SyntaxError

def fixup(tree):
    """Drop declarations that make the program a SyntaxError (early errors of lexical declarations):
      * let/const redeclaring a name already declared in the same scope (by anything), or a parameter of the
        function whose body it sits in directly
      * var / function declaration whose hoisting path crosses a scope with a lexical declaration of the name
        (including later ones) -- decided in two passes
    Returns the number of dropped statements."""
    dropped = [0]

    def lexical_names(stmts):
        out = set()
        for s in stmts:
            if s["t"] == "decl" and s["kw"] in ("let", "const"):
                out.add(s["n"])
            elif s["t"] == "func" and s.get("style", "decl") != "decl":
                out.add(s["name"])
        return out

    def var_names(stmts):
        """var-declared names hoisting out of these statements (not crossing functions)"""
        out = set()
        for s in stmts:
            if s["t"] == "decl" and s["kw"] == "var":
                out.add(s["n"])
            elif s["t"] == "read":
                pass
            elif s["t"] == "block":
                out |= var_names(s["body"])
        return out

    def clean(stmts, params, is_func_body, outer_lex):
        """outer_lex: names lexically declared in enclosing blocks of the same function (a var may not cross)"""
        keep = []
        seen_lex = set()
        funcdecls = set()
        for s in stmts:
            t = s["t"]
            if t == "decl" and s["kw"] in ("let", "const"):
                if s["n"] in seen_lex or (is_func_body and s["n"] in params) or s["n"] in funcdecls:
                    dropped[0] += 1
                    continue
                seen_lex.add(s["n"])
            elif t == "func" and s.get("style", "decl") != "decl":
                if s["name"] in seen_lex or (is_func_body and s["name"] in params) or s["name"] in funcdecls:
                    dropped[0] += 1
                    continue
                seen_lex.add(s["name"])
            elif t == "func":
                if s["name"] in seen_lex:
                    dropped[0] += 1
                    continue
                funcdecls.add(s["name"])
            keep.append(s)
        # second pass: var declarations (own or hoisting through nested blocks) against lexical names here
        lex_here = lexical_names(keep)
        out = []
        for s in keep:
            t = s["t"]
            if t == "decl" and s["kw"] == "var" and (s["n"] in lex_here or s["n"] in outer_lex):
                dropped[0] += 1
                continue
            if t == "func" and s.get("style", "decl") == "decl" and s["name"] in lex_here:
                dropped[0] += 1
                continue
            if t == "block":
                inner_outer = outer_lex | lex_here
                if s["bk"] == "for":
                    inner_outer = inner_outer | {s["n"]}
                s["body"] = clean(s["body"], params, False, inner_outer)
            elif t == "func":
                s["body"] = clean(s["body"], set(s["params"]), True, set())
            out.append(s)
        return out

    tree["body"] = clean(tree["body"], set(), False, set())
    return dropped[0]


# ---------------------------------------------------------------------------------------------
# comparison with lian

def describe_row(bind, d, prog):
    """model declaration that lian's row corresponds to (by line + name), or None"""
    if d["kind"] != "decl":
        return None
    return prog.decl_at.get((d["line"], d["name"], "param" if d["op"] == "parameter_decl" else "decl"))


def chosen_kinds(d, md, use_scope, bind=None):
    """classifications of lian's answer relative to the use, most specific first"""
    if d["kind"] == "unresolved":
        return ["unresolved"]
    if d["kind"] != "decl":
        return [d["kind"]]
    out = []
    if bind is not None and md is not None:
        # where the row physically sits: a `var` that lian left inside a block
        blocks, at_top = bind.block_chain(d["stmt_id"])
        if blocks:
            use_lines = {s.line for s in use_scope.chain() if s.kind == "block"}
            if blocks[0][1] not in use_lines and md.scope.kind != "block":
                out.append("non-enclosing-block:top-level" if at_top else "non-enclosing-block:var-left-in-block")
    if md is None:
        out.append("implicit-global-row" if (d.get("attrs") and "global" in d["attrs"]) else "unknown-row")
        return out
    chain = use_scope.chain()
    if md.scope in chain:
        if md.scope is use_scope:
            out.append("same-scope")
        elif md.scope.kind == "module":
            out.append("module")
        elif md.scope.kind == "function":
            out.append("own-function" if md.scope is use_scope.function() else "enclosing-function")
        else:
            out.append("enclosing-block")
    elif md.scope.kind == "block":
        if md.scope.bk == "bare":
            out.append("non-enclosing-block:bare")
        if md.scope.top_level():
            out.append("non-enclosing-block:top-level")
        out.append("non-enclosing-block")
    elif md.scope.kind == "function":
        out.append("non-enclosing-function")
    else:
        out.append("other")
    return out


def compare(unit, prog, bind, lang="javascript"):
    """-> (discrepancies [(sig, what)], stats Counter)"""
    import collections
    out = []
    stats = collections.Counter()
    for occ, exp in prog.resolved():
        stats["occurrences"] += 1
        syms = [s for s in bind.at_line(unit, occ.line, occ.name) if s["op"] not in ("parameter_decl", "method_decl")]
        if occ.role == "def":
            # the declaration statement itself: `let x = 1` is lowered to variable_decl + assign_stmt x
            pass
        if not syms:
            stats["unobserved"] += 1
            stats["unobserved:" + occ.role] += 1
            continue
        stats["compared"] += 1
        eks = expected_kinds(exp)
        for s in syms:
            stats["symbols"] += 1
            d = bind.describe(s["symbol_id"])
            md = describe_row(bind, d, prog)
            if exp is None:
                # an assignment to an undeclared name creates a global: lian's unit-level ['global'] row for it is as
                # good as 'unresolved' -- but only if some assignment to that name really is undeclared
                ok = d["kind"] == "unresolved" or (d["kind"] == "decl" and d["owner"][0] == "unit"
                                                    and d["name"] == occ.name and "global" in (d.get("attrs") or "")
                                                    and occ.name in prog.implicit_globals)
                edesc = "unresolved (no visible declaration)"
            else:
                ok = d["kind"] == "decl" and d["unit"] == unit and d["name"] == occ.name and md is exp
                if not ok and d["kind"] == "decl" and exp.scope.kind == "module" and d["name"] == occ.name \
                        and "global" in (d.get("attrs") or "") and d["owner"][0] == "unit":
                    ok = True     # the implicit-global row lian makes for an assignment to the module variable
                edesc = "%s %s of %s scope at line %d (declared at line(s) %s)" % (
                    exp.kind, exp.name, exp.scope.kind + (":" + exp.scope.bk if exp.scope.bk else ""),
                    exp.scope.line, ",".join(str(l) for l, _ in exp.lines))
            if not ok:
                from harness import c05_py
                ck, ek = c05_py.pick_signature(lang, use_kind(occ.scope), chosen_kinds(d, md, occ.scope, bind), eks)
                got = "unresolved" if d["kind"] == "unresolved" else (
                    "%s %s at line %d%s" % (d.get("op"), d.get("name"), d.get("line", -1),
                                            " (%s %s at line %d)" % (md.kind, md.scope.kind + (":" + md.scope.bk if md.scope.bk else ""), md.scope.line)
                                            if md else "") if d["kind"] == "decl" else d["kind"])
                out.append(((lang, use_kind(occ.scope), ck, ek),
                            "%s:%d `%s` (%s) bound to %s, expected %s" % (unit, occ.line, occ.name,
                                                                         use_kind(occ.scope), got, edesc)))
    return out, stats


def nontrivial(prog):
    """>= 1 use of a name declared in >= 2 scopes that are ancestors-or-self of the use's scope or children of
    one (visible or sibling)."""
    by_name = {}
    for sc in prog.scopes:
        for n in sc.decls:
            by_name.setdefault(n, []).append(sc)
    for occ in prog.occs:
        if occ.role == "def":
            continue
        chain = occ.scope.chain()
        n = 0
        for sc in by_name.get(occ.name, ()):
            if sc in chain or sc.parent in chain:
                n += 1
        if n >= 2:
            return True
    return False


def labels(prog):
    out = set()
    for occ, d in prog.resolved():
        if occ.role == "def":
            continue
        out.add("js:expect:" + expected_kind(d).split(":")[0])
        out.add("js:use-in:" + use_kind(occ.scope))
        if d is not None:
            for s in d.scope.chain()[1:]:
                if occ.name in s.decls:
                    out.add("js:shadowing")
                    if d.kind == "param" and s.kind == "module":
                        out.add("js:param-shadows-global")
                    if d.scope.kind == "block":
                        out.add("js:block-shadows-outer")
            if d.kind == "var" and any(ln > occ.line for ln, _ in d.lines) and not any(ln <= occ.line for ln, _ in d.lines):
                out.add("js:var-used-before-declaration(hoisting)")
    for sc in prog.scopes:
        if sc.kind == "block":
            out.add("js:block:" + sc.bk)
    return out


# ---------------------------------------------------------------------------------------------
# Hypothesis strategy

def tree_strategy(max_depth=3, bare_blocks=True, calls=False):
    from hypothesis import strategies as st
    name_st = st.sampled_from(ALPHABET)
    use_name_st = st.one_of(name_st, name_st, name_st, name_st, st.sampled_from(["u", "console"]))

    @st.composite
    def tree(draw):
        budget = [draw(st.integers(10, 32))]
        vcount = [10]

        def val():
            vcount[0] += 1
            return vcount[0]

        def body(kind, fdepth, bdepth):
            out = []
            n = draw(st.integers(1, 5))
            for _ in range(n):
                if budget[0] <= 0:
                    break
                budget[0] -= 1
                r = draw(st.integers(0, 99))
                if r < 24:
                    kws = ["var", "var", "let", "const"]
                    out.append({"t": "decl", "kw": draw(st.sampled_from(kws)), "n": draw(name_st), "v": val()})
                elif r < 58:
                    if calls and draw(st.integers(0, 2)) == 0:
                        out.append({"t": "call", "n": draw(name_st)})
                    else:
                        out.append({"t": "read", "n": draw(use_name_st)})
                elif r < 64:
                    out.append({"t": "write", "n": draw(name_st), "v": val()})
                elif r < 82 and bdepth < 2:
                    kinds = ["if", "if", "else", "while", "for"] + (["bare"] if bare_blocks else [])
                    bk = draw(st.sampled_from(kinds))
                    b = {"t": "block", "bk": bk, "body": body("block", fdepth, bdepth + 1)}
                    if bk == "for":
                        b["n"] = draw(name_st)
                    out.append(b)
                elif fdepth < max_depth and kind != "block":
                    nparams = draw(st.integers(0, 2))
                    ps = draw(st.lists(name_st, min_size=nparams, max_size=nparams, unique=True))
                    f = {"t": "func", "name": draw(name_st), "params": ps,
                         "style": draw(st.sampled_from(["decl", "decl", "expr", "arrow"])),
                         "body": body("function", fdepth + 1, 0)}
                    if not any(s["t"] == "read" for s in f["body"]):
                        f["body"].append({"t": "read", "n": draw(name_st)})
                    out.append(f)
                else:
                    out.append({"t": "read", "n": draw(use_name_st)})
            return out

        t = {"k": "module", "body": body("module", 0, 0)}
        if not any(s["t"] == "func" for s in t["body"]):
            t["body"].append({"t": "func", "name": draw(name_st), "params": [draw(name_st)], "style": "decl",
                              "body": body("function", 1, 0) + [{"t": "read", "n": draw(name_st)}]})
        for _ in range(draw(st.integers(0, 2))):
            t["body"].append({"t": "read", "n": draw(use_name_st)})
        return t

    return tree()


def strip(tree):
    """remove render-time annotations (so that a tree is JSON-stable)"""
    def walk(stmts):
        for s in stmts:
            s.pop("_line", None)
            if "body" in s:
                walk(s["body"])
    walk(tree["body"])
    return tree


# ---------------------------------------------------------------------------------------------
# cross-check of the resolver with a real engine

def find_node():
    for cand in ("node", "nodejs"):
        p = shutil.which(cand)
        if p:
            return p
    for cand in ("/usr/bin/nodejs", "/usr/bin/node", "/usr/local/bin/node"):
        if os.path.exists(cand):
            return cand
    nvm = os.path.expanduser("~/.nvm/versions/node")
    if os.path.isdir(nvm):
        for v in sorted(os.listdir(nvm), reverse=True):
            p = os.path.join(nvm, v, "bin", "node")
            if os.path.exists(p):
                return p
    return None


def probe_source(tree):
    """A script with the same scope structure in which every declaration initialises its variable with a value
    unique to the declaration statement, every function is called once at the end of the body that declares it
    (so the declarations of the enclosing scopes have run), every block is entered once, and every identifier
    occurrence (reads and writes alike: binding does not depend on the direction) reports the value it sees.
    `tree` must have been rendered (Program(tree)) so that statements carry their line.
    -> (source, meta)"""
    head = ["var __out = [];",
            "function __tag(v) { if (typeof v === 'function') { var m = /TAG(\\d+)/.exec(String(v)); "
            "return m ? 'F' + m[1] : 'F?'; } return v === undefined ? 'undef' : v; }"]
    meta = {"decl_value": {}, "param_value": {}}
    counter = [1000]

    def fresh():
        counter[0] += 1
        return counter[0]

    def body(stmts, ind, fn_scope):
        """-> (lines, hoisted alias lines for the start of the function scope, calls for its end)"""
        pad = "  " * ind
        lines, hoisted, calls = [], [], []
        decl_funcs = {}
        for s in stmts:
            t = s["t"]
            ln = s.get("_line")
            if t == "decl":
                v = fresh()
                meta["decl_value"][str(ln)] = v
                lines.append(pad + "%s %s = %d;" % (s["kw"], s["n"], v))
            elif t in ("read", "write", "call"):
                lines.append(pad + "try { __out.push([%d, __tag(%s)]); } catch (e) { __out.push([%d, "
                             "e instanceof ReferenceError ? (/before init/.test(e.message) ? 'TDZ' : "
                             "'unresolved') : 'error:' + e.name]); }" % (ln, s["n"], ln))
            elif t == "block":
                bk = s["bk"]
                if bk in ("if", "while"):
                    lines.append(pad + "if (1) {")
                elif bk == "bare":
                    lines.append(pad + "{")
                elif bk == "else":
                    lines.append(pad + "if (0) {")
                    lines.append(pad + "} else {")
                elif bk == "for":
                    v = fresh()
                    counter[0] += 1
                    meta["decl_value"][str(ln)] = v
                    lines.append(pad + "for (let %s = %d; %s < %d; %s++) {" % (s["n"], v, s["n"], v + 1, s["n"]))
                l2, h2, c2 = body(s["body"], ind + 1, False)
                lines.extend(l2)
                lines.extend("  " * (ind + 1) + c for c in c2)      # block-local function expressions
                hoisted.extend(h2)
                lines.append(pad + "}")
            elif t == "func":
                v = fresh()
                meta["decl_value"][str(ln)] = "F%d" % v
                args = []
                for pname in s["params"]:
                    pv = fresh()
                    meta["param_value"]["%d:%s" % (ln, pname)] = pv
                    args.append(str(pv))
                style = s.get("style", "decl")
                params = ", ".join(s["params"])
                if style == "decl":
                    lines.append(pad + "function %s(%s) { 'TAG%d';" % (s["name"], params, v))
                elif style == "expr":
                    lines.append(pad + "const %s = function (%s) { 'TAG%d';" % (s["name"], params, v))
                else:
                    lines.append(pad + "const %s = (%s) => { 'TAG%d';" % (s["name"], params, v))
                l2, h2, c2 = body(s["body"], ind + 1, True)
                lines.extend("  " * (ind + 1) + h for h in h2)
                lines.extend(l2)
                lines.extend("  " * (ind + 1) + c for c in c2)
                lines.append(pad + ("}" if style == "decl" else "};"))
                alias = "__f%d" % v
                call = "if (typeof %s === 'function') %s(%s);" % (alias, alias, ", ".join(args))
                if style == "decl":
                    # hoisted: the function value is there from the start of the scope and the LAST declaration
                    # of a name wins (earlier same-named declarations are unreachable: not called); take the
                    # alias before any `var name = ...` of the same variable runs
                    decl_funcs[s["name"]] = ("var %s = %s;" % (alias, s["name"]), call)
                else:
                    lines.append(pad + "var %s = %s;" % (alias, s["name"]))
                    calls.append(call)
        for name in decl_funcs:
            hoisted.append(decl_funcs[name][0])
            calls.append(decl_funcs[name][1])
        return lines, hoisted, calls

    l, h, c = body(tree["body"], 0, True)
    src = head + h + l + c + ["console.log(JSON.stringify(__out));"]
    return "\n".join(src) + "\n", meta


def allowed_values(decl, meta):
    """values a use bound to this declaration may observe"""
    if decl is None:
        return {"unresolved"}
    out = set()
    for ln, op in decl.lines:
        if op == "parameter_decl":
            out.add(meta["param_value"].get("%d:%s" % (ln, decl.name)))
        else:
            out.add(meta["decl_value"].get(str(ln)))
    if decl.kind in ("var", "param", "function"):
        out.add("undef")
    else:
        out.add("TDZ")
    # a function-scoped variable re-declared by `var x = v` inside the same function: all listed
    return out


def node_crosscheck(tree, node=None, timeout=30):
    """-> (list of mismatch strings, number of uses compared) ; None if node is unavailable"""
    node = node or find_node()
    if node is None:
        return None
    prog = Program(tree)
    src, meta = probe_source(tree)
    d = tempfile.mkdtemp(prefix="lianverif-c05js-")
    try:
        p = os.path.join(d, "probe.js")
        with open(p, "w") as f:
            f.write(src)
        with open(os.path.join(d, "orig.js"), "w") as f:
            f.write(prog.source)
        chk = subprocess.run([node, "--check", os.path.join(d, "orig.js")], capture_output=True, text=True,
                             timeout=timeout)
        if chk.returncode != 0:
            return (["generated program is not valid JavaScript: %s" % chk.stderr.strip()[-300:]], 0)
        r = subprocess.run([node, p], capture_output=True, text=True, timeout=timeout)
        if r.returncode != 0:
            return (["probe failed: %s" % r.stderr.strip()[-400:]], 0)
        seen = json.loads(r.stdout.strip().splitlines()[-1])
    finally:
        shutil.rmtree(d, ignore_errors=True)
    by_line = {}
    for ln, v in seen:
        by_line.setdefault(ln, set()).add(v if isinstance(v, (str, int)) else "object")
    bad, n = [], 0
    for occ, decl in prog.resolved():
        if occ.role == "def" or occ.line not in by_line or occ.name in ("console",):
            continue
        allowed = allowed_values(decl, meta)
        for v in by_line[occ.line]:
            n += 1
            if v not in allowed:
                bad.append("line %d `%s`: node sees %r, resolver binds %s (allowed %s)" % (
                    occ.line, occ.name, v, "nothing" if decl is None else "%s@%s" % (decl.kind, decl.lines),
                    sorted(map(str, allowed))))
    return bad, n
