"""C15 helper: the "real items" clause.

Runs lian's whole pipeline on small fixed Python projects, records every Loader.save_*() call made by the
pipeline (normal form of the content taken at the moment of the call), and afterwards compares, for every
recorded key,
  * the normal form returned by the pipeline's own loader (in-process read) with what was saved, and
  * the normal form returned by a FRESH Loader(options).restore() (files only) with what was saved.
"""
import contextlib
import io
import os
import traceback

from harness import c15_norm as N
from harness.c15_norm import EMPTY

# ---------------------------------------------------------------------------------------------
# fixed little programs

PROGRAMS = {
    "classes": {
        "a.py": (
            "class A:\n"
            "    def __init__(self, v):\n"
            "        self.v = v\n"
            "    def get(self):\n"
            "        return self.v\n"
            "def f(x, y=3):\n"
            "    s = 0\n"
            "    for i in range(x):\n"
            "        if i % 2:\n"
            "            s = s + i\n"
            "        else:\n"
            "            s = s - y\n"
            "    return s\n"
            "def g(a):\n"
            "    b = A(a)\n"
            "    return f(b.get())\n"
            "z = g(5)\n"
            "print(z)\n"),
    },
    "imports": {
        "helper.py": (
            "LIMIT = 10\n"
            "def clamp(v, lo=0):\n"
            "    if v < lo:\n"
            "        return lo\n"
            "    if v > LIMIT:\n"
            "        return LIMIT\n"
            "    return v\n"
            "class Box:\n"
            "    size = 1\n"
            "    def put(self, item):\n"
            "        self.item = item\n"
            "        return self\n"),
        "main.py": (
            "from helper import clamp, Box\n"
            "import helper\n"
            "def run(n):\n"
            "    b = Box()\n"
            "    b.put(clamp(n))\n"
            "    return b.item\n"
            "r = run(42)\n"
            "q = helper.clamp(r, 1)\n"),
    },
    "loops": {
        "a.py": (
            "def collatz(n):\n"
            "    steps = 0\n"
            "    while n != 1:\n"
            "        if n % 2 == 0:\n"
            "            n = n // 2\n"
            "        else:\n"
            "            n = 3 * n + 1\n"
            "        steps += 1\n"
            "        if steps > 100:\n"
            "            break\n"
            "    return steps\n"
            "def table(k):\n"
            "    out = {}\n"
            "    for i in range(1, k):\n"
            "        if i == 3:\n"
            "            continue\n"
            "        out[i] = collatz(i)\n"
            "    return out\n"
            "t = table(6)\n"
            "u = [t[1], t[2]]\n"),
    },
    "inherit": {
        "a.py": (
            "class Base:\n"
            "    kind = 'base'\n"
            "    def name(self):\n"
            "        return self.kind\n"
            "    def hello(self, who):\n"
            "        return who + self.name()\n"
            "class Child(Base):\n"
            "    kind = 'child'\n"
            "    def name(self):\n"
            "        return 'c' + self.kind\n"
            "def make(flag):\n"
            "    if flag:\n"
            "        o = Child()\n"
            "    else:\n"
            "        o = Base()\n"
            "    return o\n"
            "x = make(1).hello('hi')\n"),
    },
    "closures": {
        "a.py": (
            "def outer(a):\n"
            "    k = a * 2\n"
            "    def inner(b):\n"
            "        return k + b\n"
            "    return inner\n"
            "def apply(fn, v):\n"
            "    try:\n"
            "        return fn(v)\n"
            "    except Exception as e:\n"
            "        return None\n"
            "    finally:\n"
            "        v = 0\n"
            "add = outer(2)\n"
            "res = apply(add, 5)\n"
            "sq = lambda t: t * t\n"
            "res2 = apply(sq, res)\n"),
    },
    "data": {
        "pkg/__init__.py": "",
        "pkg/store.py": (
            "class Store:\n"
            "    def __init__(self):\n"
            "        self.items = []\n"
            "        self.index = {}\n"
            "    def add(self, key, value):\n"
            "        self.items.append(value)\n"
            "        self.index[key] = len(self.items) - 1\n"
            "    def find(self, key):\n"
            "        pos = self.index.get(key)\n"
            "        if pos is None:\n"
            "            return None\n"
            "        return self.items[pos]\n"),
        "app.py": (
            "from pkg.store import Store\n"
            "def fill(s, n):\n"
            "    for i in range(n):\n"
            "        s.add('k' + str(i), i * i)\n"
            "    return s\n"
            "def main():\n"
            "    s = fill(Store(), 4)\n"
            "    a, b = s.find('k1'), s.find('zz')\n"
            "    return a if b is None else b\n"
            "out = main()\n"),
    },
    "empty": {
        "a.py": "x = 1\n",
        "b.py": "",
    },
}
PROGRAM_ORDER = ["classes", "imports", "loops", "inherit", "closures", "data", "empty"]


# ---------------------------------------------------------------------------------------------
# save name -> how it updates the expectation and how the same view is read back

BUNDLE, FILE = "bundle", "file"


class View:
    """One observable view of the loader: family name, how to read key k from a Loader, bundle or file."""

    def __init__(self, family, kind, read):
        self.family, self.kind, self.read = family, kind, read


def _cs():
    return N._lian()[0]


def _callsite(k):
    return _cs().CallSite(*k)


VIEWS = {}


def view(family, kind):
    def deco(fn):
        VIEWS[family] = View(family, kind, fn)
        return fn
    return deco


def _simple(family, kind, getter, norm):
    VIEWS[family] = View(family, kind, lambda L, k, _g=getter, _n=norm: _n(getattr(L, _g)(k)))


_simple("gir", BUNDLE, "get_unit_gir", N.rows)
_simple("scope_hierarchy", BUNDLE, "get_unit_scope_hierarchy", N.rows)
_simple("export_symbols", BUNDLE, "get_unit_export_symbols", N.rows)
_simple("decl_summary", BUNDLE, "get_unit_symbol_decl_summary", N.decl_summary)
_simple("symbol_name_to_decl_ids", BUNDLE, "get_unit_symbol_name_to_decl_ids", N.dict_of_sets)
_simple("class_members", BUNDLE, "convert_class_id_to_members", N.dict_of_sets)
_simple("cfg", BUNDLE, "get_method_cfg", N.cfg)
for _p in ("p1", "p2", "p3"):
    _simple("stmt_status_" + _p, BUNDLE, "get_stmt_status_" + _p, N.stmt_status)
    _simple("space_" + _p, BUNDLE, "get_symbol_state_space_" + _p, N.space)
    _simple("defined_symbols_" + _p, BUNDLE, "get_method_defined_symbols_" + _p, N.defined)
for _p in ("p2", "p3"):
    _simple("space_summary_" + _p, BUNDLE, "get_symbol_state_space_summary_" + _p, N.space)
    _simple("symbol_bitvec_" + _p, BUNDLE, "get_symbol_bit_vector_" + _p, N.bitvec)
    _simple("state_bitvec_" + _p, BUNDLE, "get_state_bit_vector_" + _p, N.bitvec)
    VIEWS["param_mapping_" + _p] = View("param_mapping_" + _p, BUNDLE,
                                        lambda L, k, _p=_p: N.param_mapping(getattr(L, "get_parameter_mapping_" + _p)(_callsite(k))))
_simple("symbol_bitvec_p1", BUNDLE, "get_symbol_bit_vector_p1", N.bitvec)
_simple("defined_states_p1", BUNDLE, "get_method_defined_states_p1", N.defined)
_simple("defined_states_p2", BUNDLE, "get_method_defined_states_p2", N.defined)
_simple("used_symbols", BUNDLE, "get_method_used_symbols", N.dict_of_sets)
_simple("symbol_graph_p2", BUNDLE, "get_method_symbol_graph_p2", N.symbol_graph)
VIEWS["symbol_graph_p3"] = View("symbol_graph_p3", BUNDLE, lambda L, k: N.symbol_graph(L._symbol_graph_p3_loader.get_item_by_id(k)))
_simple("sfg_p2", BUNDLE, "get_method_sfg", N.sfg)
_simple("sfg_p3", BUNDLE, "get_global_sfg_by_entry_point", N.sfg)

VIEWS["max_gir_id"] = View("max_gir_id", FILE, lambda L, k: N.scalar(L.get_max_gir_id()))
VIEWS["module_symbols"] = View("module_symbols", FILE, lambda L, k: N.rows(L.get_module_symbol_table()))
_simple("unit_to_stmt_ids", FILE, "convert_unit_id_to_stmt_ids", N.id_list)
_simple("stmt_to_unit", FILE, "convert_stmt_id_to_unit_id", N.scalar)
for _one, _many in (("unit", "method"), ("unit", "class"), ("unit", "namespace"), ("unit", "variable"),
                    ("unit", "import_stmt"), ("method", "parameter"), ("class", "method"), ("class", "field")):
    _simple("%s_to_%s_ids" % (_one, _many), FILE, "convert_%s_id_to_%s_ids" % (_one, _many), N.id_set)
    _simple("%s_to_%s" % (_many, _one), FILE, "convert_%s_id_to_%s_id" % (_many, _one), N.scalar)
_simple("class_to_stmt_ids", FILE, "convert_class_id_to_stmt_ids", N.id_list)
_simple("method_to_stmt_ids", FILE, "convert_method_id_to_stmt_ids", N.id_list)
_simple("stmt_to_class", FILE, "convert_stmt_id_to_class_id", N.scalar)
_simple("stmt_to_method", FILE, "convert_stmt_id_to_method_id", N.scalar)
_simple("method_name", FILE, "convert_method_id_to_method_name", N.scalar)
_simple("name_to_methods", FILE, "convert_method_name_to_method_ids", N.id_set)
_simple("class_name", FILE, "convert_class_id_to_class_name", N.scalar)
_simple("name_to_classes", FILE, "convert_class_name_to_class_ids", N.id_set)
VIEWS["stmt_to_scope"] = View("stmt_to_scope", FILE, lambda L, k: N.scalar(L._stmt_id_to_scope_id_loader.get(k)))
VIEWS["entry_points"] = View("entry_points", FILE, lambda L, k: N.id_set(L.get_entry_points()))
VIEWS["import_graph"] = View("import_graph", FILE, lambda L, k: N.import_graph(L.get_import_graph()))
VIEWS["import_nodes"] = View("import_nodes", FILE, lambda L, k: N.import_nodes(L.get_import_graph_nodes()))
VIEWS["import_deps"] = View("import_deps", FILE, lambda L, k: N.plain_edges(L.get_import_deps()))
_simple("methods_in_class", FILE, "get_methods_in_class", N.methods_in_class)
VIEWS["type_graph"] = View("type_graph", FILE, lambda L, k: N.type_graph(L.get_type_graph()))
_simple("method_decl_format", FILE, "convert_method_id_to_method_decl_format", N.row_dict)
_simple("call_stmt_format", FILE, "convert_stmt_id_to_call_stmt_format", N.row_dict)
_simple("internal_callees", FILE, "get_method_internal_callees", N.internal_callees)
_simple("def_use_summary", FILE, "get_method_def_use_summary", N.def_use_summary)
VIEWS["call_graph_p1"] = View("call_graph_p1", FILE, lambda L, k: N.call_graph(L.get_classified_method_call()))
VIEWS["call_graph_p2"] = View("call_graph_p2", FILE, lambda L, k: N.call_graph(L.get_call_graph_p2()))
VIEWS["grouped_methods"] = View("grouped_methods", FILE, lambda L, k: N.grouped_methods(L.get_grouped_methods()))
_simple("summary_template", FILE, "get_method_summary_template", N.method_summary)
_simple("summary_instance", FILE, "get_method_summary_instance", N.method_summary)
VIEWS["call_paths"] = View("call_paths", FILE, lambda L, k: N.call_paths(L.get_call_paths_p3()))
_simple("external_symbol_ids", FILE, "get_method_external_symbol_id_collection", N.id_set)


CLS = {
    "gir": "UnitGIRLoader", "scope_hierarchy": "ScopeHierarchyLoader", "export_symbols": "UnitIDToExportSymbolsLoader",
    "decl_summary": "UnitSymbolDeclSummaryLoader", "symbol_name_to_decl_ids": "SymbolNameToDeclIDsLoader",
    "class_members": "ClassIDToMembersLoader", "cfg": "CFGLoader", "used_symbols": "MethodSymbolToUsedLoader",
    "max_gir_id": "UniqueSymbolIDAssignerLoader", "module_symbols": "ModuleSymbolsLoader",
    "unit_to_stmt_ids": "UnitIDToStmtIDLoader", "stmt_to_unit": "UnitIDToStmtIDLoader",
    "method_name": "MethodIDToMethodNameLoader", "name_to_methods": "MethodIDToMethodNameLoader",
    "class_name": "ClassIdToNameLoader", "name_to_classes": "ClassIdToNameLoader",
    "stmt_to_scope": "StmtIDToScopeIDLoader", "entry_points": "EntryPointsLoader", "import_graph": "ImportGraphLoader",
    "import_nodes": "ImportGraphLoader", "import_deps": "ImportGraphLoader", "methods_in_class": "ClassIDToMethodsLoader[inherited]",
    "type_graph": "TypeGraphLoader", "method_decl_format": "MethodIDToMethodDeclFormatLoader",
    "call_stmt_format": "CallStmtIDToCallFormatInfoLoader", "internal_callees": "MethodInternalCalleesLoader",
    "def_use_summary": "MethodDefUseSummaryLoader", "call_graph_p1": "CallGraphLoader", "call_graph_p2": "CallGraphLoader",
    "grouped_methods": "GroupedMethodsLoader", "summary_template": "MethodSummaryLoader",
    "summary_instance": "MethodSummaryLoader(instance)", "call_paths": "CallPathLoader",
    "external_symbol_ids": "ExternalSymbolIDCollectionLoader",
}
for _f in list(VIEWS):
    if _f in CLS:
        continue
    if _f.startswith("stmt_status"):
        CLS[_f] = "StmtStatusLoader"
    elif _f.startswith("space"):
        CLS[_f] = "SymbolStateSpaceLoader"
    elif _f.startswith("defined_symbols"):
        CLS[_f] = "MethodSymbolToDefinedLoader"
    elif _f.startswith("defined_states"):
        CLS[_f] = "MethodStateToDefinedLoader"
    elif "bitvec" in _f:
        CLS[_f] = "BitVectorManagerLoader"
    elif _f.startswith("param_mapping"):
        CLS[_f] = "CalleeParameterMapping"
    elif _f.startswith("symbol_graph"):
        CLS[_f] = "SymbolGraphLoader"
    elif _f.startswith("sfg"):
        CLS[_f] = "StateFlowGraphLoader"
    else:
        CLS[_f] = "OneToManyMapLoader"


def _kv(family, norm, unit_arg=False):
    def upd(model, a):
        model[(family, a[0])] = norm(a[1], a[0]) if unit_arg else norm(a[1])
    return upd


def _whole(family, norm):
    def upd(model, a):
        model[(family, None)] = norm(a[0])
    return upd


def _one_to_many(fam_fwd, fam_back, ordered=False):
    def upd(model, a):
        one, many = a
        if len(many) == 0:
            return          # OneToManyMapLoader.save: nothing to remember for an empty collection
        model[(fam_fwd, one)] = N.id_list(many) if ordered else N.id_set(many)
        for m in many:
            model[(fam_back, N.scalar(m))] = N.scalar(one)
    return upd


def _name_map(fam_id_to_name, fam_name_to_ids):
    def upd(model, a):
        _id, name = a
        model[(fam_id_to_name, _id)] = N.scalar(name)
        cur = model.get((fam_name_to_ids, name), EMPTY)
        cur = [] if cur == EMPTY else list(cur)
        model[(fam_name_to_ids, name)] = N.as_set(cur + [_id])
    return upd


def _upd_stmt_ids(model, a):
    unit_id, ids = a
    if len(ids) == 0:
        return
    model[("unit_to_stmt_ids", unit_id)] = N.id_list(ids)
    for s in ids:
        model[("stmt_to_unit", N.scalar(s))] = N.scalar(unit_id)


def _upd_scope(model, a):
    for k, v in a[0].items():
        model[("stmt_to_scope", N.scalar(k))] = N.scalar(v)


def _upd_entry(model, a):
    cur = model.get(("entry_points", None), EMPTY)
    cur = [] if cur == EMPTY else list(cur)
    model[("entry_points", None)] = N.as_set(cur + list(a[0])) or EMPTY


def _upd_all_members(model, a):
    for cid, members in a[0].items():
        model[("class_members", cid)] = N.dict_of_sets(members)


def _upd_external(model, a):
    method_id, coll = a
    model[("external_symbol_ids", method_id)] = N.id_set(list(coll.values()) if isinstance(coll, dict) else coll)


def _upd_param(p):
    def upd(model, a):
        model[("param_mapping_" + p, tuple(a[0].to_tuple()))] = N.param_mapping(a[1])
    return upd


def _upd_sfg_p3(model, a):
    model[("sfg_p3", a[0])] = N.sfg(a[1].graph)


SAVES = {
    "save_module_symbols": _whole("module_symbols", N.rows),
    "save_unit_gir": _kv("gir", N.rows, unit_arg=True),
    "save_max_gir_id": _whole("max_gir_id", N.scalar),
    "save_unit_symbol_decl_summary": _kv("decl_summary", N.decl_summary),
    "save_unit_id_to_stmt_ids": _upd_stmt_ids,
    "save_unit_id_to_method_ids": _one_to_many("unit_to_method_ids", "method_to_unit"),
    "save_unit_id_to_class_ids": _one_to_many("unit_to_class_ids", "class_to_unit"),
    "save_unit_id_to_namespace_ids": _one_to_many("unit_to_namespace_ids", "namespace_to_unit"),
    "save_unit_id_to_variable_ids": _one_to_many("unit_to_variable_ids", "variable_to_unit"),
    "save_unit_id_to_import_stmt_ids": _one_to_many("unit_to_import_stmt_ids", "import_stmt_to_unit"),
    "save_method_id_to_parameter_ids": _one_to_many("method_to_parameter_ids", "parameter_to_method"),
    "save_class_id_to_method_ids": _one_to_many("class_to_method_ids", "method_to_class"),
    "save_class_id_to_field_ids": _one_to_many("class_to_field_ids", "field_to_class"),
    "save_class_id_to_stmt_ids": _one_to_many("class_to_stmt_ids", "stmt_to_class", ordered=True),
    "save_method_id_to_stmt_ids": _one_to_many("method_to_stmt_ids", "stmt_to_method", ordered=True),
    "save_method_id_to_method_name": _name_map("method_name", "name_to_methods"),
    "save_class_id_to_class_name": _name_map("class_name", "name_to_classes"),
    "save_all_class_id_to_members": _upd_all_members,
    "save_class_id_to_members": _kv("class_members", N.dict_of_sets),
    "save_stmt_id_to_scope_id": _upd_scope,
    "save_unit_symbol_name_to_decl_ids": _kv("symbol_name_to_decl_ids", N.dict_of_sets),
    "save_unit_scope_hierarchy": _kv("scope_hierarchy", N.rows),
    "save_entry_points": _upd_entry,
    "save_unit_export_symbols": _kv("export_symbols", N.rows, unit_arg=True),
    "save_import_graph": _whole("import_graph", N.import_graph),
    "save_import_graph_nodes": _whole("import_nodes", N.import_nodes),
    "save_import_deps": _whole("import_deps", N.plain_edges),
    "save_methods_in_class": _kv("methods_in_class", N.methods_in_class),
    "save_type_graph": _whole("type_graph", N.type_graph),
    "save_method_id_to_method_decl_format": _kv("method_decl_format", N.row_dict),
    "save_stmt_id_to_call_stmt_format": _kv("call_stmt_format", N.row_dict),
    "save_method_cfg": _kv("cfg", N.cfg),
    "save_method_internal_callees": _kv("internal_callees", N.internal_callees),
    "save_method_def_use_summary": _kv("def_use_summary", N.def_use_summary),
    "save_method_used_symbols": _kv("used_symbols", N.dict_of_sets),
    "save_method_defined_states_p1": _kv("defined_states_p1", N.defined),
    "save_method_defined_states_p2": _kv("defined_states_p2", N.defined),
    "save_classified_method_call": _whole("call_graph_p1", N.call_graph),
    "save_call_graph_p2": _whole("call_graph_p2", N.call_graph),
    "save_grouped_methods": _whole("grouped_methods", N.grouped_methods),
    "save_method_summary_template": _kv("summary_template", N.method_summary),
    "save_method_summary_instance": _kv("summary_instance", N.method_summary),
    "save_call_paths_p3": _whole("call_paths", N.call_paths),
    "save_method_external_symbol_id_collection": _upd_external,
    "save_parameter_mapping_p2": _upd_param("p2"),
    "save_parameter_mapping_p3": _upd_param("p3"),
    "save_method_symbol_graph_p2": _kv("symbol_graph_p2", N.symbol_graph),
    "save_method_symbol_graph_p3": _kv("symbol_graph_p3", N.symbol_graph),
    "save_method_sfg": _kv("sfg_p2", N.sfg),
    "save_global_sfg_by_entry_point": _upd_sfg_p3,
    "save_symbol_bit_vector_p1": _kv("symbol_bitvec_p1", N.bitvec),
}
for _p in ("p1", "p2", "p3"):
    SAVES["save_stmt_status_" + _p] = _kv("stmt_status_" + _p, N.stmt_status)
    SAVES["save_symbol_state_space_" + _p] = _kv("space_" + _p, N.space)
    SAVES["save_method_defined_symbols_" + _p] = _kv("defined_symbols_" + _p, N.defined)
for _p in ("p2", "p3"):
    SAVES["save_symbol_state_space_summary_" + _p] = _kv("space_summary_" + _p, N.space)
    SAVES["save_symbol_bit_vector_" + _p] = _kv("symbol_bitvec_" + _p, N.bitvec)
    SAVES["save_state_bit_vector_" + _p] = _kv("state_bitvec_" + _p, N.bitvec)


class Recorder:
    """Wraps every Loader.save_* for the duration of a run."""

    def __init__(self):
        self.model = {}            # (family, key) -> normal form of what was saved (value at the time of the call)
        self.calls = {}            # save name -> count
        self.unmapped = set()
        self.errors = []
        self._orig = {}

    def __enter__(self):
        from lian.util import loader as L
        for name in dir(L.Loader):
            if not name.startswith("save_"):
                continue
            orig = getattr(L.Loader, name)
            self._orig[name] = orig
            setattr(L.Loader, name, self._wrap(name, orig))
        return self

    def _wrap(self, name, orig):
        rec = self

        def wrapper(self_loader, *a, **k):
            rec.calls[name] = rec.calls.get(name, 0) + 1
            upd = SAVES.get(name)
            if upd is None:
                rec.unmapped.add(name)
            else:
                try:
                    upd(rec.model, a)
                except Exception:
                    rec.errors.append("recording %s: %s" % (name, traceback.format_exc(limit=3)))
            return orig(self_loader, *a, **k)
        return wrapper

    def __exit__(self, *exc):
        from lian.util import loader as L
        for name, orig in self._orig.items():
            setattr(L.Loader, name, orig)
        return False


def _read(view_obj, loader, key):
    """-> ('ok', normal form) | ('exc', 'exception:Type@function[detail]')"""
    import re
    out, err = io.StringIO(), io.StringIO()
    try:
        with contextlib.redirect_stdout(out), contextlib.redirect_stderr(err):
            return "ok", view_obj.read(loader, key)
    except BaseException as e:      # SystemExit from error_and_quit included
        if isinstance(e, KeyboardInterrupt):
            raise
        tb = traceback.extract_tb(e.__traceback__)
        fn = next((f.name for f in reversed(tb) if "/lian/" in f.filename), tb[-1].name if tb else "?")
        detail = ""
        if isinstance(e, SystemExit):
            m = re.findall(r'Failed to find column \\?"(\w+)', err.getvalue() + out.getvalue())
            detail = "[no-column:%s]" % (m[-1] if m else "?")
            try:        # the other root cause of the same message: a bundle written without rows
                import pandas as pd
                for sub in loader._all_loaders:
                    if type(sub).__name__ == CLS.get(view_obj.family) and key in getattr(sub, "item_id_to_bundle_id", {}):
                        b = sub.item_id_to_bundle_id[key]
                        if b >= 0 and os.path.exists(sub.get_bundle_path(b)) and len(pd.read_feather(sub.get_bundle_path(b))) == 0:
                            detail = "[empty-bundle]"
            except Exception:
                pass
        return "exc", "exception:%s@%s%s" % (type(e).__name__, fn, detail)


def run_program(name, enable_p2, max_rows=None):
    """Analyse one fixed program.  Returns dict(discrepancies=[(sig, what, case)], stats={...}, error=str|None)."""
    from harness import lianrun
    from lian.config import config
    from lian.util import loader as L
    files = PROGRAMS[name]
    case = {"kind": "real", "program": name, "enable_p2": bool(enable_p2), "max_rows": max_rows}
    result = {"discrepancies": [], "stats": {}, "error": None, "case": case}
    sd = lianrun.write_settings(os.path.join(lianrun.scratch_dir(), "c15-settings"),
                                entry=[{"method_list": ["%unit_init"]}])
    old_rows = config.MAX_ROWS
    res = None
    try:
        with Recorder() as rec:
            # analyze() restores lian's module-level constants from a snapshot on entry, so the row limit has to be
            # set after that: do it when the Loader is constructed
            orig_init = L.Loader.__init__

            def init(self, options, _o=orig_init):
                if max_rows is not None:
                    config.MAX_ROWS = max_rows
                _o(self, options)
            L.Loader.__init__ = init
            try:
                res = lianrun.analyze(files, settings_dir=sd, enable_p2=enable_p2)
            finally:
                L.Loader.__init__ = orig_init
        if res.exc is not None:
            if max_rows is not None:
                # with the default row limit the same project is analysed without error: the pipeline cannot consume
                # what the loader returns once a bundle has been exported in mid-run
                e = res.exc
                tb = traceback.extract_tb(e.__traceback__)
                fn = next((f.name for f in reversed(tb) if "/lian/" in f.filename), tb[-1].name if tb else "?")
                result["discrepancies"].append((("C15", "pipeline", "bundle-rollover", "exception:%s@%s" % (type(e).__name__, fn)),
                                                "real/%s: with MAX_ROWS=%d the analysis dies with %r" % (name, max_rows, e), case))
                result["stats"]["keys"] = 0
                return result
            tb = traceback.extract_tb(res.exc.__traceback__)
            if any(f.filename.endswith(("lian/util/loader.py", "lian/util/data_model.py")) for f in tb):
                # the fixed projects are analysed without error on the reference tree: the pipeline died inside the loader
                fn = next((f.name for f in reversed(tb) if "/lian/" in f.filename), "?")
                result["discrepancies"].append((("C15", "pipeline", "default-rows", "exception:%s@%s" % (type(res.exc).__name__, fn)),
                                                "real/%s: the analysis dies inside the loader with %r" % (name, res.exc), case))
                result["stats"]["keys"] = 0
                return result
            result["error"] = "analysis of %s failed: %r\n%s" % (name, res.exc, res.stderr[-600:])
            return result
        if rec.errors:
            result["error"] = rec.errors[0]
            return result
        result["stats"]["unmapped"] = sorted(rec.unmapped)
        result["stats"]["save_calls"] = dict(rec.calls)
        result["stats"]["diagnostics"] = [l for l in (res.stdout + res.stderr).splitlines()
                                          if "Could not convert" in l or "Conversion failed" in l][:5]
        if max_rows is not None:
            config.MAX_ROWS = max_rows
        orig_loader = res.loader
        out, err = io.StringIO(), io.StringIO()
        with contextlib.redirect_stdout(out), contextlib.redirect_stderr(err):
            fresh = L.Loader(res.lian.options)
            fresh.restore()
        result["stats"]["restore_output"] = (out.getvalue() + err.getvalue())[-400:]
        n_keys = n_inproc_bad = n_restore_bad = 0
        families = {}

        def report(family, key, phase, expected, got):
            cls = CLS[family]
            if got == EMPTY:
                result["discrepancies"].append((("C15", cls, phase, "lost"),
                                                "real/%s key=%r: %s returns nothing" % (family, key, phase), case))
                return
            diffs = N.diff_paths(expected, got, limit=40)
            seen = set()
            for pth, how in diffs:
                kind = "field:" + N.field_of(pth, how)
                if kind in seen:
                    continue
                seen.add(kind)
                result["discrepancies"].append((("C15", cls, phase, kind),
                                                "real/%s key=%r: %s differs from what was saved at %s %s" % (family, key, phase, pth, how), case))

        for (family, key), expected in sorted(rec.model.items(), key=lambda kv: (kv[0][0], str(kv[0][1]))):
            v = VIEWS[family]
            n_keys += 1
            families[family] = families.get(family, 0) + 1
            st, got = _read(v, orig_loader, key)
            if v.kind == FILE and st == "ok" and got != expected:
                # file loaders keep a reference to the saved object: the pipeline went on mutating it after the
                # save; what the loader holds at the end of the run is what export() wrote
                result["stats"]["mutated_after_save"] = result["stats"].get("mutated_after_save", 0) + 1
                expected = got
            elif st == "exc":
                n_inproc_bad += 1
                result["discrepancies"].append((("C15", CLS[family], "read", got),
                                                "real/%s key=%r: in-process read raised %s" % (family, key, got), case))
            elif got != expected:
                n_inproc_bad += 1
                report(family, key, "read", expected, got)
                # what was saved is still what the files must give back
            st, got2 = _read(v, fresh, key)
            if st == "exc":
                n_restore_bad += 1
                result["discrepancies"].append((("C15", CLS[family], "restore", got2),
                                                "real/%s key=%r: read from a fresh loader raised %s" % (family, key, got2), case))
            elif got2 != expected:
                n_restore_bad += 1
                report(family, key, "restore", expected, got2)
        result["stats"].update({"keys": n_keys, "inproc_bad": n_inproc_bad, "restore_bad": n_restore_bad,
                                "families": families})
        return result
    finally:
        config.MAX_ROWS = old_rows
        if res is not None:
            lianrun.cleanup(res)
