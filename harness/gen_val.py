"""'values' profile (C08, C09): Python programs over integer / string constants, constant arithmetic and
concatenation, one allocation per variable, aliasing by copy and by parameter passing, distinct field names,
branches each guarded by its own opaque entry parameter, helper functions called from several sites.

A program is a dict {"lines": [...], "params": k, "defs": {line_no: var}}; one simple statement per line.
"""
from hypothesis import strategies as st

HEADER = [
    "class K0:",
    "    def __init__(self, v):",
    "        self.f0 = v",
    "        self.f1 = 0",
    "class K1:",
    "    def __init__(self, v):",
    "        self.g0 = v",
    "def ident(q):",
    "    return q",
    "def getf0(o):",
    "    return o.f0",
    "def setf1(o, v):",
    "    o.f1 = v",
    "    return v",
    "def const5():",
    "    return 5",
    "def add1(q):",
    "    r = q + 1",
    "    return r",
]
# lines of the header that define a variable (1-based line -> var), used for ground truth inside helpers
HEADER_DEFS = {18: "r"}

STR_CONSTS = ["a", "bc", "", "x y", "k9", "a  b", "   "]
HOSTILE = ['x" * 3 + "', '" + str(1) + "', "\\\\", "'\"'", "__import__('os')", "9" * 60, "%s%d{}", "a\\nb", '"', "' + 'z", "two  blanks   three", "    "]


class G:
    def __init__(self, draw, loops, lists, hostile=False, empty_string=True, callee_field_write=True, loop_overwrite=True,
                 callee_revisit=True, single_loop=False):
        self.draw = draw
        self.single_loop = single_loop           # at most one loop per program
        self.loop_overwrite = loop_overwrite
        self.callee_revisit = callee_revisit     # generated callees may be called in or after a loop (the call is visited again)
        self.in_loop = 0
        self.frozen = set()
        self.callee_field_write = callee_field_write
        self.empty_string = empty_string
        self.n = 0
        self.cond = 0
        self.loops = loops
        self.lists = lists
        self.hostile = hostile
        self.lines = []
        self.defs = {}
        self.labels = set()
        self.multi = set()        # variables that may hold more than one value (assigned under a branch, or derived)
        self.written = set()
        self.list_len = {}
        self.fw_log = []          # (object variable, field) of every direct field write, in emission order
        self.helpers = []         # generated callees: (name, returns an object?, body lines); placed after m0

    def fresh(self, p):
        self.n += 1
        return "%s%d" % (p, self.n)

    def pick(self, seq):
        return seq[self.draw(st.integers(0, len(seq) - 1))]

    def coin(self, a=1, b=2):
        return self.draw(st.integers(0, b - 1)) < a

    def emit(self, indent, text, var=None, multi=False):
        self.lines.append("    " * indent + text)
        if var is not None:
            self.written.add(var)
            if multi:
                self.multi.add(var)
            else:
                self.multi.discard(var)
        if var is not None:
            self.defs[len(HEADER) + 1 + len(self.lines)] = var      # +1: the def m0 line


def str_lit(g):
    s = g.pick(STR_CONSTS if g.empty_string else [x for x in STR_CONSTS if x != ""])
    return '"%s"' % s


def gen_stmt(g, env, indent, depth):
    """env: var -> kind in int/str/obj0/obj1/list"""
    ints = [v for v, k in env.items() if k == "int"]
    strs = [v for v, k in env.items() if k == "str"]
    objs0 = [v for v, k in env.items() if k == "obj0"]
    objs1 = [v for v, k in env.items() if k == "obj1"]
    lists = [v for v, k in env.items() if k == "list"]
    r = g.draw(st.integers(0, 31))
    if r >= 24 and not (objs0 and g.callee_field_write and (g.callee_revisit or "loop" not in g.labels)):
        r = g.draw(st.integers(0, 23))      # no generated callee possible here: another statement kind instead
    w_ints = [v for v in ints if v not in g.frozen]
    w_strs = [v for v in strs if v not in g.frozen]
    if r <= 2 or not ints:
        v = g.fresh("v") if not w_ints or g.coin() else g.pick(w_ints)
        if v in env:
            g.labels.add("overwrite")
        env[v] = "int"
        g.emit(indent, "%s = %d" % (v, g.draw(st.integers(0, 9))), v)
        return
    if r == 3:
        v = g.fresh("s") if not w_strs or g.coin() else g.pick(w_strs)
        env[v] = "str"
        g.emit(indent, "%s = %s" % (v, str_lit(g)), v)
        return
    if r <= 6 and g.cond <= 3 and depth < 2 and g.coin(1, 4):
        # both operands of one binary operation multi-valued, over OVERLAPPING constants, non-commutative operator in
        # half of the cases: the abstract result is the set of results of ALL operand pairs, (x, y) and (y, x) alike
        # (seed C09-m3 folded each unordered pair once)
        g.labels.add("binary_operation_two_multi_valued_operands")
        g.labels.add("branch")
        pq = []
        lo = g.draw(st.integers(0, 6))
        for _ in range(2):
            c = "c%d" % g.cond
            g.cond += 1
            x = g.fresh("v")
            k1 = lo + g.draw(st.integers(0, 2))
            k2 = lo + g.draw(st.integers(0, 2))
            g.emit(indent, "if %s:" % c)
            g.emit(indent + 1, "%s = %d" % (x, k1), x)
            g.emit(indent, "else:")
            g.emit(indent + 1, "%s = %d" % (x, k2), x, multi=True)
            env[x] = "int"
            pq.append(x)
        v = g.fresh("v")
        g.labels.add("binary_operation")
        g.emit(indent, "%s = %s %s %s" % (v, pq[0], g.pick(["-", "-", "+", "*"]), pq[1]), v, multi=True)
        env[v] = "int"
        return
    if r <= 6:
        v = g.fresh("v") if g.coin(2, 3) or not w_ints else g.pick(w_ints)
        if v in env:
            g.labels.add("overwrite")
        a = g.pick(ints)
        singles = [x for x in ints if x not in g.multi]
        if g.coin() and (a not in g.multi or singles):
            b = g.pick(ints) if a not in g.multi else g.pick(singles)
        else:
            b = str(g.draw(st.integers(0, 9)))
        op = g.pick(["+", "-", "*", "+"])
        g.labels.add("binary_operation")
        g.emit(indent, "%s = %s %s %s" % (v, a, op, b), v, multi=(a in g.multi or b in g.multi))
        env[v] = "int"
        return
    if r == 7 and strs:
        v = g.fresh("s")
        a = g.pick(strs)
        singles = [x for x in strs if x not in g.multi]
        if g.coin() and (a not in g.multi or singles):
            b = g.pick(strs) if a not in g.multi else g.pick(singles)
        else:
            b = str_lit(g)
        g.labels.add("concatenation")
        g.emit(indent, "%s = %s + %s" % (v, a, b), v, multi=(a in g.multi or b in g.multi))
        env[v] = "str"
        return
    if r == 8:
        v = g.fresh("o")
        g.labels.add("allocation")
        if g.coin(2, 3):
            g.emit(indent, "%s = K0(%s)" % (v, g.pick(ints)), v)
            env[v] = "obj0"
        else:
            g.emit(indent, "%s = K1(%s)" % (v, g.pick(ints)), v)
            env[v] = "obj1"
        return
    if r == 9 and (objs0 or objs1):
        src = g.pick(objs0 + objs1)
        v = g.fresh("o")
        g.labels.add("alias")
        g.emit(indent, "%s = %s" % (v, src), v)
        env[v] = env[src]
        return
    if r <= 11 and objs0:
        o = g.pick(objs0)
        f = g.pick(["f0", "f1"])
        g.labels.add("field_write")
        g.emit(indent, "%s.%s = %s" % (o, f, g.pick(ints) if g.coin() else str(g.draw(st.integers(0, 9)))))
        g.fw_log.append((o, f))
        return
    if r == 12 and objs1:
        o = g.pick(objs1)
        g.labels.add("field_write")
        g.emit(indent, "%s.g0 = %s" % (o, g.pick(ints)))
        g.fw_log.append((o, "g0"))
        return
    if r <= 14 and (objs0 or objs1):
        v = g.fresh("v")
        if objs0 and (not objs1 or g.coin(2, 3)):
            g.emit(indent, "%s = %s.%s" % (v, g.pick(objs0), g.pick(["f0", "f1"])), v, multi=True)
        else:
            g.emit(indent, "%s = %s.g0" % (v, g.pick(objs1)), v, multi=True)
        g.labels.add("field_read")
        env[v] = "int"
        return
    if r <= 17:
        v = g.fresh("v")
        k = g.draw(st.integers(0, 4))
        g.labels.add("helper_call")
        if k == 0:
            a = g.pick(ints)
            g.emit(indent, "%s = ident(%s)" % (v, a), v, multi=a in g.multi)
        elif k == 1 and objs0 and (g.callee_revisit or "loop" not in g.labels):
            # (a helper that reads or writes a field of its argument is not called in or after a loop while the
            # summary-revisit finding is open: the summary of the first visit would be applied to the changed object)
            g.emit(indent, "%s = getf0(%s)" % (v, g.pick(objs0)), v, multi=True)
        elif k == 2 and objs0 and g.callee_field_write and (g.callee_revisit or "loop" not in g.labels):
            o = g.pick(objs0)
            g.labels.add("callee_field_write")
            g.emit(indent, "%s = setf1(%s, %s)" % (v, o, g.pick(ints)), v, multi=True)
            env[v] = "int"
            w = g.fresh("v")
            g.emit(indent, "%s = %s.f1" % (w, g.pick([o] + objs0)), w, multi=True)
            env[w] = "int"
            return
        elif k == 3:
            g.emit(indent, "%s = const5()" % v, v)
        else:
            a = g.pick(ints)
            g.emit(indent, "%s = add1(%s)" % (v, a), v, multi=a in g.multi)
        env[v] = "int"
        return
    if r <= 19 and depth < 2 and g.cond < 5:
        c = "c%d" % g.cond
        g.cond += 1
        g.labels.add("branch")
        g.emit(indent, "if %s:" % c)
        fw0 = len(g.fw_log)
        outer_written, g.written = g.written, set()
        multi_before = set(g.multi)
        e1 = dict(env)
        for _ in range(g.draw(st.integers(1, 3))):
            gen_stmt(g, e1, indent + 1, depth + 1)
        multi_arm1 = set(g.multi)
        if g.coin(2, 3):
            g.emit(indent, "else:")
            g.multi = set(multi_before)
            e2 = dict(env)
            for _ in range(g.draw(st.integers(1, 2))):
                gen_stmt(g, e2, indent + 1, depth + 1)
        g.multi = multi_before | multi_arm1 | g.multi | {v for v in g.written if v in env}
        g.written = outer_written | g.written
        # variables existing before the branch keep their kind; new ones are not visible afterwards
        arm_writes = [(o, f) for (o, f) in g.fw_log[fw0:] if o in env]
        if arm_writes and g.coin():
            # the object reaches the join in two versions; the first statement after the join overwrites the field
            o, f = g.pick(arm_writes)
            g.labels.add("overwrite_after_join")
            g.emit(indent, "%s.%s = %d" % (o, f, g.draw(st.integers(0, 9))))
            g.fw_log.append((o, f))
            w = g.fresh("v")
            g.emit(indent, "%s = %s.%s" % (w, o, f), w, multi=True)
            env[w] = "int"
        return
    if r == 20 and g.lists:
        v = g.fresh("l")
        g.labels.add("list")
        k = g.draw(st.integers(2, 6))
        g.emit(indent, "%s = [%s]" % (v, ", ".join(g.pick(ints) if g.coin(2, 3) else str(g.draw(st.integers(10, 99))) for _ in range(k))), v)
        env[v] = "list"
        g.list_len[v] = k
        if g.coin():
            w = g.fresh("v")
            g.labels.add("element_read")
            g.emit(indent, "%s = %s[%d]" % (w, v, g.draw(st.integers(0, k - 1))), w, multi=True)
            env[w] = "int"
        return
    if r == 21 and g.lists and lists:
        v = g.fresh("v")
        g.labels.add("element_read")
        l = g.pick(lists)
        g.emit(indent, "%s = %s[%d]" % (v, l, g.draw(st.integers(0, g.list_len.get(l, 2) - 1))), v, multi=True)
        env[v] = "int"
        return
    if r == 22 and g.loops and depth < 2 and not (g.single_loop and "loop" in g.labels):
        e = g.fresh("e")
        g.labels.add("loop")
        g.emit(indent, "for %s in [%s]:" % (e, g.pick(ints)))
        e1 = dict(env)
        e1[e] = "int"
        outer_written, g.written = g.written, set()
        frozen_before = set(g.frozen)
        if not g.loop_overwrite:
            g.frozen |= set(env)
        for _ in range(g.draw(st.integers(1, 2))):
            gen_stmt(g, e1, indent + 1, depth + 1)
        g.frozen = frozen_before
        g.multi |= {v for v in g.written if v in env}
        g.written = outer_written | g.written
        return
    if r >= 24 and objs0 and g.callee_field_write and (g.callee_revisit or "loop" not in g.labels):
        # a generated callee: writes the fields of its parameter object, maybe through an alias, maybe on both sides
        # of an early return guarded by an opaque flag; called from one or several sites
        if g.helpers and (len(g.helpers) >= 2 or g.coin()):
            name, ret_obj, _, fields = g.pick(g.helpers)
            g.labels.add("generated_callee_reused")
        else:
            name, ret_obj, _, fields = gen_helper(g)
        g.labels.add("generated_callee")
        if g.cond < 5 and (g.cond == 0 or g.coin(2, 3)):
            c = "c%d" % g.cond
            g.cond += 1
        else:
            c = "c%d" % g.draw(st.integers(0, g.cond - 1))
        o = g.pick(objs0)
        v = g.fresh("o" if ret_obj else "v")
        g.emit(indent, "%s = %s(%s, %s, %s)" % (v, name, o, c, g.pick(ints)), v, multi=True)
        env[v] = "obj0" if ret_obj else "int"
        w = g.fresh("v")
        g.emit(indent, "%s = %s.%s" % (w, g.pick([o, o, v] if ret_obj else [o]), g.pick(fields + ["f0", "f1"])), w, multi=True)
        env[w] = "int"
        return
    v = g.fresh("v")
    env[v] = "int"
    a = g.pick(ints)
    g.emit(indent, "%s = %s" % (v, a), v, multi=a in g.multi)


def gen_helper(g):
    """A callee over (o: K0 object, c: opaque flag, v: int): field writes through the parameter or an alias of it,
    straight-line, on both sides of an early return, or under a branch."""
    name = "h%d" % len(g.helpers)
    body = []
    objs = ["o"]
    if g.coin(2, 3):
        body.append("q = o")
        objs = ["o", "q", "q"]
    ret_obj = g.coin()
    have_t = [False]
    written = []

    def value():
        return g.pick(["v", str(g.draw(st.integers(0, 9)))])

    def ret():
        if ret_obj:
            return g.pick(objs)
        return g.pick(["v", "7"] + (["t"] if have_t[0] else []))

    def write(indent=""):
        f = g.pick(["f0", "f1", "f1"])
        written.append(f)
        body.append("%s%s.%s = %s" % (indent, g.pick(objs), f, value()))

    def straight(n):
        for _ in range(n):
            if g.coin(1, 4):
                body.append("t = %s.%s" % (g.pick(objs), g.pick(["f0", "f1"])))
                have_t[0] = True
            else:
                write()

    shape = g.draw(st.integers(0, 3))
    straight(g.draw(st.integers(0, 2)))
    if shape <= 1:
        # two exits: the writes that reach them differ
        body.append("if c:")
        if g.coin():
            write("    ")
        body.append("    return " + ret())
        straight(g.draw(st.integers(1, 2)))
    elif shape == 2:
        body.append("if c:")
        write("    ")
        if g.coin():
            body.append("else:")
            write("    ")
        straight(g.draw(st.integers(0, 1)))
    else:
        straight(g.draw(st.integers(1, 2)))
    body.append("return " + ret())
    h = (name, ret_obj, ["def %s(o, c, v):" % name] + ["    " + x for x in body], written or ["f1"])
    g.helpers.append(h)
    return h


@st.composite
def programs(draw, loops=False, lists=False, max_stmts=14, empty_string=True, callee_field_write=True, loop_overwrite=True,
             callee_revisit=True, single_loop=False):
    g = G(draw, loops, lists, empty_string=empty_string, callee_field_write=callee_field_write, loop_overwrite=loop_overwrite,
          callee_revisit=callee_revisit, single_loop=single_loop)
    env = {}
    n = draw(st.integers(4, max_stmts))
    for _ in range(n):
        gen_stmt(g, env, 1, 0)
    # make every int / str variable observable at the end
    k = max(g.cond, 1)
    head = "def m0(%s):" % ", ".join("c%d" % i for i in range(k))
    lines = HEADER + [head] + g.lines
    for _, _, hl, _ in g.helpers:
        lines = lines + hl
    defs = dict(HEADER_DEFS)
    defs.update(g.defs)
    return {"source": "\n".join(lines) + "\n", "params": k, "defs": {int(a): b for a, b in defs.items()}, "labels": sorted(g.labels)}
