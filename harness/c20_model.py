"""C20 helpers: project renderer, settings writer and the REFERENCE MATCHER for entry rules.

The reference matcher is written from the rule fields as the code documents them
(src/lian/basics/entry_points.py: comments "子串包含" = substring containment for unit_name / unit_path,
"全包含" = all listed attrs contained, method_list = list membership, lang / unit_id / method_id = equality)
and from docs/en/04.analysis/4-2.basics.md ("method names, modifier attributes, or file locations").
It shares no code with lian.
"""
import os

INIT = "%unit_init"
RULE_KEYS = ("lang", "unit_id", "unit_path", "unit_name", "method_id", "method_list", "attrs", "args", "return_type")
ENTRY_FILE = "entry.yaml"


# ---------------------------------------------------------------------------------------------
# which files of a settings directory are entry-rule files

def is_entry_file(basename, variant=None):
    """`entry.yaml` itself or `<something>-entry.yaml` with a non-empty first dash-separated token."""
    if variant == "all-yaml-files-loaded":
        return basename.endswith((".yaml", ".yml", ".bak"))
    if variant == "suffix-entry.yaml-loaded":
        return basename.endswith(ENTRY_FILE)
    if basename == ENTRY_FILE:
        return True
    if basename.endswith("-" + ENTRY_FILE):
        return len(basename.split("-")[0]) > 0
    return False


def file_default_lang(basename):
    if basename != ENTRY_FILE and basename.endswith("-" + ENTRY_FILE):
        return basename.split("-")[0]
    return ""


def loaded_rules(settings, variant=None):
    """settings: [{"path": rel, "rules": [...]} | {"path": rel, "text": raw}] -> [(rule, file default lang)]
    or the string "quit" when a loaded file holds a rule with an unknown key (deliberate error_and_quit)."""
    out = []
    for f in settings:
        rel = f["path"]
        if variant == "only-top-level-entry.yaml" and rel != ENTRY_FILE:
            continue
        if not is_entry_file(os.path.basename(rel), variant):
            continue
        if "rules" not in f:
            # raw text files of the generator: empty / comment-only (no rule, the file is skipped with an error
            # message) or a YAML document that is not a list of mappings (deliberate error_and_quit)
            if f.get("kind") == "not-a-rule-list":
                return "quit"
            continue
        for r in f["rules"]:
            if any(k not in RULE_KEYS for k in r):
                return "quit"
            out.append((r, file_default_lang(os.path.basename(rel))))
    return out


# ---------------------------------------------------------------------------------------------
# matching

def _avail(v):
    return v is not None and v != "" and v != [] and v != -1


def unit_ok(rule, unit, dlang, variant=None):
    """unit: {"path": rel, "abs": absolute unit path, "lang":..., "unit_id": int|None}"""
    lang = rule.get("lang", "")
    if variant == "file-name-default-lang" and not _avail(lang):
        lang = dlang
    if _avail(lang) and variant != "lang-ignored":
        if variant == "lang-substring":
            if lang not in unit["lang"]:
                return False
        elif variant == "lang-case-insensitive":
            if lang.lower() != unit["lang"].lower():
                return False
        elif lang != unit["lang"]:
            return False
    uid = rule.get("unit_id", -1)
    if isinstance(uid, int) and uid >= 0 and variant != "unit_id-ignored":
        if uid != unit.get("unit_id"):
            return False
    name = rule.get("unit_name", "")
    base = os.path.basename(unit["path"])
    if _avail(name) and variant != "unit_name-ignored":
        if variant == "unit_name-exact":
            if name != base:
                return False
        elif variant == "unit_name-vs-path":
            if name not in unit["abs"]:
                return False
        elif name not in base:
            return False
    path = rule.get("unit_path", "")
    if _avail(path) and variant != "unit_path-ignored":
        if variant == "unit_path-suffix":
            if not unit["abs"].endswith(path):
                return False
        elif variant == "unit_path-relative":
            if path not in unit["path"]:
                return False
        elif path not in unit["abs"]:
            return False
    return True


def attrs_contain(rule_attrs, attrs, variant=None):
    """attrs: list of the method's modifiers/decorators by construction.  The generator only emits
    alphanumeric rule attrs, so 'contained in the textual attrs of the method' == 'substring of one element'."""
    if variant == "attrs-ignored":
        return True
    if not attrs:
        return False
    if variant == "attrs-exact":
        return all(a in attrs for a in rule_attrs)
    hit = [any(a in e for e in attrs) for a in rule_attrs]
    if variant == "attrs-any":
        return any(hit)
    return all(hit)


def method_ok(rule, m, variant=None):
    mid = rule.get("method_id", -1)
    if isinstance(mid, int) and mid >= 0 and variant != "method_id-ignored":
        return mid == m.get("stmt_id")        # an id identifies the method; name/attrs are not consulted
    ml = rule.get("method_list", [])
    if _avail(ml) and variant != "method_list-ignored":
        if variant == "method_list-substring":
            if not any(m["name"] in x or x in m["name"] for x in ml):
                return False
        elif m["name"] not in ml:
            return False
    ra = rule.get("attrs", [])
    if _avail(ra):
        if not attrs_contain(ra, m["attrs"], variant):
            return False
    if _avail(rule.get("args", "")) or _avail(rule.get("return_type", "")):
        return False
    return True


def expected_entries(case, units, variant=None):
    """-> set of mids selected by the rule set, or "quit".
    units: {rel: unit dict}; case["methods"]: [{"mid","file","name","attrs","stmt_id"?...}]"""
    rules = loaded_rules(case["settings"], variant)
    if rules == "quit":
        return "quit"
    if variant == "first-rule-only":
        rules = rules[:1]
    sel = set()
    for m in case["methods"]:
        u = units[m["file"]]
        for r, dlang in rules:
            if unit_ok(r, u, dlang, variant) and method_ok(r, m, variant):
                sel.add(m["mid"])
                break
    if variant == "always-unit_init":
        sel |= {m["mid"] for m in case["methods"] if m["name"] == INIT}
    if variant == "never-unit_init":
        sel -= {m["mid"] for m in case["methods"] if m["name"] == INIT}
    return sel


VARIANTS = ["lang-substring", "lang-ignored", "lang-case-insensitive", "file-name-default-lang",
            "unit_name-ignored", "unit_name-exact", "unit_name-vs-path",
            "unit_path-ignored", "unit_path-suffix", "unit_path-relative", "unit_id-ignored", "method_id-ignored",
            "method_list-ignored", "method_list-substring", "attrs-ignored", "attrs-exact", "attrs-any",
            "always-unit_init", "never-unit_init", "all-yaml-files-loaded", "suffix-entry.yaml-loaded",
            "only-top-level-entry.yaml", "first-rule-only"]


def explain(case, units, got):
    """Name the first single deviation from the reference matcher that reproduces `got` (a set of mids)."""
    for v in VARIANTS:
        try:
            e = expected_entries(case, units, v)
        except Exception:
            continue
        if e != "quit" and e == got:
            return v
    return None


def reachable(case, roots):
    calls = {m["mid"]: m.get("calls", []) for m in case["methods"]}
    seen = set()
    todo = list(roots)
    while todo:
        x = todo.pop()
        if x in seen:
            continue
        seen.add(x)
        todo.extend(calls.get(x, []))
    return seen


# ---------------------------------------------------------------------------------------------
# rendering of a project spec into source files (+ by-construction facts)

def module_of(rel):
    return rel[:-3].replace("/", ".")


def render_project(spec):
    """spec: {"files": [{"path", "lang", "init": None | [callee mids], "methods": [mid...]}],
              "methods": {mid: {"name","kind","attrs","file","cls": None|str,"outer": None|mid,"calls":[mids]}}}
    -> (files {rel: text}, methods [fact dicts incl. the unit initialisers])."""
    M = spec["methods"]
    files = {}
    facts = {}
    next_mid = max(M) + 1 if M else 0
    init_facts = []
    for f in spec["files"]:
        rel = f["path"]
        if f["lang"] == "javascript":
            text = _render_js(f, M, facts)
        elif f["lang"] == "java":
            text = _render_java(f, M, facts)
        else:
            text = _render_py(f, M, facts, spec)
        files[rel] = text
        if f["init"] is not None:
            init_facts.append({"mid": next_mid, "file": rel, "name": INIT, "kind": "init", "attrs": [],
                               "line": None, "sink_line": None, "calls": sorted(set(f["init"]))})
            next_mid += 1
    out = [facts[k] for k in sorted(facts)] + init_facts
    return files, out


def _call_lines(caller_mid, callee_mids, M, arg, ind, in_init=False):
    lines = []
    caller = M.get(caller_mid) if caller_mid is not None else None
    for n, c in enumerate(callee_mids):
        cm = M[c]
        k = cm["kind"]
        if k in ("smeth", "cmeth"):
            lines.append("%s%s.%s(%s)" % (ind, cm["cls"], cm["name"], arg))
        elif k == "meth":
            if caller is not None and caller["kind"] == "meth" and caller["cls"] == cm["cls"] and caller["file"] == cm["file"] \
                    and caller.get("self_calls"):
                lines.append("%sself.%s(%s)" % (ind, cm["name"], arg))
            else:
                o = "o%s_%d" % ("i" if caller_mid is None else str(caller_mid), n)
                lines.append("%s%s = %s()" % (ind, o, cm["cls"]))
                lines.append("%s%s.%s(%s)" % (ind, o, cm["name"], arg))
        else:
            lines.append("%s%s(%s)" % (ind, cm["name"], arg))
    return lines


def _render_py(f, M, facts, spec):
    rel = f["path"]
    mids = f["methods"]
    lines = []
    # imports needed by this file
    imports = []
    callers = list(mids)
    wanted = []
    for mid in callers:
        wanted.extend(M[mid]["calls"])
    if f["init"] is not None:
        wanted.extend(f["init"])
    seen = set()
    for c in wanted:
        cm = M[c]
        if cm["file"] == rel:
            continue
        sym = cm["cls"] if cm["cls"] else cm["name"]
        key = (cm["file"], sym)
        if key in seen:
            continue
        seen.add(key)
        imports.append("from %s import %s" % (module_of(cm["file"]), sym))
    lines.extend(imports)
    if imports:
        lines.append("")

    def emit_method(mid, ind):
        m = M[mid]
        for d in m["attrs"]:
            if d != "async":
                lines.append("%s@%s" % (ind, d))
        if "classmethod" in m["attrs"]:
            params = "cls, p"
        elif m["kind"] == "meth":
            params = "self, p"
        else:
            params = "p"
        lines.append("%s%sdef %s(%s):" % (ind, "async " if "async" in m["attrs"] else "", m["name"], params))
        def_line = len(lines)
        v = "v%d" % mid
        lines.append("%s    %s = p" % (ind, v))
        lines.append("%s    sink(%s)" % (ind, v))
        sink_line = len(lines)
        facts[mid] = {"mid": mid, "file": rel, "name": m["name"], "kind": m["kind"], "attrs": list(m["attrs"]),
                      "line": def_line, "sink_line": sink_line, "calls": sorted(set(m["calls"]))}
        for inner in [x for x in mids if M[x].get("outer") == mid]:
            emit_method(inner, ind + "    ")
        lines.extend(_call_lines(mid, m["calls"], M, v, ind + "    "))
        lines.append("")

    top = [x for x in mids if M[x]["cls"] is None and M[x].get("outer") is None]
    for mid in top:
        emit_method(mid, "")
    classes = []
    for x in mids:
        c = M[x]["cls"]
        if c and c not in classes:
            classes.append(c)
    for c in classes:
        lines.append("class %s:" % c)
        for mid in [x for x in mids if M[x]["cls"] == c and M[x].get("outer") is None]:
            emit_method(mid, "    ")
    if f["init"] is not None:
        ind = ""
        if f.get("init_style") == "main_guard":
            lines.append('if __name__ == "__main__":')
            ind = "    "
        if f["init"]:
            lines.extend(_call_lines(None, f["init"], M, "1", ind))
        else:
            lines.append(ind + "t0 = 0")
    return "\n".join(lines) + "\n"


def _js_callee(M, c):
    cm = M[c]
    return "%s.%s" % (cm["cls"], cm["name"]) if cm["kind"] == "jsstatic" else cm["name"]


def _render_js(f, M, facts):
    rel = f["path"]
    lines = []

    def emit(mid, ind, head):
        m = M[mid]
        lines.append(ind + head)
        def_line = len(lines)
        v = "v%d" % mid
        lines.append("%s    var %s = p;" % (ind, v))
        lines.append("%s    sink(%s);" % (ind, v))
        sink_line = len(lines)
        for c in m["calls"]:
            lines.append("%s    %s(%s);" % (ind, _js_callee(M, c), v))
        lines.append(ind + "}")
        facts[mid] = {"mid": mid, "file": rel, "name": m["name"], "kind": m["kind"], "attrs": list(m["attrs"]),
                      "line": def_line, "sink_line": sink_line, "calls": sorted(set(m["calls"]))}

    classes = []
    for x in f["methods"]:
        c = M[x]["cls"]
        if c and c not in classes:
            classes.append(c)
    for c in classes:
        lines.append("class %s {" % c)
        for mid in [x for x in f["methods"] if M[x]["cls"] == c]:
            emit(mid, "    ", "static %s(p) {" % M[mid]["name"])
        lines.append("}")
    for mid in [x for x in f["methods"] if not M[x]["cls"]]:
        m = M[mid]
        emit(mid, "", "%sfunction %s(p) {" % ("async " if "async" in m["attrs"] else "", m["name"]))
    if f["init"] is not None:
        if f["init"]:
            for c in f["init"]:
                lines.append("%s(1);" % _js_callee(M, c))
        else:
            lines.append("var t0 = 0;")
    return "\n".join(lines) + "\n"


def _render_java(f, M, facts):
    """One public class named after the file; `package` statement <=> the unit has an initialiser
    (the package statement is the only top-level statement that is neither a declaration nor an import)."""
    rel = f["path"]
    cls = os.path.splitext(os.path.basename(rel))[0]
    lines = []
    if f["init"] is not None:
        lines.append("package %s;" % (os.path.dirname(rel).replace("/", ".") or "app"))
    lines.append("public class %s {" % cls)
    for mid in f["methods"]:
        m = M[mid]
        mods = " ".join(m["attrs"])
        lines.append("    %svoid %s(String p) {" % (mods + " " if mods else "", m["name"]))
        def_line = len(lines)
        v = "v%d" % mid
        lines.append("        String %s = p;" % v)
        lines.append("        sink(%s);" % v)
        sink_line = len(lines)
        for c in m["calls"]:
            lines.append("        %s(%s);" % (M[c]["name"], v))
        lines.append("    }")
        facts[mid] = {"mid": mid, "file": rel, "name": m["name"], "kind": m["kind"], "attrs": list(m["attrs"]),
                      "line": def_line, "sink_line": sink_line, "calls": sorted(set(m["calls"]))}
    lines.append("}")
    return "\n".join(lines) + "\n"


# ---------------------------------------------------------------------------------------------
# settings directory

LANGS = ("python", "javascript", "java")
SOURCE_RULES = [{"lang": l, "rules": [{"operation": "parameter_decl", "name": "p"}]} for l in LANGS]
SINK_RULES = [{"lang": l, "rules": [{"operation": "call_stmt", "name": "sink", "target": ["\\%arg0"]}]}
              for l in LANGS]


def resolve_rule(rule, unit_ids, stmt_ids):
    """Replace the symbolic ids "$unit:<rel>" / "$method:<mid>" by the numbers lian assigned."""
    r = dict(rule)
    v = r.get("unit_id")
    if isinstance(v, str) and v.startswith("$unit:"):
        r["unit_id"] = int(unit_ids.get(v[6:], 999999))
    v = r.get("method_id")
    if isinstance(v, str) and v.startswith("$method:"):
        r["method_id"] = int(stmt_ids.get(int(v[8:]), 999999))
    return r


def needs_ids(settings):
    for f in settings:
        for r in f.get("rules", []):
            for k in ("unit_id", "method_id"):
                if isinstance(r.get(k), str):
                    return True
    return False


def write_settings_dir(dirpath, settings):
    """Writes source/sink/propagation rule files and every entry file of `settings` (already resolved)."""
    import yaml
    os.makedirs(dirpath, exist_ok=True)
    for name, obj in (("source.yaml", SOURCE_RULES), ("sink.yaml", SINK_RULES), ("propagation.yaml", [])):
        with open(os.path.join(dirpath, name), "w") as fh:
            fh.write(yaml.safe_dump(obj, sort_keys=False))
    for f in settings:
        p = os.path.join(dirpath, f["path"])
        os.makedirs(os.path.dirname(p), exist_ok=True)
        with open(p, "w") as fh:
            if "rules" in f:
                fh.write(yaml.safe_dump(f["rules"], sort_keys=False) if f["rules"] else "[]\n")
            else:
                fh.write(f["text"])
    return dirpath
