"""C03 — well-formedness predicate over flattened GIR rows, crash bucketing, instrumented lowering.

The predicate is written from the code that relies on it:
  * GIRProcessing.flatten_stmt / flatten_block (lang_analysis.py): a statement row is followed by the
    blocks of its list-of-dict attributes; a block is `block_start`, children, `block_end`, both markers
    carrying the block id and the owner's id as parent; the attribute holds the block id.
  * basic.add_main_func: every row at parent 0 that is not a `*_decl` / import / export / type alias is
    moved (with its nested rows) under a synthetic `method_decl %unit_init` whose two ids lie above the
    unit's maximum.
  * DataModel.read_block (exactly two rows per block id) and GIRBlockViewer.__init__ (ids unique except a
    block_start/block_end pair, markers balanced).
Nothing here asserts; every function returns a list of (signature tuple, one-line text).
"""
import os
import re
import traceback

ID = "C03"

POS_ATTRS = frozenset(["start_row", "start_col", "end_row", "end_col"])
# int-valued attributes that are never block references
NON_BLOCK_INT_ATTRS = POS_ATTRS | frozenset(["stmt_id", "parent_stmt_id", "original_stmt", "unit_id"])
MARKERS = ("block_start", "block_end")

# Attribute names that are bodies in every producer and every consumer (docs 3-2.gir.md; read through
# read_block() by ControlFlowAnalysis / StmtDefUseAnalysis / scope analysis).  Only for these the converse
# direction of clause 3 is checked: an integer there must name a block owned by the statement.
ALWAYS_BODY_ATTRS = frozenset([
    "body", "then_body", "else_body", "init_body", "condition_prebody", "update_body",
    "parameters", "fields", "methods", "nested", "static_init", "init", "catch_body", "final_body",
])

# add_main_func's own rule for what stays at unit level
TOP_EXCLUDED = ("import_stmt", "from_import_stmt", "export_stmt", "type_alias_decl")
UNIT_INIT = "%unit_init"

# statements whose blocks are "class-initialiser blocks" in the sense of the property statement
CLASS_LIKE = frozenset(["class_decl", "interface_decl", "enum_decl", "record_decl", "struct_decl",
                        "annotation_type_decl", "union_decl"])


def is_int(v):
    return isinstance(v, int) and not isinstance(v, bool)


def stays_at_top(op):
    return op.endswith("_decl") or op in TOP_EXCLUDED


def sig(lang, clause, op):
    return (ID, "struct", lang, clause, str(op))


# ---------------------------------------------------------------------------------------------
# clauses 1-4 for one unit

def check_unit(rows, lang, lo=None, hi=None):
    """rows: list of flattened dicts of ONE unit after the default handlers.  [lo, hi) = the id interval
    the unit owns (start id given to the unit, start id of the next unit).  Returns discrepancies."""
    out = []
    seen = set()

    def add(clause, op, text):
        s = sig(lang, clause, op)
        if s not in seen:           # one report per root-cause class and unit
            seen.add(s)
            out.append((s, text))

    if not isinstance(rows, list):
        add("0:rows-not-a-list", type(rows).__name__, "lowering returned %s" % type(rows).__name__)
        return out

    # ---- shape of each row --------------------------------------------------------------------
    ok_rows = []
    for i, r in enumerate(rows):
        if not isinstance(r, dict) or not isinstance(r.get("operation"), str) or not is_int(r.get("stmt_id")) \
                or not is_int(r.get("parent_stmt_id")):
            op = r.get("operation") if isinstance(r, dict) else type(r).__name__
            add("0:malformed-row", op, "row %d lacks operation/stmt_id/parent_stmt_id: %.120r" % (i, r))
            continue
        for k in ALWAYS_BODY_ATTRS:
            v = r.get(k)
            if isinstance(v, (dict, list, tuple, set)):
                add("3:body-attribute-not-flattened", "%s.%s" % (r["operation"], k),
                    "row %d (%s id %d) attribute %s is a %s, not a block id" % (i, r["operation"], r["stmt_id"], k, type(v).__name__))
        ok_rows.append(r)
    if len(ok_rows) != len(rows):
        return out

    # ---- clause 1: ids --------------------------------------------------------------------------
    by_id = {}
    for i, r in enumerate(rows):
        by_id.setdefault(r["stmt_id"], []).append(i)
    blocks = {}          # block id -> (start index, end index)
    for sid, idxs in by_id.items():
        ops = [rows[i]["operation"] for i in idxs]
        nmark = sum(1 for o in ops if o in MARKERS)
        if nmark == 0:
            if len(idxs) != 1:
                add("1:duplicate-stmt-id", ops[0], "stmt_id %d is carried by %d rows %s" % (sid, len(idxs), ops[:4]))
        else:
            if nmark != len(ops):
                other = [o for o in ops if o not in MARKERS][0]
                add("1:block-id-shared-with-stmt", other, "id %d is both a block id and the id of a %s" % (sid, other))
            elif ops != ["block_start", "block_end"]:
                add("1:block-marker-count", "block", "block id %d has marker rows %s (need one start then one end)" % (sid, ops[:6]))
            else:
                blocks[sid] = (idxs[0], idxs[1])
        if lo is not None and sid < lo or hi is not None and sid >= hi:
            add("1:id-outside-unit-interval", ops[0], "stmt_id %d outside the unit's interval [%s,%s)" % (sid, lo, hi))

    # ---- clause 2: stack discipline, parents ----------------------------------------------------
    stack = []           # open block ids
    last_stmt = [None]   # last non-marker row per open level (index 0 = unit level)
    balanced = True
    for i, r in enumerate(rows):
        op, sid, par = r["operation"], r["stmt_id"], r["parent_stmt_id"]
        if op == "block_start":
            owner = last_stmt[-1]
            if owner is None or owner["stmt_id"] != par:
                add("2:block-not-after-owner", rows[by_id[par][0]]["operation"] if par in by_id else "missing-owner",
                    "block_start %d (row %d) has parent %d but the statement it follows is %s" % (
                        sid, i, par, None if owner is None else (owner["operation"], owner["stmt_id"])))
            stack.append(sid)
            last_stmt.append(None)
        elif op == "block_end":
            if not stack or stack[-1] != sid:
                add("2:unbalanced-block-end", "block", "block_end %d (row %d) while open blocks are %s" % (sid, i, stack[-4:]))
                balanced = False
                break
            stack.pop()
            last_stmt.pop()
            st = blocks.get(sid)
            if st is not None and rows[st[0]]["parent_stmt_id"] != par:
                add("2:marker-parents-differ", "block", "block %d: start parent %d, end parent %d" % (sid, rows[st[0]]["parent_stmt_id"], par))
        else:
            want = stack[-1] if stack else 0
            if par != want:
                add("2:parent-is-not-enclosing-block", op,
                    "%s id %d (row %d) has parent %d but the innermost open block is %d" % (op, sid, i, par, want))
            last_stmt[-1] = r
    if balanced and stack:
        add("2:block-never-closed", "block", "blocks %s are never closed" % stack[-4:])

    # ---- clause 3: body attributes <-> blocks ---------------------------------------------------
    stmt_row = {}
    for r in rows:
        if r["operation"] not in MARKERS:
            stmt_row.setdefault(r["stmt_id"], r)
    for bid, (si, ei) in sorted(blocks.items()):
        par = rows[si]["parent_stmt_id"]
        owner = stmt_row.get(par)
        if owner is None:
            add("3:block-without-owner-statement", "block", "block %d names parent %d which is no statement of the unit" % (bid, par))
            continue
        refs = [k for k, v in owner.items() if k not in NON_BLOCK_INT_ATTRS and is_int(v) and v == bid]
        if not refs:
            add("3:block-not-referenced-by-owner", owner["operation"],
                "block %d is owned by %s id %d but no attribute of it holds the block id" % (bid, owner["operation"], par))
        else:
            body_refs = [k for k in refs if k in ALWAYS_BODY_ATTRS]
            if len(body_refs) > 1:
                add("3:block-referenced-twice", owner["operation"],
                    "block %d is named by attributes %s of %s id %d" % (bid, body_refs, owner["operation"], par))
    for r in rows:
        if r["operation"] in MARKERS:
            continue
        for k in ALWAYS_BODY_ATTRS:
            v = r.get(k)
            if is_int(v):
                b = blocks.get(v)
                if b is None:
                    add("3:body-attribute-names-no-block", "%s.%s" % (r["operation"], k),
                        "%s id %d: %s=%d is not the id of a block of this unit" % (r["operation"], r["stmt_id"], k, v))
                elif rows[b[0]]["parent_stmt_id"] != r["stmt_id"]:
                    add("3:body-attribute-names-foreign-block", "%s.%s" % (r["operation"], k),
                        "%s id %d: %s=%d is a block owned by %d" % (r["operation"], r["stmt_id"], k, v, rows[b[0]]["parent_stmt_id"]))

    # ---- clause 4: every executable statement inside a method / class initialiser ----------------
    unit_inits = [r for r in rows if r["operation"] == "method_decl" and r.get("name") == UNIT_INIT]
    if len(unit_inits) > 1:
        add("4:several-unit-initialisers", "method_decl", "%d %s methods in one unit" % (len(unit_inits), UNIT_INIT))
    block_owner = {bid: rows[si]["parent_stmt_id"] for bid, (si, ei) in blocks.items()}
    memo = {0: None}     # block id (or 0) -> operation of the top-level statement that is NOT inside a method/class, or "" if inside

    def outside(block_id, depth=0):
        """'' if block_id lies inside a method or class-like declaration, else the operation of the
        unit-level statement under which it hangs (None for the unit level itself)."""
        chain = []
        cur = block_id
        res = None
        while True:
            if cur in memo:
                res = memo[cur]
                break
            chain.append(cur)
            owner_id = block_owner.get(cur)
            owner = stmt_row.get(owner_id)
            if owner is None:
                res = "?"           # already reported by clause 2/3
                break
            if owner["operation"] == "method_decl" or owner["operation"] in CLASS_LIKE:
                res = ""
                break
            if owner["parent_stmt_id"] == 0:
                res = owner["operation"]
                break
            cur = owner["parent_stmt_id"]
            if len(chain) > len(rows):
                res = "?"
                break
        for c in chain:
            memo[c] = res
        return res

    for r in rows:
        op = r["operation"]
        if op in MARKERS or stays_at_top(op):
            continue
        where = outside(r["parent_stmt_id"])
        if where == "" or where == "?":
            continue
        if where is None:
            add("4:executable-statement-at-unit-level", op, "%s id %d is at unit level, outside %s" % (op, r["stmt_id"], UNIT_INIT))
        else:
            add("4:executable-statement-outside-any-method", where,
                "%s id %d lies in a block of a unit-level %s, in no method or class initialiser" % (op, r["stmt_id"], where))
    return out


def check_storable(rows, lang):
    """An attribute value that is a container cannot be stored: the loader builds one pandas column per
    attribute and pyarrow refuses the column ("Expected bytes, got a 'tuple' object"), the lang sub-command
    prints that line, leaves frontend/gir.bundle* EMPTY for the whole project and ends normally."""
    out = []
    seen = set()
    for name, tname in nonscalar_attributes(rows):
        if name in seen or name.split(".")[-1] in ALWAYS_BODY_ATTRS:
            continue        # (bodies: reported by clause 3)
        seen.add(name)
        out.append((sig(lang, "0:attribute-value-not-storable", name),
                    "attribute %s holds a %s: frontend/gir.bundle* cannot be written with such a row" % (name, tname)))
    return out


def nonscalar_attributes(rows):
    """(operation.attribute, type name) of attribute values that are containers."""
    out = []
    for r in rows or ():
        if isinstance(r, dict):
            for k, v in r.items():
                if isinstance(v, (dict, list, tuple, set)):
                    out.append(("%s.%s" % (r.get("operation"), k), type(v).__name__))
    return out


# ---------------------------------------------------------------------------------------------
# add_main_func: before/after relation (the "contains ALL top-level statements, in order" clause)

def check_main_func(pre, rows, lang):
    """pre: [(stmt_id, parent_stmt_id, operation)] recorded before add_main_func ran; rows: final rows."""
    out = []
    if pre is None or not isinstance(rows, list):
        return out
    if any(not isinstance(r, dict) or not is_int(r.get("stmt_id")) or not isinstance(r.get("operation"), str)
           or not is_int(r.get("parent_stmt_id")) for r in rows):
        return out      # malformed rows are reported by check_unit
    inits = [r for r in rows if r["operation"] == "method_decl" and r.get("name") == UNIT_INIT and r["parent_stmt_id"] == 0]
    movable = [p for p in pre if p[1] == 0 and not stays_at_top(p[2])]
    if not inits:
        if movable:
            out.append((sig(lang, "4:top-level-code-without-unit-init", movable[0][2]),
                        "%d unit-level executable statements (first: %s id %d) and no %s" % (len(movable), movable[0][2], movable[0][0], UNIT_INIT)))
        post = [(r["stmt_id"], r["parent_stmt_id"], r["operation"]) for r in rows]
        if not movable and post != list(pre):
            out.append((sig(lang, "4:rows-changed-without-unit-init", "-"), "rows differ from the flattened table although nothing had to move"))
        return out
    init = inits[0]
    body = init.get("body")
    synthetic = {(init["stmt_id"], "method_decl"), (body, "block_start"), (body, "block_end")}
    post = [(r["stmt_id"], r["parent_stmt_id"], r["operation"]) for r in rows if (r["stmt_id"], r["operation"]) not in synthetic]
    pre_ids = set(p[0] for p in pre)
    if init["stmt_id"] in pre_ids or body in pre_ids:
        out.append((sig(lang, "1:unit-init-id-collides", "method_decl"), "%s ids %s/%s are already used in the unit" % (UNIT_INIT, init["stmt_id"], body)))
    if sorted((p[0], p[2]) for p in pre) != sorted((p[0], p[2]) for p in post):
        lost = sorted(set((p[0], p[2]) for p in pre) - set((p[0], p[2]) for p in post))
        extra = sorted(set((p[0], p[2]) for p in post) - set((p[0], p[2]) for p in pre))
        op = (lost or extra or [(0, "-")])[0][1]
        out.append((sig(lang, "4:unit-init-loses-or-invents-rows", op), "lost %s invented %s" % (lost[:3], extra[:3])))
        return out
    # the moved part: top-level movable statements and everything nested in them
    moved_expected = []
    kept_expected = []
    moving = False
    for p in pre:
        if p[1] == 0:
            moving = not stays_at_top(p[2])
        (moved_expected if moving else kept_expected).append(p)
    inside = []
    outside = []
    depth_open = False
    for r in rows:
        key = (r["stmt_id"], r["operation"])
        if key == (body, "block_start"):
            depth_open = True
            continue
        if key == (body, "block_end"):
            depth_open = False
            continue
        if key == (init["stmt_id"], "method_decl"):
            continue
        (inside if depth_open else outside).append((r["stmt_id"], r["parent_stmt_id"], r["operation"]))
    exp_inside = [(s, body if p == 0 else p, o) for (s, p, o) in moved_expected]
    if inside != exp_inside:
        a = [x for x in exp_inside if x not in set(inside)]
        op = a[0][2] if a else (inside[0][2] if inside else "-")
        if sorted(inside) == sorted(exp_inside):
            out.append((sig(lang, "4:unit-init-order", op), "statements of %s are not in the order of the flattened table" % UNIT_INIT))
        elif [(s, o) for s, p, o in inside] == [(s, o) for s, p, o in exp_inside]:
            out.append((sig(lang, "4:unit-init-reparenting", op), "%s holds the right rows but their parents are wrong, e.g. %s" % (
                UNIT_INIT, [x for x in inside if x not in set(exp_inside)][:2])))
        else:
            out.append((sig(lang, "4:unit-init-content", op), "%s does not hold exactly the unit-level executable statements; missing %s" % (UNIT_INIT, a[:3])))
    if outside != kept_expected:
        out.append((sig(lang, "4:declarations-disturbed", "-"), "rows left at unit level differ from the flattened table"))
    return out


# ---------------------------------------------------------------------------------------------
# crash bucketing

GENERIC_FRAMES = frozenset([
    # helpers of common_parser.Parser that only forward what a handler gave them
    "read_node_text", "find_child_by_type", "find_children_by_type", "find_child_by_field", "find_children_by_field",
    "find_child_by_type_type", "find_child_by_field_type", "find_child_by_type_field", "find_child_by_field_field",
    "add_col_row_info", "append_stmts", "is_string", "escape_string", "common_eval", "handle_hex_string", "is_hex_string",
])


_PASSES_LIST_CLASS = re.compile(r",\s*list\s*\)")
_ATTR_RE = re.compile(r"^'([A-Za-z_][A-Za-z0-9_.]*)' object has no attribute '([A-Za-z_][A-Za-z0-9_]*)'")


def _is_lian(filename):
    f = filename.replace("\\", "/")
    return "/lian/" in f and "/harness/" not in f


def crash_signature(lang, exc):
    """(ID, 'crash', lang, exception type, innermost lian function) — generic text helpers are skipped so
    that the bucket names the parser handler which passed them a bad node."""
    tb = traceback.extract_tb(exc.__traceback__)
    frames = [f for f in tb if _is_lian(f.filename)]
    etype = type(exc).__name__
    if isinstance(exc, AttributeError):
        # "'Parser' object has no attribute 'parse_field'" (a method that does not exist: decided by the code)
        # is another root cause than a None node met in the same handler (decided by the input)
        m = _ATTR_RE.match(str(exc))
        if m and m.group(1) != "NoneType":
            etype = "AttributeError:%s.%s" % (m.group(1), m.group(2))
    if isinstance(exc, RecursionError):
        # the frame where the limit is hit is arbitrary: name the recursion by the module that recurses
        mod = os.path.splitext(os.path.basename(frames[-1].filename))[0] if frames else "?"
        return (ID, "crash", lang, etype, mod)
    fn = "?"
    if isinstance(exc, TypeError) and str(exc).startswith("descriptor 'append' for 'list' objects"):
        # somebody passed the class `list` as the statement list: name the frame that did it, not the handler
        # that happened to emit the first statement into it
        for f in reversed(frames):
            if f.line and _PASSES_LIST_CLASS.search(f.line):
                return (ID, "crash", lang, etype, f.name)
    for f in reversed(frames):
        if f.name in GENERIC_FRAMES:
            continue
        fn = f.name
        break
    else:
        if frames:
            fn = frames[-1].name
    return (ID, "crash", lang, etype, fn)


def reject_signature(lang, exc):
    """SystemExit on an input without any syntax error: name the lian function that gave up."""
    tb = traceback.extract_tb(exc.__traceback__)
    frames = [f for f in tb if _is_lian(f.filename) and f.name not in ("error_and_quit", "syntax_error")]
    fn = frames[-1].name if frames else "?"
    return (ID, "reject", lang, "SystemExit", fn)


def crash_text(exc):
    tb = traceback.extract_tb(exc.__traceback__)
    frames = [f for f in tb if _is_lian(f.filename)]
    where = ""
    if frames:
        f = frames[-1]
        where = " at %s:%d in %s" % (os.path.basename(f.filename), f.lineno, f.name)
    return "%s: %.160s%s" % (type(exc).__name__, str(exc).replace("\n", " "), where)
