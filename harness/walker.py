"""Structural path walker over flattened GIR (DESIGN.md 2.3, forced-decision mode).

Enumerates, for one method, every statement sequence that the GIR's control constructs allow when
every branch decision is free and every loop is entered 0, 1 or 2 times.  Values are not computed.
Each trace element is (stmt_id, tag) where tag names why control arrived there (sequential flow, branch arm,
loop entry / back edge / exit, break / continue target, ...).
"""
from harness.girsem import Program, isnull

LOOPS = ("while_stmt", "forin_stmt", "for_value_stmt", "dowhile_stmt", "for_stmt")
NO_FALLTHROUGH_LANGS = ("python", "go")
MATCH_NOT_BREAKABLE = ("python",)


class TooManyPaths(Exception):
    pass


class Walker:
    def __init__(self, prog, lang, max_iter=2, max_paths=6000):
        self.prog = prog
        self.lang = lang
        self.max_iter = max_iter
        self.max_paths = max_paths

    # a path is (trace, outcome); trace = list of (stmt_id, tag); outcome in fall/break/continue/return
    def method_paths(self, method_row):
        paths = [([], "fall")]
        pblock = method_row.get("parameters")
        if not isnull(pblock):
            paths = self._seq(paths, self.block_paths(pblock, "param"))
        paths = self._seq(paths, self.block_paths(method_row.get("body"), "body", exit_node=True))
        out = []
        for t, o in paths:
            if o == "return":
                t = t + [(-1, "return")]
            out.append((t, o))
        return out

    def _cap(self, paths):
        if len(paths) > self.max_paths:
            raise TooManyPaths()
        return paths

    def _seq(self, paths, nxt, tag=None):
        """Continue every falling path of `paths` with every path of `nxt`."""
        out = []
        for t, o in paths:
            if o != "fall":
                out.append((t, o))
                continue
            for t2, o2 in nxt:
                out.append((t + self._retag(t2, tag), o2))
        return self._cap(out)

    @staticmethod
    def _retag(trace, tag):
        if tag is None or not trace:
            return trace
        sid, old = trace[0]
        return [(sid, tag if old in (None, "seq") else old + "+" + tag)] + trace[1:]

    def block_paths(self, block_id, first_tag=None, exit_node=False):
        rows = self.prog.block(block_id)
        paths = [([], "fall")]
        prev_op = None
        for r in list(rows) + ([None] if exit_node else []):
            sp = self.stmt_paths(r) if r is not None else [([(-1, "seq")], "fall")]
            tag = None
            if prev_op is not None and prev_op not in ("simple",):
                tag = "after:" + prev_op
            paths = self._seq(paths, sp, tag)
            if r is None:
                break
            op = r["operation"]
            prev_op = op if (op in LOOPS or op in ("if_stmt", "switch_stmt", "try_stmt")) else "simple"
        if first_tag:
            paths = [(self._retag(t, first_tag), o) for t, o in paths]
        return paths

    def stmt_paths(self, r):
        op = r["operation"]
        sid = int(r["stmt_id"])
        if op == "if_stmt":
            head = [([(sid, "seq")], "fall")]
            a = self._seq(head, self.block_paths(r.get("then_body")), "if.true")
            b = self._seq(head, self.block_paths(r.get("else_body")), "if.false")
            return self._cap(a + b)
        if op in ("while_stmt", "forin_stmt", "for_value_stmt"):
            return self._while(r, sid)
        if op == "dowhile_stmt":
            return self._dowhile(r, sid)
        if op == "for_stmt":
            return self._for(r, sid)
        if op == "switch_stmt":
            return self._switch(r, sid)
        if op == "try_stmt":
            return self._try(r, sid)
        if op == "throw_stmt":
            return [([(sid, "seq")], "raise")]
        if op == "break_stmt":
            return [([(sid, "seq")], "break")]
        if op == "continue_stmt":
            return [([(sid, "seq")], "continue")]
        if op == "return_stmt":
            return [([(sid, "seq")], "return")]
        return [([(sid, "seq")], "fall")]

    # -- loops --------------------------------------------------------------------------------
    def _header(self, r, sid, tag):
        """Paths that evaluate the loop test once: [condition_prebody] + header."""
        pre = r.get("condition_prebody")
        paths = [([], "fall")]
        if not isnull(pre):
            paths = self._seq(paths, self.block_paths(pre), tag + ">prebody")
            return self._seq(paths, [([(sid, "prebody>header")], "fall")])
        return [([(sid, tag)], "fall")]

    def _while(self, r, sid):
        results = []
        opname = r["operation"]
        # state: list of traces that are about to test the header for the (k+1)-th time
        pending = self._header(r, sid, "seq")
        for k in range(self.max_iter + 1):
            # exit now
            exit_paths = [(t, "fall") for t, o in pending]
            if not isnull(r.get("else_body")):
                exit_paths = self._seq(exit_paths, self.block_paths(r.get("else_body")), "loop.else")
            else:
                exit_paths = [(t + [], o) for t, o in exit_paths]
            results += [(t, o, "exit") for t, o in exit_paths]
            if k == self.max_iter:
                break
            body = self._seq(pending, self.block_paths(r.get("body")), "loop.enter")
            nxt = []
            for t, o in body:
                if o == "fall":
                    nxt.append((t, "loop.back"))
                elif o == "continue":
                    nxt.append((t, "continue.target"))
                elif o == "break":
                    results.append((t, "fall", "break"))
                else:
                    results.append((t, o, "return"))
            pending = []
            for t, tag in nxt:
                for t2, _ in self._header(r, sid, tag):
                    pending.append((t + t2, "fall"))
            self._cap(pending)
            if not pending:
                break
        out = []
        for t, o, how in results:
            out.append((t, o) if how != "break" else (t + [], o))
        # mark how the loop was left so that the next statement's tag can say so
        return self._cap([(self._mark_exit(t, how, opname), o) for (t, o, how) in results])

    @staticmethod
    def _mark_exit(t, how, opname):
        return t

    def _dowhile(self, r, sid):
        results = []
        pending = [([], "fall")]
        first = True
        for k in range(self.max_iter + 1):
            body = self._seq(pending, self.block_paths(r.get("body")), "dowhile.enter" if first else "loop.enter")
            first = False
            tested = []
            for t, o in body:
                if o == "fall":
                    tag = "loop.back"
                elif o == "continue":
                    tag = "continue.target"
                elif o == "break":
                    results.append((t, "fall"))
                    continue
                else:
                    results.append((t, o))
                    continue
                for t2, _ in self._header(r, sid, tag):
                    tested.append((t + t2, "fall"))
            # after the test: leave, or iterate again
            results += tested
            if k == self.max_iter:
                break
            pending = tested
            self._cap(pending)
            if not pending:
                break
        return self._cap(results)

    def _for(self, r, sid):
        results = []
        start = self._seq([([], "fall")], self.block_paths(r.get("init_body")), "for.init")
        pending = []
        for t, o in start:
            if o != "fall":
                results.append((t, o))
                continue
            for t2, _ in self._for_test(r, sid, "seq"):
                pending.append((t + t2, "fall"))
        for k in range(self.max_iter + 1):
            results += [(t, "fall") for t, o in pending]
            if k == self.max_iter:
                break
            body = self._seq(pending, self.block_paths(r.get("body")), "loop.enter")
            nxt = []
            for t, o in body:
                if o == "fall":
                    nxt.append((t, "loop.back"))
                elif o == "continue":
                    nxt.append((t, "continue.target"))
                elif o == "break":
                    results.append((t, "fall"))
                else:
                    results.append((t, o))
            pending = []
            for t, tag in nxt:
                upd = self._seq([(t, "fall")], self.block_paths(r.get("update_body")), tag + ">for.update")
                for tu, ou in upd:
                    if ou != "fall":
                        results.append((tu, ou))
                        continue
                    has_update = len(tu) > len(t)
                    for t2, _ in self._for_test(r, sid, "for.update>" if has_update else tag):
                        pending.append((tu + t2, "fall"))
            self._cap(pending)
            if not pending:
                break
        return self._cap(results)

    def _for_test(self, r, sid, tag):
        pre = r.get("condition_prebody")
        if not isnull(pre) and self.prog.block(pre):
            paths = self._seq([([], "fall")], self.block_paths(pre), tag + ">for.prebody")
            return self._seq(paths, [([(sid, "for.prebody>header")], "fall")])
        return [([(sid, tag + ">for.header")], "fall")]

    # -- try ----------------------------------------------------------------------------------
    def _try(self, r, sid):
        """Only explicit throw statements raise.  A raise in the body goes to any catch clause (uncaught if there is none);
        normal completion runs else_body; final_body runs on every way out, before a pending jump continues."""
        head = [([(sid, "seq")], "fall")]
        body = self._seq(head, self.block_paths(r.get("body")), "try.body")
        clauses = [c for c in self.prog.block(r.get("catch_body")) if c["operation"] in ("catch_clause", "catch_stmt")]
        has_final = not isnull(r.get("final_body")) and bool(self.prog.block(r.get("final_body")))
        before_final = []       # (trace, pending outcome, tag for the first statement of final / of what follows)
        for t, o in body:
            if o == "fall":
                if not isnull(r.get("else_body")) and self.prog.block(r.get("else_body")):
                    for t2, o2 in self._seq([(t, "fall")], self.block_paths(r.get("else_body")), "try.else"):
                        before_final.append((t2, o2, "after:try.else" if o2 == "fall" else "try.final-before-" + o2))
                else:
                    before_final.append((t, "fall", "after:try.body"))
            elif o == "raise":
                for c in clauses:
                    cp = self._seq([(t + [(int(c["stmt_id"]), "try.catch")], "fall")], self.block_paths(c.get("body")), "try.catch-body")
                    for t2, o2 in cp:
                        before_final.append((t2, o2, "after:try.catch" if o2 == "fall" else "try.final-before-" + o2))
                if not clauses:
                    # the generated handlers catch everything (except Exception / catch (Exception ex) / catch (ex)),
                    # so a raise is uncaught only when the try has no handler at all
                    before_final.append((t, "raise", "try.final-before-raise"))
            else:
                before_final.append((t, o, "try.final-before-" + o))
        results = []
        for t, o, tag in before_final:
            if not has_final:
                results.append((t, o))
                continue
            for t2, o2 in self._seq([(t, "fall")], self.block_paths(r.get("final_body")), tag):
                results.append((t2, o if o2 == "fall" else o2))
        return self._cap(results)

    # -- switch -------------------------------------------------------------------------------
    def _switch(self, r, sid):
        cases = [c for c in self.prog.block(r.get("body")) if c["operation"] in ("case_stmt", "default_stmt")]
        head = [([(sid, "seq")], "fall")]
        results = []
        fallthrough = self.lang not in NO_FALLTHROUGH_LANGS
        breakable = self.lang not in MATCH_NOT_BREAKABLE
        has_default = any(c["operation"] == "default_stmt" for c in cases)
        if not has_default:
            results.append(([(sid, "seq")], "fall"))        # no case matches
        for i, c in enumerate(cases):
            paths = self._seq(head, self.block_paths(c.get("body")), "switch.case")
            j = i
            while True:
                cont = []
                for t, o in paths:
                    if o == "break" and breakable:
                        results.append((t, "fall"))
                    elif o == "fall" and fallthrough and j + 1 < len(cases):
                        cont.append((t, o))
                    else:
                        results.append((t, o))
                if not cont:
                    break
                j += 1
                paths = self._seq(cont, self.block_paths(cases[j].get("body")), "switch.fallthrough")
            self._cap(results)
        return self._cap(results)


def method_rows(prog):
    return [r for r in prog.rows if r["operation"] == "method_decl"]


def own_statement_ids(prog, method_row):
    """Ids of the rows that belong to this method and not to a method nested in it."""
    from harness.girsem import BODY_COLUMNS
    out = set()
    stack = [method_row.get("parameters"), method_row.get("body")]
    while stack:
        b = stack.pop()
        if isnull(b):
            continue
        for r in prog.block(b):
            out.add(int(r["stmt_id"]))
            if r["operation"] == "method_decl":
                continue
            for col in BODY_COLUMNS:
                v = r.get(col)
                if isnull(v) or isinstance(v, (str, bool)):
                    continue
                if int(v) in prog.children:
                    stack.append(int(v))
    return out
