"""C13 helper: parameterised adversarial Python program families (size parameter n).

Every family is a function  gen(n, pfx) -> Piece  where a Piece carries module-level definitions for the main
unit, optional extra files (cyclic imports) and the name of an entry function `<pfx>entry(p)` that takes the
tainted value and returns a value derived from it.  `project([...pieces])` glues one or two pieces into a project:

    def sink(x): pass
    <defs of piece 1> <defs of piece 2>
    def main(p):
        r = <pfx1>entry(p)
        r = <pfx2>entry(r)
        sink(r)
    main(1)

so that P2/P3 reach every family through calls from the unit initialiser, the parameter source `p` of `main`
(and of every other function with a parameter called p) taints the data, and `sink(...)` calls give the taint
phase something to find.  All programs are syntactically valid Python; except for the deliberately divergent
ones (unbounded recursion guarded by an opaque flag) they would also run.
"""

FAMILIES = {}


class Piece:
    def __init__(self, pfx, defs, files=None, imports=""):
        self.pfx = pfx
        self.defs = defs
        self.files = files or {}
        self.imports = imports


def family(name):
    def deco(fn):
        FAMILIES[name] = fn
        return fn
    return deco


def _ind(lines, depth):
    return ["    " * depth + l for l in lines]


@family("direct_recursion")
def direct_recursion(n, pfx):
    """one function with n self-call sites"""
    L = ["def %srec(p, k):" % pfx, "    if k:", "        return p", "    x0 = %srec(p, k)" % pfx]
    for i in range(1, n):
        L.append("    x%d = %srec(x%d, k)" % (i, pfx, i - 1))
    L += ["    sink(x%d)" % (n - 1), "    return x%d" % (n - 1), "",
          "def %sentry(p):" % pfx, "    r = %srec(p, 0)" % pfx, "    return r", ""]
    return Piece(pfx, "\n".join(L))


@family("mutual_ring")
def mutual_ring(n, pfx):
    """ring of n functions, each calling the next (the last one calls the first)"""
    L = []
    for i in range(n):
        L += ["def %sr%d(p, k):" % (pfx, i), "    if k:", "        return p",
              "    y = %sr%d(p, k)" % (pfx, (i + 1) % n), "    sink(y)", "    return y", ""]
    L += ["def %sentry(p):" % pfx, "    r = %sr0(p, 0)" % pfx, "    return r", ""]
    return Piece(pfx, "\n".join(L))


@family("mutual_ring2")
def mutual_ring2(n, pfx):
    """ring of n functions with TWO call sites per function to the next one (cycles x several call sites)"""
    L = []
    for i in range(n):
        nxt = (i + 1) % n
        L += ["def %sq%d(p, k):" % (pfx, i), "    if k:", "        return p",
              "    y = %sq%d(p, k)" % (pfx, nxt), "    z = %sq%d(y, k)" % (pfx, nxt), "    sink(z)", "    return z", ""]
    L += ["def %sentry(p):" % pfx, "    r = %sq0(p, 0)" % pfx, "    return r", ""]
    return Piece(pfx, "\n".join(L))


@family("higher_order")
def higher_order(n, pfx):
    """n combinators w_i(g, x) = g(g, x); w_i is applied to w_(i+1), the last one to itself (omega)"""
    L = []
    for i in range(n):
        L += ["def %sw%d(g, x):" % (pfx, i), "    y = g(g, x)", "    return y", ""]
    L += ["def %sentry(p):" % pfx, "    r = p"]
    for i in range(n):
        L.append("    r = %sw%d(%sw%d, r)" % (pfx, i, pfx, min(i + 1, n - 1)))
    L += ["    sink(r)", "    return r", ""]
    return Piece(pfx, "\n".join(L))


@family("cyclic_imports")
def cyclic_imports(n, pfx):
    """n modules importing each other in a ring; g_i of module i calls g_(i+1) of module i+1"""
    files = {}
    for i in range(n):
        nxt = (i + 1) % n
        files["%sm%d.py" % (pfx, i)] = "\n".join([
            "import %sm%d" % (pfx, nxt),
            "from %sm%d import %sg%d" % (pfx, nxt, pfx, nxt),
            "",
            "def sink(x):", "    pass", "",
            "def %sg%d(p, k):" % (pfx, i), "    if k:", "        return p",
            "    y = %sg%d(p, k)" % (pfx, nxt), "    sink(y)", "    return y", ""])
    defs = "\n".join(["def %sentry(p):" % pfx, "    r = %sg0(p, 0)" % pfx, "    return r", ""])
    return Piece(pfx, defs, files, imports="from %sm0 import %sg0\n" % (pfx, pfx))


@family("cyclic_objects")
def cyclic_objects(n, pfx):
    """n objects linked into a ring through a field, walked and written in a loop"""
    L = ["class %sNode:" % pfx, "    def __init__(self, v):", "        self.val = v", "        self.nxt = None", "",
         "def %sentry(p):" % pfx, "    c0 = %sNode(p)" % pfx]
    for i in range(1, n):
        L.append("    c%d = %sNode(%d)" % (i, pfx, i))
    for i in range(n):
        L.append("    c%d.nxt = c%d" % (i, (i + 1) % n))
    L += ["    cur = c0", "    i = 0", "    while i < 100:", "        cur = cur.nxt", "        cur.val = p",
          "        i = i + 1", "    r = cur.val", "    sink(r)", "    return r", ""]
    return Piece(pfx, "\n".join(L))


@family("nested_loops")
def nested_loops(n, pfx):
    """n loops nested inside each other (while / for alternating), the innermost accumulates tainted data"""
    L = ["def %sentry(p):" % pfx, "    x = p"]
    d = 1
    for i in range(n):
        if i % 2 == 0:
            L += _ind(["i%d = 0" % i, "while i%d < 3:" % i], d)
        else:
            L += _ind(["for i%d in [1, 2, 3]:" % i], d)
        d += 1
    L += _ind(["x = x + p"], d)
    for i in reversed(range(n)):
        d -= 1
        if i % 2 == 0:
            L += _ind(["i%d = i%d + 1" % (i, i)], d + 1)
    L += ["    sink(x)", "    return x", ""]
    return Piece(pfx, "\n".join(L))


def _call_chain(n, pfx, k):
    L = ["def %sc%d(p):" % (pfx, n), "    sink(p)", "    return p", ""]
    for i in reversed(range(n)):
        L += ["def %sc%d(p):" % (pfx, i), "    v0 = %sc%d(p)" % (pfx, i + 1)]
        for j in range(1, k):
            L.append("    v%d = %sc%d(v%d)" % (j, pfx, i + 1, j - 1))
        L += ["    return v%d" % (k - 1), ""]
    L += ["def %sentry(p):" % pfx, "    r = %sc0(p)" % pfx, "    return r", ""]
    return Piece(pfx, "\n".join(L))


@family("call_chain2")
def call_chain2(n, pfx):
    """chain of n functions, each calling the next one at 2 call sites"""
    return _call_chain(n, pfx, 2)


@family("call_chain3")
def call_chain3(n, pfx):
    """chain of n functions, each calling the next one at 3 call sites"""
    return _call_chain(n, pfx, 3)


@family("branches")
def branches(n, pfx):
    """n sequential if/else statements re-defining the same variables"""
    L = ["def %sentry(p):" % pfx, "    x = p", "    y = 0"]
    for i in range(n):
        L += ["    if y == %d:" % i, "        x = x + %d" % (i + 1), "        y = %d" % (i + 1),
              "    else:", "        x = p", "        y = y + 1"]
    L += ["    sink(x)", "    return x", ""]
    return Piece(pfx, "\n".join(L))


@family("aliases")
def aliases(n, pfx):
    """n aliases of one object, a field write through each and a read through the others"""
    L = ["class %sBox:" % pfx, "    def __init__(self):", "        self.f = 0", "",
         "def %sentry(p):" % pfx, "    o = %sBox()" % pfx, "    a0 = o"]
    for i in range(1, n):
        L.append("    a%d = a%d" % (i, i - 1) if i % 2 else "    a%d = o" % i)
    L.append("    a0.f = p")
    for i in range(1, n):
        L.append("    a%d.f = a%d.f" % (i, i - 1))
        L.append("    a%d.g%d = p" % (i, i))
    L += ["    r = a%d.f" % (n - 1), "    sink(r)", "    return r", ""]
    return Piece(pfx, "\n".join(L))


@family("literals")
def literals(n, pfx):
    """dict / list / tuple literals with n elements, read back by key, by index and in a loop"""
    d = ", ".join(['"k0": p'] + ['"k%d": %d' % (i, i) for i in range(1, n)])
    l = ", ".join(["p"] + [str(i) for i in range(1, n)])
    L = ["def %sentry(p):" % pfx, "    d = {%s}" % d, "    l = [%s]" % l, "    t = (%s,)" % l,
         "    x = d[\"k0\"]", "    y = l[0]", "    z = t[%d]" % (n - 1), "    sink(x)", "    sink(y)",
         "    for e in l:", "        sink(e)", "    d[\"k%d\"] = y" % (n - 1), "    l[%d] = x" % (n - 1),
         "    r = d[\"k%d\"]" % (n - 1), "    return r", ""]
    return Piece(pfx, "\n".join(L))


@family("assign_chain")
def assign_chain(n, pfx):
    """a chain of n copies, a chain of n constant additions and a chain of n tainted additions"""
    L = ["def %sentry(p):" % pfx, "    a0 = p", "    b0 = 1", "    s0 = \"s\""]
    for i in range(1, n):
        L += ["    a%d = a%d" % (i, i - 1), "    b%d = b%d + %d" % (i, i - 1, i), "    s%d = s%d + \"%d\"" % (i, i - 1, i % 10)]
    L += ["    c = a%d + b%d" % (n - 1, n - 1), "    sink(c)", "    sink(s%d)" % (n - 1), "    return a%d" % (n - 1), ""]
    return Piece(pfx, "\n".join(L))


@family("taint_diamonds")
def taint_diamonds(n, pfx):
    """n diamonds b_i = d_(i-1); c_i = d_(i-1); d_i = b_i + c_i hanging off the tainted parameter and leading to no sink
    (7^n simple paths through the SFG), then the sink of the parameter itself: a reported flow whose path search meets a
    dead-end region with many routes first"""
    L = ["def %sentry(p):" % pfx, "    d0 = p"]
    for i in range(1, n + 1):
        L += ["    b%d = d%d" % (i, i - 1), "    c%d = d%d" % (i, i - 1), "    d%d = b%d + c%d" % (i, i, i)]
    L += ["    sink(p)", "    return p", ""]
    return Piece(pfx, "\n".join(L))


@family("taint_copy_fan")
def taint_copy_fan(n, pfx):
    """a chain of n copies of the tainted parameter, each copy also feeding a second variable that is never used, before
    the sink of the parameter (2^n simple paths)"""
    L = ["def %sentry(p):" % pfx, "    a0 = p"]
    for i in range(1, n + 1):
        L += ["    a%d = a%d" % (i, i - 1), "    e%d = a%d + a%d" % (i, i, i - 1)]
    L += ["    sink(p)", "    return p", ""]
    return Piece(pfx, "\n".join(L))


@family("state_squaring")
def state_squaring(n, pfx):
    """z0 has two reaching constants (one if); a chain of n statements z_i = z_(i-1) + z_(i-1) then combines
    every pair of abstract values of its operands"""
    L = ["def %sentry(p):" % pfx, "    z0 = \"a\"", "    if p:", "        z0 = \"b\""]
    for i in range(1, n + 1):
        L.append("    z%d = z%d + z%d" % (i, i - 1, i - 1))
    L += ["    r = p", "    sink(r)", "    sink(z%d)" % n, "    return r", ""]
    return Piece(pfx, "\n".join(L))


@family("state_squaring_call")
def state_squaring_call(n, pfx):
    """the same chain through a two-parameter function: z_i = join(z_(i-1), z_(i-1))"""
    L = ["def %sjoin(a, b):" % pfx, "    c = a + b", "    return c", "",
         "def %sentry(p):" % pfx, "    z0 = \"a\"", "    if p:", "        z0 = \"b\""]
    for i in range(1, n + 1):
        L.append("    z%d = %sjoin(z%d, z%d)" % (i, pfx, i - 1, i - 1))
    L += ["    r = p", "    sink(r)", "    sink(z%d)" % n, "    return r", ""]
    return Piece(pfx, "\n".join(L))


# ---- hostile literal constants ------------------------------------------------------------------

_HOSTILE_UNITS = [
    "9**9**9", " + ", "'", "\\\"", "x*10**9", "%s", "{0}", "\\\\", "#", "(", "]", " or ", "\\n", "__import__", "0x", "1e999",
]


def hostile_text(n):
    """a string body of about 8n characters made of quotes, escapes, operators and big-number look-alikes
    (no unescaped double quote: it is embedded between double quotes)"""
    out = []
    i = 0
    while sum(len(u) for u in out) < 8 * n:
        out.append(_HOSTILE_UNITS[i % len(_HOSTILE_UNITS)])
        i += 1
    return "".join(out)


@family("hostile_strings")
def hostile_strings(n, pfx):
    """string constants of length ~8n full of quotes / operators / 9**9**9 text, concatenated, compared, indexed;
    a decimal constant with n digits and a float constant with n digits take part in arithmetic"""
    body = hostile_text(n)
    big = "9" * n
    L = ["def %sentry(p):" % pfx,
         "    s = \"%s\"" % body,
         "    t = s + \"y\"",
         "    u = \"%s\" + s" % body[: max(1, len(body) // 2)].rstrip("\\"),
         "    w = t + u",
         "    k = %s" % big,
         "    m = k + 1",
         "    f = 0.%s" % big,
         "    g = f * 2",
         "    h = k - %s" % big,
         "    e = s == t",
         "    d = {\"%s\": p}" % body.replace("\\\"", "'"),
         "    r = w + p",
         "    sink(r)", "    return r", ""]
    return Piece(pfx, "\n".join(L))


@family("hostile_arith")
def hostile_arith(n, pfx):
    """constant expressions whose VALUE is far larger than their text: 2 ** (n-digit number), "ab" * (n-digit number),
    a shift by an n-digit amount; a sound analyser may fold them only if that stays cheap"""
    big = "9" * n
    L = ["def %sentry(p):" % pfx,
         "    a = 2 ** %s" % big,
         "    b = \"ab\" * %s" % big,
         "    c = 1 << %s" % big,
         "    k = %s" % big,
         "    m = 7",
         "    e = m ** k",
         "    q = \"cd\"",
         "    f = q * k",
         "    r = p",
         "    sink(r)", "    return r", ""]
    return Piece(pfx, "\n".join(L))


@family("hostile_tower")
def hostile_tower(n, pfx):
    """a power tower 9 ** 9 ** ... (n levels, right associative) and the same built through variables"""
    L = ["def %sentry(p):" % pfx,
         "    a = %s" % " ** ".join(["9"] * n),
         "    b0 = 9"]
    for i in range(1, n):
        L.append("    b%d = 9 ** b%d" % (i, i - 1))
    L += ["    r = p", "    sink(r)", "    return r", ""]
    return Piece(pfx, "\n".join(L))


@family("hostile_doubling")
def hostile_doubling(n, pfx):
    """a chain of n statements s_i = s_(i-1) + s_(i-1) on a string constant: the VALUE has 2^(n+1) characters
    for a program of n lines"""
    L = ["def %sentry(p):" % pfx, "    s0 = \"ab\""]
    for i in range(1, n + 1):
        L.append("    s%d = s%d + s%d" % (i, i - 1, i - 1))
    L += ["    r = p", "    sink(r)", "    return r", ""]
    return Piece(pfx, "\n".join(L))


@family("hostile_squaring")
def hostile_squaring(n, pfx):
    """a chain of n statements b_i = b_(i-1) * b_(i-1) on an integer constant (3^(2^n))"""
    L = ["def %sentry(p):" % pfx, "    b0 = 3"]
    for i in range(1, n + 1):
        L.append("    b%d = b%d * b%d" % (i, i - 1, i - 1))
    L += ["    r = p", "    sink(r)", "    return r", ""]
    return Piece(pfx, "\n".join(L))


HOSTILE = ("hostile_strings", "hostile_arith", "hostile_tower", "hostile_doubling", "hostile_squaring")

# the C08 root cause seen from C13: string constants are pasted between double quotes and eval'ed, so a literal
# can smuggle an expensive expression into the analyser
INJECTION_SOURCE = '''def sink(x):
    pass

def main(p):
    s = '9" * 9 ** 9 ** 9 + "'
    t = s + "y"
    sink(p)
    return t

main(1)
'''


def project(pieces):
    """-> {relative path: text}"""
    files = {}
    imports = "".join(pc.imports for pc in pieces)
    L = [imports, "def sink(x):", "    pass", ""]
    for pc in pieces:
        L.append(pc.defs)
        for rel, text in pc.files.items():
            files[rel] = text
    L += ["def main(p):", "    r = p"]
    for pc in pieces:
        L.append("    r = %sentry(r)" % pc.pfx)
    L += ["    sink(r)", "    return r", "", "main(1)", ""]
    files["main.py"] = "\n".join(L)
    return files


def build(spec):
    """spec: list of [family, n] (one or two entries) -> files"""
    pieces = []
    for i, (fam, n) in enumerate(spec):
        pieces.append(FAMILIES[fam](int(n), "abcdefgh"[i] + "_"))
    return project(pieces)


def size_of(files):
    return sum(t.count("\n") for t in files.values())
