"""C13 helper: run one project through the complete lian pipeline in a forked child under a wall-clock watchdog,
an address-space limit and a deterministic step budget, and return deterministic step counters.

The child is a plain os.fork() of the (already warm) worker, so no interpreter start-up is paid; it installs the
counters by wrapping lian functions (no source edits), runs `lianrun.analyze`, writes one JSON line to a pipe and
leaves through os._exit.  The parent waits on the pipe with a timeout and SIGKILLs the child on overrun, so a
diverging analysis can never hang the check.
"""
import json
import os
import resource
import select
import shutil
import signal
import tempfile
import time

from harness import lianrun

ENTRY = [{"method_list": ["%unit_init"]}]
SOURCE = [{"lang": "python", "rules": [{"operation": "parameter_decl", "name": "p"}]}]
SINK = [{"lang": "python", "rules": [{"operation": "call_stmt", "name": "sink", "target": ["\\%arg0"]}]}]

GIB = 1 << 30
MEM_HEADROOM = 3 * GIB           # address space the child may add on top of what the worker already maps
FILE_LIMIT = 512 << 20           # largest file the child may write (protects the scratch disk)
DEFAULT_STEP_BUDGET = 3_000_000  # counted steps; the largest legitimate run of the sweep needs < 5 % of this

COUNTERS = ("p2_visits", "p3_visits", "state_runs", "frames", "taint_pops", "space_adds", "taint_dfs")


def warm():
    """import lian and take lianrun's module snapshot in the parent so that every forked child starts warm"""
    import lian.main  # noqa: F401
    from lian.taint import taint_analysis  # noqa: F401
    if lianrun._state["snapshot"] is None:
        lianrun._state["snapshot"] = lianrun._module_snapshot()


DFS_FACTOR = 20


class _Budget(BaseException):
    pass


def _install_counters(box, step_budget, on_budget):
    import collections
    from lian.core import prelim_semantics as ps
    from lian.core import global_semantics as gs
    from lian.core import stmt_states as ss
    from lian import common_structs as cs
    from lian.taint import taint_analysis as ta
    from lian.config.constants import ANALYSIS_PHASE_ID

    def bump(key):
        box[key] += 1
        box["steps"] += 1
        if box["steps"] > step_budget:
            on_budget()

    orig_css = ps.P2PrelimSemanticAnalysis.compute_stmt_states

    def compute_stmt_states(self, stmt_id, stmt, frame):
        bump("p3_visits" if self.analysis_phase_id == ANALYSIS_PHASE_ID.GLOBAL_SEMANTICS else "p2_visits")
        return orig_css(self, stmt_id, stmt, frame)
    ps.P2PrelimSemanticAnalysis.compute_stmt_states = compute_stmt_states

    orig_run = ss.StmtStates.run

    def run(self, *a, **k):
        bump("state_runs")
        return orig_run(self, *a, **k)
    ss.StmtStates.run = run

    orig_add = cs.ComputeFrameStack.add

    def add(self, element):
        bump("frames")
        return orig_add(self, element)
    cs.ComputeFrameStack.add = add

    # every symbol / abstract state that enters a symbol-state space (P1 tables, P2 frames, the global P3 space)
    orig_space_add = cs.SymbolStateSpace.add

    def space_add(self, item):
        bump("space_adds")
        return orig_space_add(self, item)
    cs.SymbolStateSpace.add = space_add

    class CountingDeque(collections.deque):
        def popleft(self):
            bump("taint_pops")
            return collections.deque.popleft(self)
    ta.deque = CountingDeque

    # every expansion of a node while a reported flow's path is reconstructed (depth-first search over the SFG)
    class CountingGraph(object):
        def __init__(self, g):
            self._g = g

        def successors(self, u):
            # counted apart from "steps" (the step bounds of the sweeps were calibrated without it); a search that
            # enumerates paths instead of nodes is aborted at DFS_FACTOR times the step budget of the run
            box["taint_dfs"] += 1
            if box["taint_dfs"] > DFS_FACTOR * step_budget:
                on_budget()
            return self._g.successors(u)

        def __getattr__(self, name):
            return getattr(self._g, name)

    if hasattr(ta, "PathFinder") and hasattr(ta.PathFinder, "reconstruct_define_use_path"):
        orig_rec = ta.PathFinder.reconstruct_define_use_path

        def reconstruct_define_use_path(self, source, sink):
            # PathFinder.sfg is a read-only view of its TaintAnalysis' graph: swap it there for the duration
            owner = self.ta
            g = owner.sfg
            owner.sfg = CountingGraph(g)
            try:
                return orig_rec(self, source, sink)
            finally:
                owner.sfg = g
        ta.PathFinder.reconstruct_define_use_path = reconstruct_define_use_path

    orig_afs = gs.P3GlobalSemanticAnalysis.analyze_frame_stack

    def analyze_frame_stack(self, frame_stack, global_space, sfg):
        try:
            return orig_afs(self, frame_stack, global_space, sfg)
        finally:
            try:
                box["space"] += len(global_space)
                box["sfg_nodes"] += sfg.graph.number_of_nodes()
                box["sfg_edges"] += sfg.graph.number_of_edges()
                box["entries"] += 1
            except Exception:
                pass
    gs.P3GlobalSemanticAnalysis.analyze_frame_stack = analyze_frame_stack


def _child(wfd, files, enable_p2, base, step_budget, mem_headroom, count_calls):
    out = {"status": "crash"}
    box = {k: 0 for k in COUNTERS}
    box.update(steps=0, space=0, sfg_nodes=0, sfg_edges=0, entries=0)

    def emit(status, **kw):
        out.clear()
        out.update(status=status, counters=dict(box), **kw)
        ru = resource.getrusage(resource.RUSAGE_SELF)
        out["cpu_s"] = round(ru.ru_utime + ru.ru_stime, 3)
        out["maxrss_kb"] = ru.ru_maxrss
        try:
            os.write(wfd, (json.dumps(out, default=str) + "\n").encode())
        except Exception:
            pass

    def on_budget():
        emit("step-budget")
        os._exit(3)

    try:
        # limits: address space relative to the current mapping, file size, no core dumps
        try:
            with open("/proc/self/statm") as f:
                cur = int(f.read().split()[0]) * os.sysconf("SC_PAGE_SIZE")
            resource.setrlimit(resource.RLIMIT_AS, (cur + mem_headroom, cur + mem_headroom))
            resource.setrlimit(resource.RLIMIT_FSIZE, (FILE_LIMIT, FILE_LIMIT))
            resource.setrlimit(resource.RLIMIT_CORE, (0, 0))
        except Exception as e:  # pragma: no cover
            out["limit_error"] = repr(e)
        ru0 = resource.getrusage(resource.RUSAGE_SELF)
        box["base_rss_kb"] = ru0.ru_maxrss
        lianrun._state["scratch"] = base
        lianrun._state["pid"] = os.getpid()
        _install_counters(box, step_budget, on_budget)
        sd = lianrun.write_settings(os.path.join(base, "settings"), entry=ENTRY, source=SOURCE, sink=SINK)
        prof = None
        if count_calls:
            import cProfile
            prof = cProfile.Profile()
            prof.enable()
        t = time.time()
        res = lianrun.analyze(files, settings_dir=sd, lang="python", enable_p2=enable_p2,
                              workdir=os.path.join(base, "proj"))
        wall = time.time() - t
        if prof is not None:
            prof.disable()
            prof.create_stats()
            box["calls"] = sum(v[1] for v in prof.stats.values())
        exc = res.exc
        flows = sum(len(f) for f in res.flows) if res.flows else 0
        emit("done", wall_s=round(wall, 3), exc=(type(exc).__name__ + ":" + str(exc)[:200]) if exc is not None else None,
             flows=flows, stderr_tail=res.stderr[-300:], taint_ran=bool(res.flows))
    except MemoryError:
        emit("memory")
    except BaseException as e:  # noqa
        import traceback
        emit("crash", error=repr(e)[:300], tb=traceback.format_exc()[-1500:])
    finally:
        os._exit(0)


def run_project(files, enable_p2, wall_s=120.0, step_budget=DEFAULT_STEP_BUDGET, mem_headroom=MEM_HEADROOM,
                count_calls=False):
    """-> dict(status=done|watchdog|step-budget|memory|killed|crash, counters={...}, wall_s, ...)"""
    warm()
    base = tempfile.mkdtemp(prefix="c13-", dir=lianrun.scratch_dir())
    rfd, wfd = os.pipe()
    t0 = time.time()
    pid = os.fork()
    if pid == 0:
        try:
            os.close(rfd)
            os.setsid()
            # never outlive the check: die with the parent and, as a last resort, on an alarm
            signal.signal(signal.SIGALRM, signal.SIG_DFL)
            signal.alarm(int(wall_s) + 60)
            import ctypes
            ctypes.CDLL(None).prctl(1, signal.SIGKILL)   # PR_SET_PDEATHSIG
            if os.getppid() == 1:
                os._exit(4)
            # whatever native libraries print when they run out of memory does not belong in the report
            devnull = os.open(os.devnull, os.O_WRONLY)
            os.dup2(devnull, 1)
            os.dup2(devnull, 2)
        except Exception:
            pass
        _child(wfd, files, enable_p2, base, step_budget, mem_headroom, count_calls)
        os._exit(0)
    os.close(wfd)
    buf = b""
    status = None
    wstatus = None
    try:
        deadline = t0 + wall_s
        while True:
            left = deadline - time.time()
            if left <= 0:
                status = "watchdog"
                break
            r, _, _ = select.select([rfd], [], [], min(left, 1.0))
            if r:
                chunk = os.read(rfd, 1 << 16)
                if not chunk:
                    break
                buf += chunk
                if buf.endswith(b"\n"):
                    break
            else:
                done, st = os.waitpid(pid, os.WNOHANG)
                if done:
                    # child is gone; drain what is left
                    wstatus = st
                    while True:
                        r, _, _ = select.select([rfd], [], [], 0)
                        if not r:
                            break
                        chunk = os.read(rfd, 1 << 16)
                        if not chunk:
                            break
                        buf += chunk
                    pid = 0
                    break
    finally:
        os.close(rfd)
        if pid and status != "watchdog":
            # the child has answered or closed the pipe: give it a moment to exit so that its status is known
            for _ in range(60):
                try:
                    done, st = os.waitpid(pid, os.WNOHANG)
                except ChildProcessError:
                    done, st = pid, None
                if done:
                    wstatus, pid = st, 0
                    break
                time.sleep(0.05)
        if pid:
            try:
                os.killpg(pid, signal.SIGKILL)
            except Exception:
                try:
                    os.kill(pid, signal.SIGKILL)
                except Exception:
                    pass
            try:
                os.waitpid(pid, 0)
            except Exception:
                pass
        shutil.rmtree(base, ignore_errors=True)
    elapsed = round(time.time() - t0, 3)
    if status == "watchdog":
        return {"status": "watchdog", "counters": {}, "elapsed_s": elapsed}
    how = None
    if wstatus is not None:
        how = ("signal %d" % os.WTERMSIG(wstatus)) if os.WIFSIGNALED(wstatus) else ("exit %d" % os.WEXITSTATUS(wstatus))
    line = buf.decode("utf-8", "replace").strip().splitlines()
    if not line:
        return {"status": "killed", "counters": {}, "elapsed_s": elapsed, "how": how}
    try:
        out = json.loads(line[-1])
    except Exception:
        return {"status": "killed", "counters": {}, "elapsed_s": elapsed, "raw": line[-1][:200], "how": how}
    out["elapsed_s"] = elapsed
    out["how"] = how
    return out
