"""C05 helper: Python scope-tree programs "from the answer".

A program is a JSON-able tree of scopes (module / function / class) whose bodies hold one-identifier-per-line
statements over a three-letter alphabet.  Three independent things are computed from it:

  * render(tree)            -> source text + the list of identifier occurrences (line, name, role, scope path)
  * intended(tree)          -> the generator's own resolver (Python's LEGB rules written down directly)
  * symtable_oracle(source) -> ground truth from the standard library: ast (where is each Name) + symtable
                               (local / free / global / cell per scope) -> owning scope of every occurrence

`intended` and `symtable_oracle` must agree (else harness error); lian is compared with the symtable oracle.
"""
import ast
import collections
import symtable

ALPHABET = ["x", "y", "z"]
BUILTINS = ["len", "print"]

READ_FORMS = ["plain", "binop", "attr", "call", "arg", "setattr", "cond", "index"]


# ---------------------------------------------------------------------------------------------
# tree helpers

def mk_scope(kind, name=None, params=None, body=None):
    return {"kind": kind, "name": name, "params": list(params or []), "body": list(body or [])}


def walk_stmts(body):
    """Yield every statement of a body, descending into if/for/with/try blocks but NOT into nested scopes."""
    for s in body:
        yield s
        for key in ("body", "orelse"):
            if key in s and s["t"] not in ("def", "class"):
                yield from walk_stmts(s[key])


def child_scopes(scope):
    return [s["s"] for s in walk_stmts(scope["body"]) if s["t"] in ("def", "class")]


def bound_names(scope):
    """Names bound by statements directly in this scope (before global/nonlocal are taken into account)."""
    out = set(scope["params"])
    for s in walk_stmts(scope["body"]):
        t = s["t"]
        if t in ("assign", "aug", "for", "with", "except", "walrus", "src", "copy"):
            out.add(s["n"])
        elif t == "call2":
            out.add(s["to"])
        elif t in ("def", "class"):
            out.add(s["s"]["name"])
        elif t == "import":
            out.add(s["as"] or s["m"].split(".")[0])
        elif t == "from":
            if s["n"] != "*":
                out.add(s["as"] or s["n"])
        elif t == "read" and s.get("w"):
            out.add(s["w"])
    return out


def declared(scope, what):
    return {s["n"] for s in walk_stmts(scope["body"]) if s["t"] == what}


class Info:
    """Scope table derived from the tree: parents, locals, globals, nonlocals."""

    def __init__(self, tree):
        self.tree = tree
        self.scopes = []           # list of scope dicts in pre-order
        self.parent = {}           # id(scope) -> parent scope or None
        self.path = {}             # id(scope) -> tuple of indexes
        self._walk(tree, None, ())
        self.globals = {id(s): declared(s, "global") for s in self.scopes}
        self.nonlocals = {id(s): declared(s, "nonlocal") for s in self.scopes}
        self.locals = {}
        for s in self.scopes:
            b = bound_names(s)
            if s["kind"] != "module":
                b = b - self.globals[id(s)] - self.nonlocals[id(s)]
            self.locals[id(s)] = b

    def _walk(self, scope, parent, path):
        self.scopes.append(scope)
        self.parent[id(scope)] = parent
        self.path[id(scope)] = path
        for i, c in enumerate(child_scopes(scope)):
            self._walk(c, scope, path + (i,))

    def ancestors(self, scope):
        out = []
        p = self.parent[id(scope)]
        while p is not None:
            out.append(p)
            p = self.parent[id(p)]
        return out

    def module_binds(self, name):
        """Is there a binding statement for a module-level `name` anywhere (module body, or `global name`
        plus a binding in some function)?  -> 'module' | 'via-global' | None"""
        if name in bound_names(self.tree):
            return "module"
        for s in self.scopes:
            if s["kind"] != "module" and name in self.globals[id(s)] and name in bound_names(s):
                return "via-global"
        return None

    def free_lookup(self, scope, name):
        """Resolve a name that is not local to `scope`: enclosing FUNCTION scopes only (classes are skipped),
        stopping at a `global` declaration.  -> (owner scope | 'module', how)"""
        p = self.parent[id(scope)]
        while p is not None and p["kind"] != "module":
            if p["kind"] == "func":
                if name in self.globals[id(p)]:
                    return "module", "global-inherited"
                if name in self.locals[id(p)]:
                    return p, "free"
                # nonlocal in p, or not mentioned: continue outwards
            p = self.parent[id(p)]
        return "module", "implicit"

    def resolve(self, scope, name):
        """-> (owner scope | 'module', how) by Python's rules."""
        if scope["kind"] == "module":
            return "module", "module"
        if name in self.globals[id(scope)]:
            return "module", "global-stmt"
        if name in self.nonlocals[id(scope)]:
            o, how = self.free_lookup(scope, name)
            return o, ("nonlocal" if o != "module" else "nonlocal-unbound")
        if name in self.locals[id(scope)]:
            if name in scope["params"]:
                return scope, "param"
            return scope, ("class-local" if scope["kind"] == "class" else "local")
        return self.free_lookup(scope, name)


# ---------------------------------------------------------------------------------------------
# fix-up: make a freely drawn tree a valid, statically unambiguous Python program

def fixup(tree):
    """Drop statements that would make the program invalid or its binding flow-dependent:
      * global/nonlocal naming a parameter, duplicated, or both for one name; nonlocal without an enclosing
        function binding; global/nonlocal not at the top of the body
      * in class bodies: a read of a class-local name before its first binding (LOAD_NAME falls back to the
        global at run time: not a lexical question)
    Returns the number of dropped statements."""
    dropped = 0
    changed = True
    while changed:
        changed = False
        info = Info(tree)
        for sc in info.scopes:
            seen = set()
            body = sc["body"]
            keep = []
            for idx, s in enumerate(body):
                if s["t"] in ("global", "nonlocal"):
                    n = s["n"]
                    bad = (sc["kind"] != "func" or n in sc["params"] or n in seen)
                    if not bad and s["t"] == "nonlocal":
                        o, how = info.free_lookup(sc, n)
                        bad = (o == "module")
                    if bad:
                        dropped += 1
                        changed = True
                        continue
                    seen.add(n)
                keep.append(s)
            sc["body"] = keep
            if sc["kind"] == "class":
                local = info.locals[id(sc)]
                bound_so_far = set()
                keep = []
                for s in sc["body"]:
                    if s["t"] == "read" and s["n"] in local and s["n"] not in bound_so_far:
                        dropped += 1
                        changed = True
                        continue
                    if s["t"] == "assign":
                        bound_so_far.add(s["n"])
                    elif s["t"] in ("def", "class"):
                        bound_so_far.add(s["s"]["name"])
                    elif s["t"] == "read" and s.get("w"):
                        bound_so_far.add(s["w"])
                    keep.append(s)
                sc["body"] = keep
        if changed:
            continue
    return dropped


# ---------------------------------------------------------------------------------------------
# rendering

class Occ:
    __slots__ = ("line", "name", "role", "scope", "join", "form")

    def __init__(self, line, name, role, scope, join=None, form=None):
        self.line, self.name, self.role, self.scope, self.join, self.form = line, name, role, scope, join, form

    def key(self):
        return "%d:%s" % (self.line, self.name)


def render(tree, wprefix="w", wstart=1):
    """-> (source, occurrences, scope_lines) ; scope_lines: id(scope) -> line of its def/class (0 for module).
    Every read statement gets a unique target name (stored in the statement as 'w')."""
    lines = []
    occs = []
    scope_line = {id(tree): 0}
    counter = [wstart]

    def fresh():
        n = "%s%d" % (wprefix, counter[0])
        counter[0] += 1
        return n

    def emit(ind, text):
        lines.append("    " * ind + text)
        return len(lines)

    def body(scope, stmts, ind):
        if not stmts:
            emit(ind, "pass")
            return
        for s in stmts:
            t = s["t"]
            if t == "assign":
                ln = emit(ind, "%s = %d" % (s["n"], s.get("v", 1)))
                occs.append(Occ(ln, s["n"], "def", scope, form="assign"))
            elif t == "src":
                ln = emit(ind, "%s = srcobj.get()" % s["n"])
                occs.append(Occ(ln, s["n"], "def", scope, form="src"))
                occs.append(Occ(ln, "srcobj", "use", scope, form="builtin"))
            elif t == "copy":
                ln = emit(ind, "%s = %s" % (s["n"], s["from"]))
                occs.append(Occ(ln, s["n"], "def", scope, form="assign"))
                occs.append(Occ(ln, s["from"], "use", scope, form="plain"))
            elif t == "call2":
                ln = emit(ind, "%s = %s(%s)" % (s["to"], s["fn"], s["n"]))
                occs.append(Occ(ln, s["to"], "def", scope, form="assign"))
                occs.append(Occ(ln, s["fn"], "use", scope, form="call"))
                occs.append(Occ(ln, s["n"], "use", scope, form="arg"))
            elif t == "aug":
                ln = emit(ind, "%s += 1" % s["n"])
                occs.append(Occ(ln, s["n"], "usedef", scope, form="aug"))
            elif t == "read":
                w = s.get("w") or fresh()
                s["w"] = w
                n, f = s["n"], s.get("f", "plain")
                in_class = scope["kind"] == "class"
                if in_class:
                    f = "plain"
                if f == "plain":
                    ln = emit(ind, "%s = %s" % (w, n))
                elif f == "binop":
                    ln = emit(ind, "%s = %s + 1" % (w, n))
                elif f == "attr":
                    ln = emit(ind, "%s = %s.a" % (w, n))
                elif f == "call":
                    ln = emit(ind, "%s = %s(2)" % (w, n))
                elif f == "arg":
                    ln = emit(ind, "%s = str(%s)" % (w, n))
                elif f == "sink":
                    ln = emit(ind, "sink(%s)" % n)
                elif f == "setattr":
                    ln = emit(ind, "%s.b = 3" % n)
                elif f == "index":
                    ln = emit(ind, "%s = %s[0]" % (w, n))
                elif f == "cond":
                    ln = emit(ind, "if %s:" % n)
                    emit(ind + 1, "pass")
                else:
                    raise ValueError(f)
                occs.append(Occ(ln, n, "use", scope, join=("target", w) if in_class else None, form=f))
                if f not in ("setattr", "cond", "sink"):
                    occs.append(Occ(ln, w, "def", scope, form="w"))
                if f == "sink":
                    occs.append(Occ(ln, "sink", "use", scope, form="builtin"))
                if f == "arg":
                    occs.append(Occ(ln, "str", "use", scope, form="builtin"))
            elif t == "ret":
                ln = emit(ind, "return %s" % s["n"])
                occs.append(Occ(ln, s["n"], "use", scope, form="ret"))
            elif t == "for":
                ln = emit(ind, "for %s in [1]:" % s["n"])
                occs.append(Occ(ln, s["n"], "def", scope, form="for"))
                body(scope, s["body"], ind + 1)
            elif t == "with":
                ln = emit(ind, "with open(1) as %s:" % s["n"])
                occs.append(Occ(ln, s["n"], "def", scope, form="with"))
                occs.append(Occ(ln, "open", "use", scope, form="builtin"))
                body(scope, s["body"], ind + 1)
            elif t == "except":
                emit(ind, "try:")
                emit(ind + 1, "pass")
                ln = emit(ind, "except ValueError as %s:" % s["n"])
                occs.append(Occ(ln, s["n"], "def", scope, form="except"))
                occs.append(Occ(ln, "ValueError", "use", scope, form="builtin"))
                body(scope, s["body"], ind + 1)
            elif t == "if":
                emit(ind, "if 1:")
                body(scope, s["body"], ind + 1)
                if s.get("orelse"):
                    emit(ind, "else:")
                    body(scope, s["orelse"], ind + 1)
            elif t in ("global", "nonlocal"):
                ln = emit(ind, "%s %s" % (t, s["n"]))
                occs.append(Occ(ln, s["n"], "decl", scope, form=t))
            elif t == "def":
                c = s["s"]
                ln = emit(ind, "def %s(%s):" % (c["name"], ", ".join(c["params"])))
                scope_line[id(c)] = ln
                occs.append(Occ(ln, c["name"], "def", scope, form="def"))
                for p in c["params"]:
                    occs.append(Occ(ln, p, "param", c, form="param"))
                body(c, c["body"], ind + 1)
            elif t == "class":
                c = s["s"]
                ln = emit(ind, "class %s:" % c["name"])
                scope_line[id(c)] = ln
                occs.append(Occ(ln, c["name"], "def", scope, form="class"))
                body(c, c["body"], ind + 1)
            elif t == "import":
                if s["as"]:
                    ln = emit(ind, "import %s as %s" % (s["m"], s["as"]))
                    occs.append(Occ(ln, s["as"], "def", scope, form="import-as"))
                else:
                    ln = emit(ind, "import %s" % s["m"])
                    occs.append(Occ(ln, s["m"].split(".")[0], "def", scope, form="import"))
            elif t == "from":
                if s["n"] == "*":
                    emit(ind, "from %s import *" % s["m"])
                elif s["as"]:
                    ln = emit(ind, "from %s import %s as %s" % (s["m"], s["n"], s["as"]))
                    occs.append(Occ(ln, s["as"], "def", scope, form="from-as"))
                else:
                    ln = emit(ind, "from %s import %s" % (s["m"], s["n"]))
                    occs.append(Occ(ln, s["n"], "def", scope, form="from"))
            else:
                raise ValueError("unknown statement %r" % (s,))

    body(tree, tree["body"], 0)
    return "\n".join(lines) + "\n", occs, scope_line


def scope_kind_line(scope, scope_line):
    if scope == "module" or scope["kind"] == "module":
        return ("module", 0)
    return (scope["kind"], scope_line[id(scope)])


def intended(tree, occs, scope_line):
    """generator's own answer: {occ key: (owner kind, owner line, how)}; owner kind 'module' line 0."""
    info = Info(tree)
    out = {}
    for o in occs:
        if o.role == "param":
            owner, how = o.scope, "param"
        else:
            owner, how = info.resolve(o.scope, o.name)
        k, ln = scope_kind_line(owner, scope_line)
        if k == "module" and how != "module" and False:
            pass
        out.setdefault(o.key(), []).append((k, ln, how))
    return out, info


# ---------------------------------------------------------------------------------------------
# ground truth: ast + symtable

class PScope:
    __slots__ = ("kind", "name", "line", "parent", "table", "children", "node")

    def __init__(self, kind, name, line, parent, table, node):
        self.kind, self.name, self.line, self.parent, self.table, self.node = kind, name, line, parent, table, node
        self.children = []

    def chain(self):
        out, p = [], self
        while p is not None:
            out.append(p)
            p = p.parent
        return out

    def ident(self):
        return (self.kind, self.line)


class PyOracle:
    """occurrences (line, name, ctx, PScope) of a source text and their owning scope by symtable."""

    def __init__(self, src, filename="a.py"):
        self.src = src
        self.tree = ast.parse(src, filename)
        self.top = symtable.symtable(src, filename, "exec")
        self.module = PScope("module", None, 0, None, self.top, self.tree)
        self.scopes = [self.module]
        self.occs = []          # (line, name, role, PScope, extra)
        self.unsupported = []   # constructs this oracle does not model (lambda, comprehension, ...)
        self.line_ctx = {}      # line of a statement -> (depth of compound-statement nesting inside its scope,
        #                                                  inside an except-clause body?)
        self._ctx = (0, False, False)
        self._visit_body(self.tree.body, self.module)

    # -- matching symtable children to ast nodes -------------------------------------------------
    def _child_table(self, ps, name, line):
        for c in ps.table.get_children():
            if c.get_name() == name and c.get_lineno() == line:
                return c
        raise RuntimeError("no symtable child %s@%d in %s" % (name, line, ps.table.get_name()))

    def _visit_body(self, stmts, ps, nest=None):
        """nest: None = same context; 'block' = one compound statement deeper; 'except' = an except-clause body;
        'scope' = body of a new scope"""
        saved = self._ctx
        if nest == "block":
            self._ctx = (saved[0] + 1, saved[1], saved[2])
        elif nest == "loop":          # for / with bodies: FOR_KIND / WITH_KIND scopes in lian
            self._ctx = (saved[0] + 1, saved[1], True)
        elif nest == "except":        # catch_body block -> catch_clause -> body block: not an implicit root
            self._ctx = (saved[0] + 1, True, True)
        elif nest == "scope":
            self._ctx = (0, False, False)
        for st in stmts:
            self.line_ctx.setdefault(st.lineno, self._ctx)
            self._visit_stmt(st, ps)
        self._ctx = saved

    def _names_in_expr(self, e, ps):
        if e is None:
            return
        for n in ast.walk(e):
            if isinstance(n, (ast.Lambda, ast.ListComp, ast.SetComp, ast.DictComp, ast.GeneratorExp)):
                self.unsupported.append((n.lineno, type(n).__name__))
            if isinstance(n, ast.NamedExpr):
                self.unsupported.append((n.lineno, "NamedExpr"))
        for n in ast.walk(e):
            if isinstance(n, ast.Name):
                role = "use" if isinstance(n.ctx, ast.Load) else ("def" if isinstance(n.ctx, ast.Store) else "del")
                self.occs.append((n.lineno, n.id, role, ps, None))

    def _visit_stmt(self, st, ps):
        if isinstance(st, (ast.FunctionDef, ast.AsyncFunctionDef)):
            for d in st.decorator_list:
                self._names_in_expr(d, ps)
            a = st.args
            for dflt in list(a.defaults) + [d for d in a.kw_defaults if d is not None]:
                self._names_in_expr(dflt, ps)
            self.occs.append((st.lineno, st.name, "def", ps, "def"))
            child = PScope("func", st.name, st.lineno, ps, self._child_table(ps, st.name, st.lineno), st)
            ps.children.append(child)
            self.scopes.append(child)
            for arg in a.posonlyargs + a.args + a.kwonlyargs + [x for x in (a.vararg, a.kwarg) if x]:
                self.occs.append((arg.lineno, arg.arg, "param", child, None))
            self._visit_body(st.body, child, "scope")
        elif isinstance(st, ast.ClassDef):
            for d in st.decorator_list + st.bases + [k.value for k in st.keywords]:
                self._names_in_expr(d, ps)
            self.occs.append((st.lineno, st.name, "def", ps, "class"))
            child = PScope("class", st.name, st.lineno, ps, self._child_table(ps, st.name, st.lineno), st)
            ps.children.append(child)
            self.scopes.append(child)
            self._visit_body(st.body, child, "scope")
        elif isinstance(st, (ast.Global, ast.Nonlocal)):
            for n in st.names:
                self.occs.append((st.lineno, n, "decl", ps, "global" if isinstance(st, ast.Global) else "nonlocal"))
        elif isinstance(st, ast.Import):
            for al in st.names:
                self.occs.append((st.lineno, al.asname or al.name.split(".")[0], "def", ps,
                                  ("import", al.name, al.asname)))
        elif isinstance(st, ast.ImportFrom):
            for al in st.names:
                if al.name == "*":
                    self.occs.append((st.lineno, "*", "star", ps, ("from", st.module, "*", st.level)))
                else:
                    self.occs.append((st.lineno, al.asname or al.name, "def", ps,
                                      ("from", st.module, al.name, st.level)))
        elif isinstance(st, (ast.If, ast.While)):
            self._names_in_expr(st.test, ps)
            self._visit_body(st.body, ps, "block")
            self._visit_body(st.orelse, ps, "block")
        elif isinstance(st, (ast.For, ast.AsyncFor)):
            self._names_in_expr(st.target, ps)
            self._names_in_expr(st.iter, ps)
            self._visit_body(st.body, ps, "loop")
            self._visit_body(st.orelse, ps, "block")
        elif isinstance(st, (ast.With, ast.AsyncWith)):
            for it in st.items:
                self._names_in_expr(it.context_expr, ps)
                self._names_in_expr(it.optional_vars, ps)
            self._visit_body(st.body, ps, "loop")
        elif isinstance(st, ast.Try):
            self._visit_body(st.body, ps, "block")
            for h in st.handlers:
                self._names_in_expr(h.type, ps)
                if h.name:
                    self.occs.append((h.lineno, h.name, "def", ps, "except"))
                self._visit_body(h.body, ps, "except")
            self._visit_body(st.orelse, ps, "block")
            self._visit_body(st.finalbody, ps, "block")
        elif isinstance(st, ast.AugAssign):
            if isinstance(st.target, ast.Name):
                self.occs.append((st.target.lineno, st.target.id, "usedef", ps, "aug"))
            else:
                self._names_in_expr(st.target, ps)
            self._names_in_expr(st.value, ps)
        elif isinstance(st, (ast.Assign, ast.AnnAssign, ast.Expr, ast.Return, ast.Delete,
                             ast.Raise, ast.Assert)):
            for f in ast.iter_child_nodes(st):
                self._names_in_expr(f, ps)
        elif isinstance(st, (ast.Pass, ast.Break, ast.Continue)):
            pass
        else:
            self.unsupported.append((getattr(st, "lineno", 0), type(st).__name__))

    # -- owning scope --------------------------------------------------------------------------------
    def owner(self, ps, name):
        """-> (owner PScope, how)"""
        if ps.kind == "module":
            return self.module, "module"
        try:
            sym = ps.table.lookup(name)
        except KeyError:
            raise RuntimeError("symtable of %s@%d has no symbol %s" % (ps.name, ps.line, name))
        if sym.is_declared_global():
            return self.module, "global-stmt"
        if sym.is_global():
            # implicit global: free in this scope, no enclosing function binds it -- or an enclosing
            # function declared it global
            p = ps.parent
            while p is not None and p.kind != "module":
                if p.kind == "func":
                    try:
                        if p.table.lookup(name).is_declared_global():
                            return self.module, "global-inherited"
                    except KeyError:
                        pass
                p = p.parent
            return self.module, "implicit"
        if sym.is_local():
            if sym.is_parameter():
                return ps, "param"
            return ps, ("class-local" if ps.kind == "class" else "local")
        if sym.is_free():
            p = ps.parent
            while p is not None and p.kind != "module":
                if p.kind == "func":
                    try:
                        s2 = p.table.lookup(name)
                    except KeyError:
                        s2 = None
                    if s2 is not None and s2.is_local():
                        return p, ("nonlocal" if sym.is_nonlocal() else "free")
                p = p.parent
            raise RuntimeError("free variable %s of %s@%d has no binder" % (name, ps.name, ps.line))
        raise RuntimeError("symbol %s in %s@%d is neither local, global nor free" % (name, ps.name, ps.line))

    def module_binding(self, name):
        """'module'    the module body has a binding form lian declares at unit level (assign/def/class/import/...)
           'unhoisted' the module body binds the name only by forms that get no scope-wide declaration (findings)
           'via-global' only functions bind it, through a `global` statement
           None        nothing binds it (builtin / undefined)"""
        own = self.binding_forms(self.module, name, "own")
        if own & self.HOISTABLE:
            return "module"
        if own:
            return "unhoisted"
        if self.binding_forms(self.module, name, "declared"):
            return "via-global"
        return None

    def binding_forms(self, owner_ps, name, where=None):
        """set of binding forms of the variable (owner scope, name); where='own': only by statements of the owner
        scope itself, where='declared': only by statements of other scopes (through global / nonlocal):
             param / assign / def / class / import            -> lian has a declaration row the whole scope sees
             aug / except-as / except-body / import-in-block / def-in-block / class-in-block
                                                              -> (see the known findings) not hoisted"""
        out = set()
        for (ln, n, role, ps, extra) in self.occs:
            if n != name or role not in ("def", "param", "usedef"):
                continue
            o, how = (ps, "param") if role == "param" else self.owner(ps, n)
            if o is not owner_ps:
                continue
            if (where == "own" and ps is not owner_ps) or (where == "declared" and ps is owner_ps):
                continue
            depth, in_exc, scoped = self.line_ctx.get(ln, (0, False, False))
            if role == "param":
                out.add("param")
            elif role == "usedef":
                out.add("aug")
            elif extra == "except":
                out.add("except-as")
            elif in_exc and ps.kind != "module" and not isinstance(extra, tuple) and extra not in ("def", "class"):
                out.add("except-body")
            elif in_exc and ps.kind == "module" and not isinstance(extra, tuple) and extra not in ("def", "class"):
                out.add("except-body")
            elif isinstance(extra, tuple):
                # at module level if / try blocks are 'implicit root scopes' (visible everywhere), for / with
                # blocks are scopes of their own
                out.add("import-in-block" if (depth > 0 and (ps.kind != "module" or scoped)) else "import")
            elif extra in ("def", "class"):
                out.add(extra + ("-in-block" if (depth > 0 and ps.kind != "module") else ""))
            else:
                out.add("assign")
        return out

    HOISTABLE = frozenset(["param", "assign", "def", "class", "import"])

    def module_block_imports(self):
        """names bound by an import statement that sits inside a compound statement at module level"""
        out = {}
        for (ln, n, role, ps, extra) in self.occs:
            ctx = self.line_ctx.get(ln, (0, False, False))
            if role == "def" and isinstance(extra, tuple) and ps.kind == "module" and ctx[0] > 0 and not ctx[2]:
                out.setdefault(n, []).append(ln)
        return out

    def import_lines(self, owner_ps, name):
        """lines of the import statements that bind (owner scope, name)"""
        out = []
        for (ln, n, role, ps, extra) in self.occs:
            if n == name and role == "def" and isinstance(extra, tuple):
                o, how = self.owner(ps, n)
                if o is owner_ps:
                    out.append(ln)
        return out

    def scope_by_ident(self, kind, line):
        for ps in self.scopes:
            if ps.kind == kind and ps.line == line:
                return ps
        return None

    def binding_lines(self, owner_ps, name):
        """lines of the binding occurrences of (owner scope, name): where a declaration row may sit."""
        out = set()
        for (ln, n, role, ps, extra) in self.occs:
            if n != name or role not in ("def", "param"):
                continue
            o, how = (ps, "param") if role == "param" else self.owner(ps, n)
            if o is owner_ps:
                out.add(ln)
        return out

    def resolved(self):
        """-> list of dict(line, name, role, scope PScope, owner PScope, how, extra)"""
        out = []
        for (ln, n, role, ps, extra) in self.occs:
            if role == "star":
                continue
            if role == "param":
                o, how = ps, "param"
            else:
                o, how = self.owner(ps, n)
            out.append({"line": ln, "name": n, "role": role, "scope": ps, "owner": o, "how": how, "extra": extra})
        return out


def use_kind(ps):
    """kind of the scope an occurrence sits in, for signatures."""
    if ps.kind == "module":
        return "module"
    if ps.kind == "class":
        return "class-body"
    under_class = any(a.kind == "class" for a in ps.chain()[1:])
    if ps.parent is not None and ps.parent.kind == "class":
        return "method"
    if under_class:
        return "function-in-method"
    if ps.parent is not None and ps.parent.kind == "func":
        return "nested-function"
    return "function"


# ---------------------------------------------------------------------------------------------
# comparison of lian's bindings with the oracle (one unit; imports are resolved by the caller's `imports`)

EXPECTED_KIND = {"module": "module", "local": "local", "param": "param", "class-local": "class-local",
                 "free": "enclosing-function", "nonlocal": "enclosing-function-nonlocal", "implicit": "module",
                 "global-stmt": "module-via-global-stmt", "global-inherited": "module-via-inherited-global-stmt"}


UNHOISTED_KIND = {frozenset(["aug"]): "augassign-only-binding",
                  frozenset(["except-as"]): "except-as-only-binding",
                  frozenset(["except-body"]): "bound-only-inside-except-bodies",
                  frozenset(["import-in-block"]): "imported-only-inside-blocks"}


def pick_signature(lang, ukind, cks, eks, prop="C05"):
    """(chosen kind, expected kind) among the candidates (most specific first): the first pair that is an open
    known finding; if there is none, the most specific pair."""
    from harness import common
    for ek in eks:
        for ck in cks:
            if common.classify(prop, (prop, lang, ukind, ck, ek))[0] == "known":
                return ck, ek
    return cks[0], eks[0]


def decl_name(d):
    if d["op"] in ("import_stmt", "from_import_stmt"):
        if d.get("alias"):
            return d["alias"]
        return (d["name"] or "").split(".")[-1]
    return d["name"]


def chosen_kind(d, unit, use_scope):
    """classify lian's answer relative to the scope the occurrence sits in."""
    k = d["kind"]
    if k == "unresolved":
        return "unresolved"
    if k == "dangling":
        return "dangling"
    if k == "module":
        return "module-object"
    if d["unit"] != unit:
        return "other-unit"
    okind, oline = d["owner"][0], d["owner"][1]
    if okind == "unit":
        return "module"
    chain = use_scope.chain()
    for i, ps in enumerate(chain):
        if ps.kind != "module" and (ps.kind, ps.line) == (okind, oline):
            if i == 0:
                return "same-scope"
            return "enclosing-class" if ps.kind == "class" else "enclosing-function"
    return "sibling-or-inner-scope"


def compare_unit(unit, oracle, bind, lang="python", imports=None, col=None):
    """Compare every occurrence of one unit.  imports: optional callable(occurrence dict) -> expectation for
    names whose binding in the owner scope is an import statement (multi-file projects); returns None when
    the name is not import-bound.
    -> (discrepancies [(sig, what)], stats dict)"""
    out = []
    stats = collections.Counter()
    block_imports = oracle.module_block_imports()
    for r in oracle.resolved():
        role = r["role"]
        if role == "param" or r["extra"] in ("def", "class", "except") or isinstance(r["extra"], tuple):
            continue     # the declaration rows themselves
        stats["occurrences"] += 1
        ps, owner, how, name, line = r["scope"], r["owner"], r["how"], r["name"], r["line"]
        if ps.kind == "class" and role == "use":
            # class-body statements are collected into %class_sinit and lose their line: join on the target
            tgt = _class_read_target(oracle, line)
            syms = bind.at_target(unit, tgt, name) if tgt else []
        else:
            syms = bind.at_line(unit, line, name)
        if not syms:
            stats["unobserved"] += 1
            stats["unobserved:%s:%s" % (ps.kind, role)] += 1
            continue
        stats["compared"] += 1
        ukind = use_kind(ps)
        exp = None
        if imports is not None:
            exp = imports(r)
        for s in syms:
            stats["symbols"] += 1
            d = bind.describe(s["symbol_id"])
            if exp is not None:
                ok, ekinds, edesc = exp(d)
                if not ok:
                    ck, ekind = pick_signature(lang, ukind, [_imp_chosen(d, unit)], ekinds)
                    out.append(((lang, ukind, ck, ekind),
                                "%s:%d `%s` (%s) bound to %s, expected %s" % (unit, line, name, ukind, _short(d), edesc)))
                continue
            forms = oracle.binding_forms(owner, name, "own")
            if owner.kind == "module":
                mb = oracle.module_binding(name)
                unit_decl = (d["kind"] == "decl" and d["unit"] == unit and d["owner"][0] == "unit"
                             and decl_name(d) == name)
                if mb in ("module", "unhoisted"):
                    ekind = EXPECTED_KIND[how]
                    ok = unit_decl
                    edesc = "the module-level declaration of %s" % name
                elif mb == "via-global":
                    # the variable exists only through `global` in functions: there is no statement at module
                    # level a declaration row could come from; unresolved is accepted as well as a unit-level row
                    ekind = "unresolved" if how in ("module", "implicit") else "unresolved-" + EXPECTED_KIND[how][7:]
                    ok = d["kind"] == "unresolved" or unit_decl
                    edesc = "unresolved (no module-level declaration of %s; bound only through a global statement)" % name
                else:
                    ekind = "unresolved" if how in ("module", "implicit") else "unresolved-" + EXPECTED_KIND[how][7:]
                    ok = d["kind"] == "unresolved"
                    edesc = "unresolved (no declaration of %s)" % name
            else:
                ekind = EXPECTED_KIND[how]
                ok = (d["kind"] == "decl" and d["unit"] == unit and (d["owner"][0], d["owner"][1]) ==
                      (owner.kind, owner.line) and decl_name(d) == name)
                edesc = "%s of %s %s (line %d)" % (how, owner.kind, owner.name, owner.line)
            if ok:
                continue
            if role == "decl":
                # the global / nonlocal statement itself (resolved by a dedicated branch of lian): its own expected
                # kind, so that it cannot hide behind the findings about the USES under such a declaration
                ekind = ("global-statement-itself(%s)" % ("unresolved" if ekind.startswith("unresolved") else "module")
                         if how == "global-stmt" else "nonlocal-statement-itself")
            # root-cause qualifiers, most specific first; the first one that is an OPEN known finding names the
            # signature (so that repairing one defect does not hide behind / get blamed on another)
            eks = []
            if name in block_imports:
                # two different root causes: (owner is something else) the block's import row is an implicit root
                # scope preferred over the visible declaration; (owner is the module) the import statement is not
                # at unit top level, so it is only analysed when def-use analysis reaches it
                if owner.kind != "module":
                    eks.append("name-also-imported-inside-a-module-level-block")
                elif ps.kind != "module" or line < min(block_imports[name]):
                    # (a module-level use after the import statement has been analysed must resolve)
                    eks.append("module-level-name-imported-inside-a-block")
            if owner.kind == "func" and owner.parent is not None and owner.parent.kind == "class" \
                    and ps is not owner and _first_param(owner) == name:
                eks.append("first-parameter-of-method-captured-by-nested-scope")
            if forms and not (forms & oracle.HOISTABLE):
                eks.append(UNHOISTED_KIND.get(frozenset(forms), "bound-only-by-unhoisted-forms(mixed)"))
            if owner.kind != "module" and imports is None:
                ils = oracle.import_lines(owner, name)
                if ils and (line < min(ils) or ps is not owner):
                    # textually earlier, or in a nested function (analysed before the importing function)
                    eks.append("name-used-before-its-import-statement")
            eks.append(ekind)
            cks = []
            base_ck = chosen_kind(d, unit, ps)
            if d["kind"] == "decl" and d["unit"] == unit:
                if decl_name(d) != name:
                    base_ck = "other-name"
                elif d["owner"][0] == "func":
                    # a def/class/import row of a name that its function declares global / nonlocal
                    dps = oracle.scope_by_ident("func", d["owner"][1])
                    if dps is not None:
                        try:
                            sym = dps.table.lookup(name)
                            if sym.is_declared_global():
                                cks.append("local-row-under-own-global-decl" if dps is ps else
                                           "local-row-under-enclosing-global-decl")
                            elif sym.is_nonlocal():
                                cks.append("local-row-under-nonlocal-decl")
                        except KeyError:
                            pass
            if d["kind"] == "decl" and d["unit"] == unit and d["op"] == "class_decl" and decl_name(d) == name:
                # correct_scopes registers EVERY class_decl below a class's `nested` block as a member of that
                # class, also those nested deeper
                chain = bind.owner_chain(d["stmt_id"])
                classes = [(k, ln) for (k, ln, nm, sid) in chain if k == "class"]
                mine = {(q.kind, q.line) for q in ps.chain()}
                if len(classes) >= 2 and any(c in mine for c in classes[1:]) and classes[0] not in mine:
                    cks.append("class-row-nested-deeper-in-own-or-enclosing-class")
            cks.append(base_ck)
            ck, ekind = pick_signature(lang, ukind, cks, eks)
            out.append(((lang, ukind, ck, ekind),
                        "%s:%d `%s` (%s) bound to %s, expected %s" % (unit, line, name, ukind, _short(d), edesc)))
    return out, stats


def _first_param(ps):
    a = ps.node.args
    args = a.posonlyargs + a.args
    return args[0].arg if args else None


def _imp_chosen(d, unit):
    if d["kind"] == "decl":
        if d["unit"] == unit:
            return "import-stmt" if d["op"] in ("import_stmt", "from_import_stmt") else "own-unit-decl"
        return "other-unit-decl"
    if d["kind"] == "module":
        return "module-object"
    return d["kind"]


def _short(d):
    if d["kind"] == "decl":
        return "%s %s at %s:%d in %s %s@%d" % (d["op"], d["name"], d["unit"], d["line"], d["owner"][0],
                                             d["owner"][2] if d["owner"][0] != "unit" else "", d["owner"][1])
    if d["kind"] == "module":
        return "module %s" % d["path"]
    if d["kind"] == "dangling":
        return "dangling id (%s)" % d["why"]
    return "unresolved"


def _class_read_target(oracle, line):
    """target name of a class-body statement `w = name` on this line."""
    for node in ast.walk(oracle.tree):
        if isinstance(node, ast.Assign) and node.lineno == line and len(node.targets) == 1 \
                and isinstance(node.targets[0], ast.Name):
            return node.targets[0].id
    return None


def nontrivial(oracle):
    """>= 1 use of a name that is declared in >= 2 scopes each of which is an ancestor-or-self of the use's
    scope or a child of one (visible or sibling)."""
    res = oracle.resolved()
    decl_scopes = {}
    for r in res:
        if r["role"] in ("def", "param") or r["role"] == "usedef":
            decl_scopes.setdefault(r["name"], set()).add(id(r["owner"]))
    owners = {}
    for r in res:
        owners[id(r["owner"])] = r["owner"]
    for r in res:
        if r["role"] not in ("use", "usedef", "decl"):
            continue
        chain_ids = {id(p) for p in r["scope"].chain()}
        n = 0
        for sid in decl_scopes.get(r["name"], ()):
            sc = owners[sid]
            if id(sc) in chain_ids or (sc.parent is not None and id(sc.parent) in chain_ids):
                n += 1
        if n >= 2:
            return True
    return False


def labels(oracle):
    """generator-class labels measured on the ground truth."""
    out = set()
    for r in oracle.resolved():
        if r["role"] in ("param",) or r["extra"] in ("def", "class"):
            continue
        out.add("py:expect:" + r["how"])
        out.add("py:use-in:" + use_kind(r["scope"]))
        if r["owner"].kind == "module" and r["scope"].kind != "module" and oracle.module_binding(r["name"]) is None:
            out.add("py:expect:unresolved")
        # shadowing: the name is also bound in a farther enclosing scope than its owner
        if r["owner"].kind != "module":
            for p in r["owner"].chain()[1:]:
                try:
                    s2 = p.table.lookup(r["name"])
                    if (p.kind == "module" and (s2.is_assigned() or s2.is_namespace())) or \
                            (p.kind != "module" and s2.is_local()):
                        out.add("py:shadowing")
                        if r["how"] == "param" and p.kind == "module":
                            out.add("py:param-shadows-global")
                except KeyError:
                    pass
    depth = max(len(ps.chain()) for ps in oracle.scopes)
    out.add("py:depth:%d" % min(depth - 1, 4))
    return out


# ---------------------------------------------------------------------------------------------
# Hypothesis strategy

def tree_strategy(max_depth=3, extra_forms=False, imports=False):
    """A freely drawn scope tree (fixup() must be applied afterwards)."""
    from hypothesis import strategies as st

    name_st = st.sampled_from(ALPHABET)
    read_name_st = st.one_of(name_st, name_st, name_st, name_st, name_st, st.sampled_from(BUILTINS + ["u"]))
    form_st = st.sampled_from(READ_FORMS + ["plain", "plain", "plain"])

    @st.composite
    def tree(draw):
        budget = [draw(st.integers(10, 34))]

        def simple(kind, depth, in_block):
            """one non-scope statement"""
            r = draw(st.integers(0, 99))
            if kind == "class":
                if r < 50:
                    return {"t": "assign", "n": draw(name_st), "v": draw(st.integers(1, 9))}
                return {"t": "read", "n": draw(read_name_st), "f": "plain"}
            if r < 30:
                return {"t": "assign", "n": draw(name_st), "v": draw(st.integers(1, 9))}
            if r < 78:
                return {"t": "read", "n": draw(read_name_st), "f": draw(form_st)}
            if r < 84:
                return {"t": "aug", "n": draw(name_st)}
            if r < 90 and not in_block:
                budget[0] -= 1
                return {"t": "for", "n": draw(name_st), "body": [simple(kind, depth, True)]}
            if r < 96 and not in_block:
                budget[0] -= 1
                s = {"t": "if", "body": [simple(kind, depth, True)], "orelse": []}
                if draw(st.booleans()):
                    s["orelse"] = [simple(kind, depth, True)]
                return s
            if extra_forms and not in_block and r < 98:
                budget[0] -= 1
                return {"t": draw(st.sampled_from(["with", "except"])), "n": draw(name_st),
                        "body": [simple(kind, depth, True)]}
            if imports and kind != "class" and (not in_block or r >= 90):
                if draw(st.booleans()):
                    return {"t": "import", "m": draw(st.sampled_from(["os", "sys"])), "as": draw(name_st)}
                return {"t": "from", "m": "os", "n": draw(st.sampled_from(["path", "sep"])), "as": draw(name_st)}
            return {"t": "read", "n": draw(read_name_st), "f": "plain"}

        def scope_body(kind, depth, params):
            body = []
            if kind == "func":
                # prelude: global / nonlocal declarations
                r = draw(st.integers(0, 9))
                if r < 3:
                    body.append({"t": "global" if draw(st.integers(0, 2)) else "nonlocal", "n": draw(name_st)})
                    if r == 0:
                        body.append({"t": "nonlocal" if draw(st.integers(0, 2)) else "global", "n": draw(name_st)})
            n = draw(st.integers(1, 5 if kind != "class" else 4))
            for _ in range(n):
                if budget[0] <= 0:
                    break
                budget[0] -= 1
                r = draw(st.integers(0, 99))
                p_def = {"module": 34, "func": 22, "class": 45}[kind]
                p_class = {"module": 14, "func": 8, "class": 8}[kind]
                if depth < max_depth and r < p_def:
                    nparams = draw(st.integers(0, 2))
                    ps = draw(st.lists(name_st, min_size=nparams, max_size=nparams, unique=True))
                    if kind == "class" and draw(st.integers(0, 9)) < 8:
                        ps = ["self"] + ps
                    c = mk_scope("func", draw(name_st), ps)
                    c["body"] = scope_body("func", depth + 1, ps)
                    body.append({"t": "def", "s": c})
                elif depth < max_depth and r < p_def + p_class:
                    c = mk_scope("class", draw(name_st))
                    c["body"] = scope_body("class", depth + 1, [])
                    body.append({"t": "class", "s": c})
                else:
                    body.append(simple(kind, depth, False))
            if kind == "func":
                if not any(s["t"] == "read" for s in walk_stmts(body)):
                    body.append({"t": "read", "n": draw(name_st), "f": "plain"})
                if draw(st.integers(0, 5)) == 0:
                    body.append({"t": "ret", "n": draw(name_st)})
            return body

        t = mk_scope("module")
        t["body"] = scope_body("module", 0, [])
        if not child_scopes(t):
            ps = [draw(name_st)]
            c = mk_scope("func", draw(name_st), ps)
            c["body"] = scope_body("func", 1, ps)
            t["body"].append({"t": "def", "s": c})
        # trailing module-level reads: sibling/inner declarations must not leak out
        for _ in range(draw(st.integers(0, 2))):
            t["body"].append({"t": "read", "n": draw(read_name_st), "f": "plain"})
        if imports and draw(st.integers(0, 5)) == 0:
            # a module-level import inside a block, then a module-level use: Python has no block scope
            free = [n for n in ALPHABET if n not in bound_names(t)]
            if free:
                n = draw(st.sampled_from(free))
                imp = {"t": "import", "m": "sys", "as": n} if draw(st.booleans()) else \
                    {"t": "from", "m": "os", "n": "sep", "as": n}
                t["body"].append({"t": draw(st.sampled_from(["if", "for"])), "n": "u0", "body": [imp], "orelse": []})
                t["body"].append({"t": "read", "n": n, "f": "plain"})
        return t

    return tree()
