"""C03 — inputs: repository corpora, template-generated valid programs (with source-order markers),
byte-level mutation operators with per-language token dictionaries, multi-file project builders.

All random choices are made by the caller through a `draw(strategy)` function (Hypothesis `st.data().draw`
or the composite `draw`), so every case is a pure function of the Hypothesis seed.
"""
import os

from harness import common

LANGS = ["c", "go", "java", "javascript", "php", "python", "typescript"]

EXT_LANG = {".c": "c", ".h": "c", ".go": "go", ".java": "java", ".js": "javascript", ".cjs": "javascript",
            ".mjs": "javascript", ".php": "php", ".py": "python", ".ts": "typescript", ".tsx": "typescript",
            ".ets": "typescript"}
LANG_EXT = {"c": ".c", "go": ".go", "java": ".java", "javascript": ".js", "php": ".php", "python": ".py",
            "typescript": ".ts"}

MAX_CORPUS_BYTES_QUICK = 64 * 1024      # one 175 kB Java file needs about a minute: thorough tier only
MAX_MUTATION_BASE_BYTES = 12 * 1024


def corpus(include_real_cases=True):
    """{lang: [(relative path, bytes)]} sorted by path — every file of a supported extension under
    <repo>/tests.  Deterministic (sorted walk)."""
    out = {l: [] for l in LANGS}
    root = os.path.join(common.REPO, "tests")
    for d, ds, fs in os.walk(root):
        ds.sort()
        if not include_real_cases and "real_cases" in d.split(os.sep):
            continue
        for f in sorted(fs):
            lang = EXT_LANG.get(os.path.splitext(f)[1])
            if lang is None:
                continue
            p = os.path.join(d, f)
            try:
                if os.path.islink(p) or not os.path.isfile(p):
                    continue
                with open(p, "rb") as fh:
                    data = fh.read()
            except OSError:
                continue
            out[lang].append((os.path.relpath(p, root), data))
    for l in out:
        out[l].sort()
    return out


# ---------------------------------------------------------------------------------------------
# token dictionaries (insertion mutation)

COMMON_TOKENS = ["(", ")", "{", "}", "[", "]", ";", ",", ".", ":", "=", "==", "!=", "<", ">", "<=", ">=", "+", "-", "*",
                 "/", "%", "&&", "||", "!", "&", "|", "^", "~", "?", "++", "--", "+=", "-=", "->", "=>", "::", "...",
                 "\"", "'", "`", "\\", "#", "@", "$", "//", "/*", "*/", "\n", "\t", " ", "0", "1", "0x1F", "1.5e3", "\"s\"",
                 "x", "y", "f", "this", "null", "true", "false", "é", "中"]

TOKENS = {
    "python": ["def ", "class ", "lambda ", "return ", "yield ", "await ", "async ", "if ", "elif ", "else:", "for ", " in ",
               "while ", "try:", "except ", "finally:", "with ", " as ", "import ", "from ", "global ", "nonlocal ", "pass",
               "break", "continue", "raise ", "assert ", "del ", "not ", " and ", " or ", " is ", "None", "True", "False",
               "self", "match ", "case ", "@", ":=", "**", "//", "'''", '"""', "f\"{x}\"", "    ", "\n    ", "[x for x in y]",
               "*args", "**kw", "print(", "__init__", "type ", "->"],
    "javascript": ["function ", "class ", "extends ", "constructor", "return ", "yield ", "await ", "async ", "if (", "else ",
                   "for (", " of ", " in ", "while (", "do ", "switch (", "case ", "default:", "break;", "continue;", "try {",
                   "catch (e)", "finally ", "throw ", "new ", "delete ", "typeof ", "instanceof ", "var ", "let ", "const ",
                   "import ", "export ", "from ", "default ", "static ", "get ", "set ", "super", "this.", "undefined",
                   "=>", "===", "!==", "?.", "??", "**", "`${x}`", "/re/g", "...x", "#p", "label:", "void ", "with ("],
    "typescript": ["function ", "class ", "extends ", "implements ", "interface ", "enum ", "namespace ", "module ", "type ",
                   "declare ", "abstract ", "readonly ", "private ", "public ", "protected ", "constructor", "return ",
                   "await ", "async ", "if (", "else ", "for (", " of ", " in ", "while (", "do ", "switch (", "case ",
                   "default:", "break;", "continue;", "try {", "catch (e)", "finally ", "throw ", "new ", "delete ",
                   "typeof ", "keyof ", "instanceof ", "var ", "let ", "const ", "import ", "export ", "from ", "static ",
                   "this.", ": number", ": string", "<T>", " as ", " is ", "!.", "?.", "??", "=>", "===", "@dec", "satisfies ",
                   "unique symbol", "infer ", "never", "unknown", "any", "`${x}`", "...x"],
    "java": ["class ", "interface ", "enum ", "record ", "@interface ", "extends ", "implements ", "package ", "import ",
             "public ", "private ", "protected ", "static ", "final ", "abstract ", "synchronized ", "native ", "volatile ",
             "transient ", "void ", "int ", "long ", "double ", "boolean ", "char ", "String ", "var ", "new ", "return ",
             "if (", "else ", "for (", "while (", "do ", "switch (", "case ", "default:", "default ->", "break;", "continue;",
             "try {", "try (", "catch (Exception e)", "finally ", "throw ", "throws ", "assert ", "instanceof ", "this.",
             "super.", "->", "::", "<T>", "<?>", "[]", "@Override", "yield ", "sealed ", "permits ", "\"\"\"", "'c'", "1L",
             "label:", "int[] ", "(int)"],
    "go": ["package ", "import ", "func ", "type ", "struct ", "interface ", "map[", "chan ", "<-", "go ", "defer ", "select ",
           "switch ", "case ", "default:", "fallthrough", "break", "continue", "goto ", "return ", "if ", "else ", "for ",
           "range ", "var ", "const ", ":=", "nil", "iota", "make(", "new(", "len(", "append(", "[]int", "*T", "&x", "...",
           "func() {", "}()", "`raw`", "'c'", "int ", "string ", "error", "label:", ".(type)", ".(int)", "struct{}{}", "[T any]"],
    "c": ["int ", "char ", "long ", "unsigned ", "float ", "double ", "void ", "struct ", "union ", "enum ", "typedef ",
          "static ", "extern ", "const ", "volatile ", "register ", "inline ", "return ", "if (", "else ", "for (", "while (",
          "do ", "switch (", "case ", "default:", "break;", "continue;", "goto ", "sizeof(", "#include <a.h>\n", "#define A 1\n",
          "#ifdef A\n", "#endif\n", "#if 0\n", "#else\n", "->", "*p", "&x", "(int)", "[3]", "'c'", "1u", "1.0f", "label:", "...",
          "__attribute__((unused))", "asm(\"nop\");", "_Bool ", "NULL", "(*fp)(int)", "{0}", ".a = 1"],
    "php": ["<?php ", "?>", "function ", "class ", "interface ", "trait ", "extends ", "implements ", "namespace ", "use ",
            "public ", "private ", "protected ", "static ", "abstract ", "final ", "const ", "var ", "new ", "return ",
            "if (", "elseif (", "else ", "endif;", "for (", "foreach (", " as ", "while (", "do ", "switch (", "case ",
            "default:", "break;", "continue;", "try {", "catch (Exception $e)", "finally ", "throw ", "echo ", "print ",
            "global ", "unset(", "isset(", "empty(", "list(", "array(", "fn($a) => ", "$x", "$this->", "self::", "parent::",
            "static::", "->", "=>", "::", "?->", "??", "<=>", "===", ".=", "<<<EOT\nx\nEOT;\n", "\"$x {$y}\"", "match (",
            "yield ", "declare(strict_types=1);", "#[Attr]", "&$r", "...$a", "goto ", "require ", "include "],
}


def tokens_for(lang):
    return TOKENS[lang] + COMMON_TOKENS


# ---------------------------------------------------------------------------------------------
# template generator of valid programs.  A template is a list of lines; a line "{b}" is replaced by a nested
# body (indented one level); "{m}" by a fresh marker literal 9xxxx (allocated in SOURCE ORDER), "{v}" by a
# variable, "{n}" by a fresh small number used in names.

class Spec:
    def __init__(self, lang, simple, compound, decls, top_simple=None, top_compound=None, header=(), footer=(),
                 wrap_main=None, empty_body=None, var=("x", "y", "z"), class_members=None, top_decl_only=False):
        self.lang = lang
        self.simple = simple              # templates usable inside any body
        self.compound = compound          # templates with {b}
        self.decls = decls                # unit-level declarations (functions, classes ...)
        self.top_simple = simple if top_simple is None else top_simple       # statements allowed at unit level
        self.top_compound = compound if top_compound is None else top_compound
        self.header = list(header)
        self.footer = list(footer)
        self.wrap_main = wrap_main        # (open lines, close lines): where statements live if not allowed at top
        self.empty_body = empty_body      # line emitted for an empty body (python: pass)
        self.var = var
        self.class_members = class_members or []


PY = Spec(
    "python",
    simple=[["mark({m})"], ["{v} = {m}"], ["{v} = {v} + {m}"], ["{v}.f = {m}"], ["{v}[{m}] = {v}"], ["print({v}, {m})"],
            ["{v} = [{m}, {m}]"], ["{v} = {{'k': {m}}}"], ["{v} = lambda a: a + {m}"], ["{v} = {v} if {v} else {m}"],
            ["{v} += {m}"], ["{v}, {v} = {m}, {m}"], ["assert {v} == {m}"], ["del {v}"], ["{v} = {v}.g({m}).h"],
            ["{v} = not {v} and {m} < {v}"], ["{v} = f'{{{v}}} {m}'"], ["{v} = [a for a in {v} if a > {m}]"],
            ["{v} = ({m}, *{v})"], ["{v}: int = {m}"], ["import os.path, sys"], ["from a.b import c as d"], ["pass"],
            ["raise ValueError({m})"], ["{v} = {v}[{m}:{m}]"], ["{v} = mark(k={m}, *{v}, **{v})"]],
    compound=[["if {v} < {m}:", "{b}"], ["if {v} < {m}:", "{b}", "else:", "{b}"],
              ["if {v}:", "{b}", "elif {v} == {m}:", "{b}", "else:", "{b}"],
              ["while {v} < {m}:", "{b}"], ["while {v}:", "{b}", "else:", "{b}"], ["for {v} in range({m}):", "{b}"],
              ["for {v}, {v} in {v}.items():", "{b}", "else:", "{b}"],
              ["try:", "{b}", "except ValueError as e:", "{b}", "else:", "{b}", "finally:", "{b}"],
              ["try:", "{b}", "finally:", "{b}"], ["with open({m}) as {v}:", "{b}"],
              ["match {v}:", "    case {m}:", "    {b}", "    case _:", "    {b}"],
              ["def inner{n}(a, b={m}, *c, d, **e):", "{b}", "    return a"],
              ["class Inner{n}:", "    k = {m}", "    def m(self, a):", "    {b}"]],
    decls=[["def f{n}(a, b={m}):", "{b}", "    return a"], ["async def g{n}(a):", "{b}"],
           ["@dec({m})", "def h{n}(*a, **k):", "{b}"],
           ["class C{n}(Base):", "    k = {m}", "    def __init__(self, a):", "        self.a = a", "    {b}",
            "    @staticmethod", "    def s(a):", "    {b}", "    def m(self):", "        return self.a + {m}"],
           ["class D{n}:", "    pass"], ["def gen{n}():", "    yield {m}", "{b}"]],
    empty_body="pass",
)

_JS_SIMPLE = [["mark({m});"], ["let {v}{n} = {m};"], ["{v} = {v} + {m};"], ["{v}.f = {m};"], ["{v}[{m}] = {v};"],
              ["console.log({v}, {m});"], ["var {v} = [{m}, {m}];"], ["const o{n} = {{k: {m}, [{v}]: {m}}};"],
              ["{v} = (a) => a + {m};"], ["{v} = {v} ? {v} : {m};"], ["{v}++;"], ["{v} += {m};"], ["{v} = new Foo({m});"],
              ["{v} = {v}.g({m}).h;"], ["{v} = !{v} && {m} < {v};"], ["{v} = `${{{v}}} {m}`;"], ["[{v}, {v}] = [{m}, {m}];"],
              ["{v} = function (a) {{ return a + {m}; }};"], ["{v} = typeof {v} === 'number' ? {m} : {m};"],
              ["delete {v}.f;"], ["throw new Error({m});"], [";"], ["{v} = {v}?.f ?? {m};"], ["{v} = [...{v}, {m}];"],
              ["{v} = await {v};"]]
_JS_COMPOUND = [["if ({v} < {m}) {{", "{b}", "}}"], ["if ({v} < {m}) {{", "{b}", "}} else {{", "{b}", "}}"],
                ["if ({v}) {{", "{b}", "}} else if ({v} == {m}) {{", "{b}", "}} else {{", "{b}", "}}"],
                ["while ({v} < {m}) {{", "{b}", "}}"], ["do {{", "{b}", "}} while ({v} < {m});"],
                ["for (let i = {m}; i < {m}; i++) {{", "{b}", "}}"], ["for (const k in {v}) {{", "{b}", "}}"],
                ["for (const e of {v}) {{", "{b}", "}}"], ["for (;;) {{", "{b}", "    break;", "}}"],
                ["switch ({v}) {{", "    case {m}:", "    {b}", "        break;", "    default:", "    {b}", "}}"],
                ["try {{", "{b}", "}} catch (e) {{", "{b}", "}} finally {{", "{b}", "}}"], ["try {{", "{b}", "}} finally {{", "{b}", "}}"],
                ["lbl{n}: for (;;) {{", "{b}", "    break lbl{n};", "}}"], ["{{", "{b}", "}}"],
                ["function inner{n}(a, b = {m}, ...c) {{", "{b}", "    return a;", "}}"]]
_JS_DECLS = [["function f{n}(a, b = {m}) {{", "{b}", "    return a;", "}}"], ["async function g{n}(a) {{", "{b}", "}}"],
             ["function* gen{n}() {{", "    yield {m};", "{b}", "}}"],
             ["class C{n} extends Base {{", "    k = {m};", "    static s = {m};", "    constructor(a) {{", "        super(a);", "    {b}", "    }}",
              "    m(a) {{", "    {b}", "        return a + {m};", "    }}", "    static sm() {{", "    {b}", "    }}",
              "    get p() {{ return {m}; }}", "}}"],
             ["class D{n} {{}}"], ["const arrow{n} = (a, b) => {{", "{b}", "}};"]]

JS = Spec("javascript", simple=_JS_SIMPLE + [["import d{n} from './m.js';"], ["export const e{n} = {m};"]],
          compound=_JS_COMPOUND, decls=_JS_DECLS)

# `this.f = ...` / `a[i] = ...` inside TypeScript are produced by dedicated templates (TS_WRITES) so that the
# generator can step over a recorded finding.
TS_FIELD_WRITE = [["{v}.f = {m};"], ["{v}[{m}] = {v};"]]
_TS_SIMPLE = [t for t in _JS_SIMPLE if t not in TS_FIELD_WRITE] + [
    ["let t{n}: number = {m};"], ["const u{n}: string[] = [];"], ["{v} = {v} as any;"], ["{v} = <number>{m};"],
    ["let w{n}: Array<number> = [{m}];"], ["{v} = {v}!;"], ["type A{n} = number | string;"], ["declare const dc{n}: number;"]]
TS = Spec("typescript", simple=_TS_SIMPLE, compound=_JS_COMPOUND + [
    ["function innerT{n}(a: number, b?: string): number {{", "{b}", "    return a;", "}}"]],
    decls=_JS_DECLS + [
        ["interface I{n} {{", "    a: number;", "    m(x: number): void;", "}}"], ["enum E{n} {{ A = {m}, B, C }}"],
        ["function tf{n}<T>(a: T, b: number = {m}): T {{", "{b}", "    return a;", "}}"],
        ["class K{n}<T> implements I {{", "    private a: number = {m};", "    readonly b: string;", "    constructor(private c: number) {{", "    {b}", "    }}",
         "    m(x: number): number {{", "    {b}", "        return x;", "    }}", "}}"],
        ["abstract class AB{n} {{", "    abstract m(): void;", "}}"],
        ["export function ex{n}(a: number): void {{", "{b}", "}}"]])

JAVA = Spec(
    "java",
    simple=[["mark({m});"], ["int {v}{n} = {m};"], ["{v} = {v} + {m};"], ["this.f = {m};"], ["arr[{m}] = {v};"],
            ["System.out.println({m});"], ["Object o{n} = new Object();"], ["Runnable r{n} = () -> mark({m});"],
            ["{v} = {v} > {m} ? {v} : {m};"], ["{v}++;"], ["{v} += {m};"], ["int[] a{n} = new int[{m}];"],
            ["int[] b{n} = {{{m}, {m}}};"], ["String s{n} = \"s\" + {m};"], ["{v} = obj.g({m}).h;"], ["obj.f.g = {m};"],
            ["boolean q{n} = !({v} < {m}) && {v} == {m};"], ["{v} = (int) {m}L;"], ["throw new RuntimeException(\"{m}\");"],
            [";"], ["var l{n} = java.util.List.of({m});"], ["assert {v} > {m};"], ["Function<Integer,Integer> fn{n} = a -> a + {m};"],
            ["{v} = obj instanceof String s{n} ? {m} : {m};"]],
    compound=[["if ({v} < {m}) {{", "{b}", "}}"], ["if ({v} < {m}) {{", "{b}", "}} else {{", "{b}", "}}"],
              ["if ({v} > {m}) {{", "{b}", "}} else if ({v} == {m}) {{", "{b}", "}} else {{", "{b}", "}}"],
              ["while ({v} < {m}) {{", "{b}", "}}"], ["do {{", "{b}", "}} while ({v} < {m});"],
              ["for (int i = {m}; i < {m}; i++) {{", "{b}", "}}"], ["for (int e : arr) {{", "{b}", "}}"],
              ["switch ({v}) {{", "    case {m}:", "    {b}", "        break;", "    default:", "    {b}", "}}"],
              ["switch ({v}) {{", "    case {m} -> {{", "    {b}", "    }}", "    default -> {{", "    {b}", "    }}", "}}"],
              ["try {{", "{b}", "}} catch (Exception e) {{", "{b}", "}} finally {{", "{b}", "}}"],
              ["try (AutoCloseable c{n} = open({m})) {{", "{b}", "}}"], ["synchronized (this) {{", "{b}", "}}"],
              ["lbl{n}: for (;;) {{", "{b}", "    break lbl{n};", "}}"], ["{{", "{b}", "}}"]],
    decls=[["interface I{n} {{", "    int m(int a);", "    default int d() {{ return {m}; }}", "}}"],
           ["enum E{n} {{", "    A({m}), B({m});", "    private final int v;", "    E{n}(int v) {{ this.v = v; }}", "}}"],
           ["record R{n}(int a, String b) {{", "    int sum() {{ return a + {m}; }}", "}}"],
           ["@interface An{n} {{", "    int value() default {m};", "}}"],
           ["class P{n}<T extends Comparable<T>> extends Base implements I {{", "    static int s = {m};", "    int f = {m};", "    static {{", "    {b}", "    }}",
            "    {{", "    {b}", "    }}", "    P{n}(int a) {{", "        super(a);", "    {b}", "    }}", "    int m(int a, int... rest) throws Exception {{", "        int x = 0, y = 0, z = 0;", "    {b}",
            "        return a;", "    }}", "    class In{n} {{ int g = {m}; }}", "}}"]],
    top_simple=[], top_compound=[],
    header=["package p.q;", "import java.util.*;"],
    wrap_main=(["class Main{n} {{", "    int f;", "    int[] arr;", "    void main(int x, int y, int z, Object obj) {{"], ["    }}", "}}"]),
)

GO = Spec(
    "go",
    simple=[["mark({m})"], ["{v}{n} := {m}"], ["{v} = {v} + {m}"], ["t.a = {m}"], ["arr[{m}] = {v}"], ["fmt.Println({v}, {m})"],
            ["defer mark({m})"], ["go mark({m})"], ["{v}++"], ["{v} += {m}"], ["var v{n} int = {m}"], ["s{n} := []int{{{m}, {m}}}"],
            ["m{n} := map[string]int{{\"k\": {m}}}"], ["p{n} := &T{{a: {m}}}"], ["f{n} := func(a int) int {{ return a + {m} }}"],
            ["{v}, {v} = {m}, {m}"], ["{v} = obj.g({m}).h"], ["ch <- {m}"], ["{v} = <-ch"], ["b{n} := !({v} < {m}) && {v} == {m}"],
            ["panic({m})"], ["const c{n} = {m}"], ["{v} = int(float64({m}))"], ["_ = {v}"], ["q{n}, ok := obj.(int)"]],
    compound=[["if {v} < {m} {{", "{b}", "}}"], ["if {v} < {m} {{", "{b}", "}} else {{", "{b}", "}}"],
              ["if k := {m}; k < {v} {{", "{b}", "}} else if {v} == {m} {{", "{b}", "}} else {{", "{b}", "}}"],
              ["for {v} < {m} {{", "{b}", "}}"], ["for i := {m}; i < {m}; i++ {{", "{b}", "}}"], ["for {{", "{b}", "    break", "}}"],
              ["for i, e := range arr {{", "{b}", "}}"], ["switch {v} {{", "case {m}:", "{b}", "    fallthrough", "default:", "{b}", "}}"],
              ["switch {{", "case {v} > {m}:", "{b}", "}}"], ["switch y{n} := obj.(type) {{", "case int:", "{b}", "default:", "{b}", "}}"],
              ["select {{", "case v := <-ch:", "{b}", "default:", "{b}", "}}"], ["func() {{", "{b}", "}}()"],
              ["lbl{n}:", "for {{", "{b}", "    break lbl{n}", "}}"], ["{{", "{b}", "}}"]],
    decls=[["var g{n} = {m}"], ["var (", "    ga{n} int = {m}", "    gb{n} = \"s\"", ")"], ["const k{n} = {m}"],
           ["type T{n} struct {{", "    a int", "    b string `json:\"b\"`", "}}"], ["type I{n} interface {{", "    M(a int) int", "}}"],
           ["type A{n} = int"], ["func f{n}(a int, b ...string) (int, error) {{", "    x, y, z := 0, 0, 0", "{b}", "    return a, nil", "}}"],
           ["func (t *T) m{n}(a int) int {{", "    x, y, z := 0, 0, 0", "{b}", "    return a + {m}", "}}"],
           ["func gen{n}[K comparable, V any](m map[K]V) {{", "{b}", "}}"], ["func init() {{", "{b}", "}}"]],
    top_simple=[], top_compound=[],
    header=["package main", "import \"fmt\""],
    wrap_main=(["func main{n}() {{", "    x, y, z := 0, 0, 0"], ["}}"]),
)

C = Spec(
    "c",
    simple=[["mark({m});"], ["int {v}{n} = {m};"], ["{v} = {v} + {m};"], ["s.a = {m};"], ["arr[{m}] = {v};"], ["p = &{v};"],
            ["*p = {m};"], ["printf(\"%d\", {m});"], ["{v}++;"], ["{v} += {m};"], ["ps->a = {m};"], ["{v} = {v} > {m} ? {v} : {m};"],
            ["int a{n}[3] = {{{m}, {m}, {m}}};"], ["struct S t{n} = {{.a = {m}}};"], ["{v} = (int) {m}L;"], ["{v} = sizeof(int) + {m};"],
            [";"], ["{v} = !({v} < {m}) && {v} == {m};"], ["char *str{n} = \"s{m}\";"], ["{v} = obj.g({m});"], ["goto end{n};", "end{n}: ;"],
            ["{v} = fp({m});"], ["static int st{n} = {m};"], ["unsigned long ul{n} = {m}UL;"]],
    compound=[["if ({v} < {m}) {{", "{b}", "}}"], ["if ({v} < {m}) {{", "{b}", "}} else {{", "{b}", "}}"],
              ["if ({v} > {m}) {{", "{b}", "}} else if ({v} == {m}) {{", "{b}", "}} else {{", "{b}", "}}"],
              ["while ({v} < {m}) {{", "{b}", "}}"], ["do {{", "{b}", "}} while ({v} < {m});"],
              ["for (int i = {m}; i < {m}; i++) {{", "{b}", "}}"], ["for (;;) {{", "{b}", "    break;", "}}"],
              ["switch ({v}) {{", "    case {m}:", "    {b}", "        break;", "    default:", "    {b}", "}}"], ["{{", "{b}", "}}"],
              ["#ifdef A{n}", "{b}", "#else", "{b}", "#endif"]],
    decls=[["int g{n} = {m};"], ["static const char *gs{n} = \"s\";"], ["struct S{n} {{", "    int a;", "    char b[{m}];", "    struct S{n} *next;", "}};"],
           ["union U{n} {{ int a; float b; }};"], ["enum E{n} {{ EA{n} = {m}, EB{n} }};"], ["typedef struct {{ int a; }} T{n};"],
           ["typedef int (*fp{n})(int);"], ["#define M{n}(a) ((a) + {m})"], ["int proto{n}(int a, char *b);"],
           ["int f{n}(int a, char **b) {{", "    int x = 0, y = 0, z = 0;", "{b}", "    return a;", "}}"],
           ["static void v{n}(void) {{", "    int x = 0, y = 0, z = 0;", "{b}", "}}"], ["int ga{n}[] = {{{m}, {m}}};"]],
    top_simple=[], top_compound=[],
    header=["#include <stdio.h>", "struct S {{ int a; }};"],
    wrap_main=(["int main{n}(int argc, char **argv) {{", "    int x = 0, y = 0, z = 0, arr[9], *p; struct S s, *ps, obj;"], ["    return 0;", "}}"]),
)

# `namespace` is produced only by PHP_NAMESPACE templates (step-over of a recorded finding)
PHP_NAMESPACE = [["namespace App\\M{n};"], ["namespace N{n} {{", "{b}", "}}"]]
PHP = Spec(
    "php",
    simple=[["mark({m});"], ["${v} = {m};"], ["${v} = ${v} + {m};"], ["$o->f = {m};"], ["${v}[{m}] = ${v};"], ["echo {m};"],
            ["$f{n} = function($a) use (${v}) {{ return $a + {m}; }};"], ["${v} = ${v} ? ${v} : {m};"], ["${v}++;"], ["${v} .= \"s{m}\";"],
            ["${v} = [{m}, 'k' => {m}];"], ["${v} = array({m}, {m});"], ["${v} = new Foo({m});"], ["${v} = $o->g({m})->h;"],
            ["${v} = Foo::sm({m});"], ["${v} = !(${v} < {m}) && ${v} == {m};"], ["${v} = \"a ${v} {{${v}}} {m}\";"],
            ["list(${v}, ${v}) = [{m}, {m}];"], ["${v} = fn($a) => $a + {m};"], ["unset(${v});"], ["throw new Exception({m});"],
            ["${v} = ${v} ?? {m};"], ["${v} = (int) \"{m}\";"], ["global ${v};"], ["${v} = isset(${v}[{m}]);"], ["${v}[] = {m};"],
            ["print ${v};"], ["require_once 'a{n}.php';"]],
    compound=[["if (${v} < {m}) {{", "{b}", "}}"], ["if (${v} < {m}) {{", "{b}", "}} else {{", "{b}", "}}"],
              ["if (${v}) {{", "{b}", "}} elseif (${v} == {m}) {{", "{b}", "}} else {{", "{b}", "}}"],
              ["while (${v} < {m}) {{", "{b}", "}}"], ["do {{", "{b}", "}} while (${v} < {m});"],
              ["for ($i = {m}; $i < {m}; $i++) {{", "{b}", "}}"], ["foreach (${v} as $k => $e) {{", "{b}", "}}"],
              ["foreach (${v} as $e) {{", "{b}", "}}"],
              ["switch (${v}) {{", "    case {m}:", "    {b}", "        break;", "    default:", "    {b}", "}}"],
              ["try {{", "{b}", "}} catch (Exception $e) {{", "{b}", "}} finally {{", "{b}", "}}"],
              ["if (${v}):", "{b}", "else:", "{b}", "endif;"], ["while (${v} < {m}):", "{b}", "endwhile;"],
              ["function inner{n}($a, $b = {m}, ...$c) {{", "{b}", "    return $a;", "}}"]],
    decls=[["function f{n}($a, $b = {m}) {{", "{b}", "    return $a;", "}}"], ["function t{n}(int $a, ?string $b = null): int {{", "{b}", "    return $a;", "}}"],
           ["class C{n} extends Base implements I {{", "    const K = {m};", "    public $a = {m};", "    private static $s = {m};", "    public function __construct($a) {{",
            "        $this->a = $a;", "    {b}", "    }}", "    public function m($x) {{", "    {b}", "        return $this->a + {m};", "    }}",
            "    public static function sm() {{", "    {b}", "        return self::$s;", "    }}", "}}"],
           ["interface I{n} {{", "    public function m($x);", "}}"], ["trait T{n} {{", "    public function tm() {{ return {m}; }}", "}}"],
           ["abstract class AB{n} {{", "    abstract protected function am();", "}}"], ["const GC{n} = {m};"],
           ["use Foo\\Bar{n} as Baz{n};"]],
    header=["<?php"],
)

SPECS = {"python": PY, "javascript": JS, "typescript": TS, "java": JAVA, "go": GO, "c": C, "php": PHP}


class Rendered:
    def __init__(self):
        self.lines = []
        self.next_marker = 90001
        self.next_n = 1
        self.top_markers = []       # markers that belong to unit-level executable statements, in source order
        self.labels = set()


def _subst(line, r, draw, vars_, st, note_top):
    out = []
    i = 0
    while i < len(line):
        if line.startswith("{{", i):
            out.append("{")
            i += 2
        elif line.startswith("}}", i):
            out.append("}")
            i += 2
        elif line.startswith("{m}", i):
            m = r.next_marker
            r.next_marker += 1
            if note_top:
                r.top_markers.append(m)
            out.append(str(m))
            i += 3
        elif line.startswith("{v}", i):
            out.append(draw(st.sampled_from(vars_)))
            i += 3
        elif line.startswith("{n}", i):
            out.append(str(r.cur_n))
            i += 3
        else:
            out.append(line[i])
            i += 1
    return "".join(out)


def _emit(template, r, spec, draw, st, indent, depth, top, extra_simple=(), extra_compound=()):
    """Append the lines of one template instance.  `top`: the statement is a unit-level executable statement,
    so the markers on its own lines (not those of nested bodies of declarations) are top markers."""
    r.cur_n = r.next_n
    r.next_n += 1
    my_n = r.cur_n
    is_decl_body = template[0].lstrip().startswith(("def ", "class ", "function", "async ", "@"))
    for line in template:
        stripped = line.strip()
        if stripped == "{b}":
            extra_indent = line[:len(line) - len(line.lstrip())]
            _body(r, spec, draw, st, indent + extra_indent + "    ", depth + 1, extra_simple, extra_compound)
            r.cur_n = my_n
        else:
            r.lines.append(indent + _subst(line, r, draw, spec.var, st, top and not is_decl_body))


def _body(r, spec, draw, st, indent, depth, extra_simple=(), extra_compound=()):
    n = draw(st.integers(0, 3 if depth < 3 else 1))
    if n == 0:
        r.labels.add("empty_body")
        if spec.empty_body:
            r.lines.append(indent + spec.empty_body)
        return
    simple = list(spec.simple) + list(extra_simple)
    compound = list(spec.compound) + list(extra_compound)
    for _ in range(n):
        if depth < 3 and draw(st.integers(0, 9)) < 4:
            r.labels.add("nested_compound" if depth >= 1 else "compound")
            _emit(draw(st.sampled_from(compound)), r, spec, draw, st, indent, depth, False, extra_simple, extra_compound)
        else:
            _emit(draw(st.sampled_from(simple)), r, spec, draw, st, indent, depth, False, extra_simple, extra_compound)


def generate_program(lang, draw, st, avoid=()):
    """Returns (text, top_markers, labels).  `avoid`: names of template groups to leave out (step-overs)."""
    spec = SPECS[lang]
    r = Rendered()
    extra_simple, extra_compound, extra_decls = [], [], []
    if lang == "typescript" and "ts-field-write" not in avoid:
        extra_simple = TS_FIELD_WRITE
    if lang == "php" and "php-namespace" not in avoid:
        extra_decls = PHP_NAMESPACE
    for h in spec.header:
        r.lines.append(h.replace("{{", "{").replace("}}", "}"))
    n_items = draw(st.integers(1, 7))
    for _ in range(n_items):
        k = draw(st.integers(0, 9))
        has_top = bool(spec.top_simple or extra_simple and not spec.wrap_main)
        if k < 3 or not (has_top or spec.wrap_main):
            r.labels.add("decl")
            t = draw(st.sampled_from(list(spec.decls) + extra_decls))
            _emit(t, r, spec, draw, st, "", 0, False, extra_simple, extra_compound)
        elif spec.wrap_main:
            r.labels.add("wrapped_main")
            op, cl = spec.wrap_main
            r.cur_n = r.next_n
            r.next_n += 1
            my_n = r.cur_n
            ind = ""
            for line in op:
                r.lines.append(_subst(line, r, draw, spec.var, st, False))
                ind = line[:len(line) - len(line.lstrip())] + "    "
            _body(r, spec, draw, st, ind, 1, extra_simple, extra_compound)
            r.cur_n = my_n
            for line in cl:
                r.lines.append(_subst(line, r, draw, spec.var, st, False))
        elif k < 6:
            r.labels.add("top_compound")
            t = draw(st.sampled_from(list(spec.top_compound) + list(extra_compound)))
            _emit(t, r, spec, draw, st, "", 0, True, extra_simple, extra_compound)
        else:
            r.labels.add("top_simple")
            t = draw(st.sampled_from(list(spec.top_simple) + list(extra_simple)))
            _emit(t, r, spec, draw, st, "", 0, True, extra_simple, extra_compound)
    for f in spec.footer:
        r.lines.append(f)
    return "\n".join(r.lines) + "\n", r.top_markers, sorted(r.labels)


# ---------------------------------------------------------------------------------------------
# byte-level mutation

MUTATION_OPS = ["delete_range", "insert_token", "transpose", "truncate", "duplicate_line", "splice", "replace_byte",
                "delete_line", "swap_lines", "insert_bytes", "repeat_token"]
QUICK_OPS = ["delete_range", "insert_token", "transpose", "truncate", "duplicate_line", "splice", "replace_byte",
             "delete_line", "swap_lines"]


def _line_spans(data):
    spans = []
    start = 0
    for i, b in enumerate(data):
        if b == 10:
            spans.append((start, i + 1))
            start = i + 1
    if start < len(data):
        spans.append((start, len(data)))
    return spans


def mutate_once(data, lang, draw, st, op, other=None):
    """One mutation of bytes `data`; returns bytes."""
    n = len(data)
    if op == "delete_range":
        if n == 0:
            return data
        i = draw(st.integers(0, n - 1))
        ln = draw(st.integers(1, min(60, n - i)))
        return data[:i] + data[i + ln:]
    if op == "insert_token":
        tok = draw(st.sampled_from(tokens_for(lang))).encode("utf-8")
        i = draw(st.integers(0, n))
        return data[:i] + tok + data[i:]
    if op == "transpose":
        if n < 2:
            return data
        i = draw(st.integers(0, n - 2))
        w = draw(st.integers(1, min(12, (n - i) // 2)))
        return data[:i] + data[i + w:i + 2 * w] + data[i:i + w] + data[i + 2 * w:]
    if op == "truncate":
        if n == 0:
            return data
        return data[:draw(st.integers(0, n - 1))]
    if op in ("duplicate_line", "delete_line", "swap_lines"):
        spans = _line_spans(data)
        if not spans:
            return data
        j = draw(st.integers(0, len(spans) - 1))
        a, b = spans[j]
        if op == "duplicate_line":
            return data[:b] + data[a:b] + data[b:]
        if op == "delete_line":
            return data[:a] + data[b:]
        k = draw(st.integers(0, len(spans) - 1))
        if k == j:
            return data
        (a1, b1), (a2, b2) = sorted([spans[j], spans[k]])
        return data[:a1] + data[a2:b2] + data[b1:a2] + data[a1:b1] + data[b2:]
    if op == "splice":
        if not other:
            return data
        i = draw(st.integers(0, n))
        j = draw(st.integers(0, len(other)))
        return data[:i] + other[j:]
    if op == "replace_byte":
        if n == 0:
            return data
        i = draw(st.integers(0, n - 1))
        b = draw(st.one_of(st.sampled_from(list(b"(){}[];,.:=<>+-*/%&|!?\"'`\\#@$ \n\t0aZ_")), st.integers(0, 255)))
        return data[:i] + bytes([b]) + data[i + 1:]
    if op == "insert_bytes":
        i = draw(st.integers(0, n))
        bs = draw(st.binary(min_size=1, max_size=6))
        return data[:i] + bs + data[i:]
    if op == "repeat_token":
        tok = draw(st.sampled_from(["(", "[", "{", "-", "!", "a.", "f(", "x+", "if (x) ", "[[", "* ", "not ", "lambda: ", "a = "])).encode()
        k = draw(st.integers(2, 40))
        i = draw(st.integers(0, n))
        return data[:i] + tok * k + data[i:]
    return data


def encode_text(data):
    """bytes -> JSON-able {'text': str} or {'b64': str}"""
    try:
        return {"text": data.decode("utf-8")}
    except UnicodeDecodeError:
        import base64
        return {"b64": base64.b64encode(data).decode("ascii")}


def decode_text(case):
    if "b64" in case:
        import base64
        return base64.b64decode(case["b64"])
    return case["text"].encode("utf-8", "surrogateescape")
