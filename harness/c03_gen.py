"""C03 — inputs: repository corpora, template-generated valid programs (with source-order markers),
byte-level mutation operators with per-language token dictionaries, multi-file project builders.

All random choices are made by the caller through a `draw(strategy)` function (Hypothesis `st.data().draw`
or the composite `draw`), so every case is a pure function of the Hypothesis seed.
"""
import os

from harness import common

LANGS = ["c", "go", "java", "javascript", "php", "python", "typescript"]

EXT_LANG = {".c": "c", ".h": "c", ".go": "go", ".java": "java", ".js": "javascript", ".cjs": "javascript",
            ".mjs": "javascript", ".php": "php", ".py": "python", ".ts": "typescript", ".tsx": "typescript",
            ".ets": "typescript"}
LANG_EXT = {"c": ".c", "go": ".go", "java": ".java", "javascript": ".js", "php": ".php", "python": ".py",
            "typescript": ".ts"}

MAX_CORPUS_BYTES_QUICK = 512 * 1024
# needs about a minute of lowering (175 kB of nested string concatenation): thorough tier only
SLOW_CORPUS_FILES = frozenset(["lang_parser/java/DeepStringConcat.java"])
MAX_MUTATION_BASE_BYTES = 12 * 1024


def corpus(include_real_cases=True):
    """{lang: [(relative path, bytes)]} sorted by path — every file of a supported extension under
    <repo>/tests.  Deterministic (sorted walk)."""
    out = {l: [] for l in LANGS}
    root = os.path.join(common.REPO, "tests")
    for d, ds, fs in os.walk(root):
        ds.sort()
        if not include_real_cases and "real_cases" in d.split(os.sep):
            continue
        for f in sorted(fs):
            lang = EXT_LANG.get(os.path.splitext(f)[1])
            if lang is None:
                continue
            p = os.path.join(d, f)
            try:
                if os.path.islink(p) or not os.path.isfile(p):
                    continue
                with open(p, "rb") as fh:
                    data = fh.read()
            except OSError:
                continue
            out[lang].append((os.path.relpath(p, root), data))
    for l in out:
        out[l].sort()
    return out


# ---------------------------------------------------------------------------------------------
# token dictionaries (insertion mutation)

COMMON_TOKENS = ["(", ")", "{", "}", "[", "]", ";", ",", ".", ":", "=", "==", "!=", "<", ">", "<=", ">=", "+", "-", "*",
                 "/", "%", "&&", "||", "!", "&", "|", "^", "~", "?", "++", "--", "+=", "-=", "->", "=>", "::", "...",
                 "\"", "'", "`", "\\", "#", "@", "$", "//", "/*", "*/", "\n", "\t", " ", "0", "1", "0x1F", "1.5e3", "\"s\"",
                 "x", "y", "f", "this", "null", "true", "false", "é", "中"]

TOKENS = {
    "python": ["def ", "class ", "lambda ", "return ", "yield ", "await ", "async ", "if ", "elif ", "else:", "for ", " in ",
               "while ", "try:", "except ", "finally:", "with ", " as ", "import ", "from ", "global ", "nonlocal ", "pass",
               "break", "continue", "raise ", "assert ", "del ", "not ", " and ", " or ", " is ", "None", "True", "False",
               "self", "match ", "case ", "@", ":=", "**", "//", "'''", '"""', "f\"{x}\"", "    ", "\n    ", "[x for x in y]",
               "*args", "**kw", "print(", "__init__", "type ", "->"],
    "javascript": ["function ", "class ", "extends ", "constructor", "return ", "yield ", "await ", "async ", "if (", "else ",
                   "for (", " of ", " in ", "while (", "do ", "switch (", "case ", "default:", "break;", "continue;", "try {",
                   "catch (e)", "finally ", "throw ", "new ", "delete ", "typeof ", "instanceof ", "var ", "let ", "const ",
                   "import ", "export ", "from ", "default ", "static ", "get ", "set ", "super", "this.", "undefined",
                   "=>", "===", "!==", "?.", "??", "**", "`${x}`", "/re/g", "...x", "#p", "label:", "void ", "with ("],
    "typescript": ["function ", "class ", "extends ", "implements ", "interface ", "enum ", "namespace ", "module ", "type ",
                   "declare ", "abstract ", "readonly ", "private ", "public ", "protected ", "constructor", "return ",
                   "await ", "async ", "if (", "else ", "for (", " of ", " in ", "while (", "do ", "switch (", "case ",
                   "default:", "break;", "continue;", "try {", "catch (e)", "finally ", "throw ", "new ", "delete ",
                   "typeof ", "keyof ", "instanceof ", "var ", "let ", "const ", "import ", "export ", "from ", "static ",
                   "this.", ": number", ": string", "<T>", " as ", " is ", "!.", "?.", "??", "=>", "===", "@dec", "satisfies ",
                   "unique symbol", "infer ", "never", "unknown", "any", "`${x}`", "...x"],
    "java": ["class ", "interface ", "enum ", "record ", "@interface ", "extends ", "implements ", "package ", "import ",
             "public ", "private ", "protected ", "static ", "final ", "abstract ", "synchronized ", "native ", "volatile ",
             "transient ", "void ", "int ", "long ", "double ", "boolean ", "char ", "String ", "var ", "new ", "return ",
             "if (", "else ", "for (", "while (", "do ", "switch (", "case ", "default:", "default ->", "break;", "continue;",
             "try {", "try (", "catch (Exception e)", "finally ", "throw ", "throws ", "assert ", "instanceof ", "this.",
             "super.", "->", "::", "<T>", "<?>", "[]", "@Override", "yield ", "sealed ", "permits ", "\"\"\"", "'c'", "1L",
             "label:", "int[] ", "(int)"],
    "go": ["package ", "import ", "func ", "type ", "struct ", "interface ", "map[", "chan ", "<-", "go ", "defer ", "select ",
           "switch ", "case ", "default:", "fallthrough", "break", "continue", "goto ", "return ", "if ", "else ", "for ",
           "range ", "var ", "const ", ":=", "nil", "iota", "make(", "new(", "len(", "append(", "[]int", "*T", "&x", "...",
           "func() {", "}()", "`raw`", "'c'", "int ", "string ", "error", "label:", ".(type)", ".(int)", "struct{}{}", "[T any]"],
    "c": ["int ", "char ", "long ", "unsigned ", "float ", "double ", "void ", "struct ", "union ", "enum ", "typedef ",
          "static ", "extern ", "const ", "volatile ", "register ", "inline ", "return ", "if (", "else ", "for (", "while (",
          "do ", "switch (", "case ", "default:", "break;", "continue;", "goto ", "sizeof(", "#include <a.h>\n", "#define A 1\n",
          "#ifdef A\n", "#endif\n", "#if 0\n", "#else\n", "->", "*p", "&x", "(int)", "[3]", "'c'", "1u", "1.0f", "label:", "...",
          "__attribute__((unused))", "asm(\"nop\");", "_Bool ", "NULL", "(*fp)(int)", "{0}", ".a = 1"],
    "php": ["<?php ", "?>", "function ", "class ", "interface ", "trait ", "extends ", "implements ", "namespace ", "use ",
            "public ", "private ", "protected ", "static ", "abstract ", "final ", "const ", "var ", "new ", "return ",
            "if (", "elseif (", "else ", "endif;", "for (", "foreach (", " as ", "while (", "do ", "switch (", "case ",
            "default:", "break;", "continue;", "try {", "catch (Exception $e)", "finally ", "throw ", "echo ", "print ",
            "global ", "unset(", "isset(", "empty(", "list(", "array(", "fn($a) => ", "$x", "$this->", "self::", "parent::",
            "static::", "->", "=>", "::", "?->", "??", "<=>", "===", ".=", "<<<EOT\nx\nEOT;\n", "\"$x {$y}\"", "match (",
            "yield ", "declare(strict_types=1);", "#[Attr]", "&$r", "...$a", "goto ", "require ", "include "],
}


def tokens_for(lang):
    return TOKENS[lang] + COMMON_TOKENS


# ---------------------------------------------------------------------------------------------
# template generator of valid programs.  A template is a list of lines; a line "{b}" is replaced by a nested
# body (indented one level); "{m}" by a fresh marker literal 9xxxx (allocated in SOURCE ORDER), "{v}" by a
# variable, "{n}" by a fresh small number used in names.

class Spec:
    def __init__(self, lang, simple, compound, decls, top_simple=None, top_compound=None, header=(), footer=(),
                 wrap_main=None, empty_body=None, var=("x", "y", "z"), class_members=None, top_decl_only=False):
        self.lang = lang
        self.simple = simple              # templates usable inside any body
        self.compound = compound          # templates with {b}
        self.decls = decls                # unit-level declarations (functions, classes ...)
        self.top_simple = simple if top_simple is None else top_simple       # statements allowed at unit level
        self.top_compound = compound if top_compound is None else top_compound
        self.header = list(header)
        self.footer = list(footer)
        self.wrap_main = wrap_main        # (open lines, close lines): where statements live if not allowed at top
        self.empty_body = empty_body      # line emitted for an empty body (python: pass)
        self.var = var
        self.class_members = class_members or []


PY = Spec(
    "python",
    simple=[["mark({m})"], ["{v} = {m}"], ["{v} = {v} + {m}"], ["{v}.f = {m}"], ["{v}[{m}] = {v}"], ["print({v}, {m})"],
            ["{v} = [{m}, {m}]"], ["{v} = {{'k': {m}}}"], ["{v} = lambda a: a + {m}"], ["{v} = {v} if {v} else {m}"],
            ["{v} += {m}"], ["{v}, {v} = {m}, {m}"], ["assert {v} == {m}"], ["del {v}"], ["{v} = {v}.g({m}).h"],
            ["{v} = not {v} and {m} < {v}"], ["{v} = f'{{{v}}} {m}'"], ["{v} = [a for a in {v} if a > {m}]"],
            ["{v} = ({m}, *{v})"], ["{v}: int = {m}"], ["import os.path, sys"], ["from a.b import c as d"], ["pass"],
            ["raise ValueError({m})"], ["{v} = {v}[{m}:{m}]"], ["{v} = mark(k={m}, *{v}, **{v})"],
            ["{v}.f += {m}"], ["{v}[{m}] += {m}"], ["{v}.f.g[{m}] = {v}"], ["del {v}[{m}], {v}.f"], ["{v} = {{k: {m} for k in {v}}}"],
            ["{v} = {{a for a in {v}}}"], ["{v} = sum(a * {m} for a in {v})"], ["{v} = {m} < {v} <= {m}"], ["{v} = -{v} ** {m} // {m}"],
            ["if ({v} := {m}) > {v}: pass"], ["{v} = [*{v}, {m}]"], ["{v} = {{**{v}, 'k': {m}}}"], ["{v} = lambda *a, k={m}, **kw: (a, k)"],
            ["{v} = {v}({m})({m})"], ["{v} = b'bytes' + bytes({m})"], ["{v} = r'\\d+' 'cat' f'{{{v}!r:>{{{m}}}}}'"], ["{v} = ..."],
            ["{v} = await {v}.g({m})"], ["{v} = yield {m}"], ["{v} = {v} if {v} is not None else {v} or {m}"], ["{v} = ({m},)"],
            ["{v} = [[{m}, {v}], [{v}, {m}]][{m}][{m}]"], ["print(*{v}, sep='', end={m})"], ["{v} = {v} @ {v}"], ["{v} = ~{v} & {m} | {v} ^ {m} << {m}"],
            ["{v}: list[int] = []"], ["{v} = type({v})({m})"], ["global {v}"], ["from . import sibling"], ["from .. import *"], ["import a.b.c as abc"],
            ["{v} = '''multi", "line {m}'''"], ["{v} = ({m} +", "    {m})"], ["return {v}"], ["{v} = not {v}"], ["*{v}, {v} = {v}"], ["({v}, {v}), {v} = {v}"],
            ["{v} = [a + b for a in {v} for b in {v} if a if b > {m}]"], ["{v} = {v}[::{m}]"], ["{v} = {v}[{m}, {m}:]"], ["assert {v}, 'm{m}'"],
            ["raise ValueError({m}) from {v}"], ["raise"], ["# comment {m}", "{v} = {m}  # trailing", "mark({m},  # argument comment", "     {v})", "{v} = [  # c", "    {m},  # c", "    # only a comment", "]", "{v} = '# not a comment'"], ["{v} = __name__ == '__main__'"], ["exec('{v} = {m}')"], ["nonlocal_{v} = {m}"]],

    compound=[["if {v} < {m}:", "{b}"], ["if {v} < {m}:", "{b}", "else:", "{b}"],
              ["if {v}:", "{b}", "elif {v} == {m}:", "{b}", "else:", "{b}"],
              ["while {v} < {m}:", "{b}"], ["while {v}:", "{b}", "else:", "{b}"], ["for {v} in range({m}):", "{b}"],
              ["for {v}, {v} in {v}.items():", "{b}", "else:", "{b}"],
              ["try:", "{b}", "except ValueError as e:", "{b}", "else:", "{b}", "finally:", "{b}"],
              ["try:", "{b}", "finally:", "{b}"], ["with open({m}) as {v}:", "{b}"],
              ["match {v}:", "    case {m}:", "    {b}", "    case _:", "    {b}"],
              ["def inner{n}(a, b={m}, *c, d, **e):", "{b}", "    return a"],
              ["class Inner{n}:", "    k = {m}", "    def m(self, a):", "    {b}"],
              ["async def ainner{n}():", "    async for a in {v}:", "    {b}", "    async with {v} as b, {v}:", "    {b}"],
              ["with open({m}) as {v}, open({m}) as {v}:", "{b}"], ["with {v}:", "{b}"],
              ["for {v} in {v}:", "    if {v} > {m}:", "        continue", "{b}", "    break"],
              ["try:", "{b}", "except (ValueError, TypeError):", "{b}", "except:", "{b}"],
              ["match {v}:", "    case [{m}, a, *rest] if a > {m}:", "    {b}", "    case {{'k': {m}, **kw}}:", "    {b}", "    case Point(x={m}) | None:", "    {b}", "    case str() as s:", "    {b}"],
              ["def outer{n}():", "    {v} = {m}", "    def inner():", "        nonlocal {v}", "        global g", "    {b}", "    return inner"],
              ["while True:", "{b}", "    if {v}: break"],
              ["if {v}: {v} = {m}", "else: {v} = {m}"]],
    decls=[["def f{n}(a, b={m}):", "{b}", "    return a"], ["async def g{n}(a):", "{b}"],
           ["def typed{n}(a: int, /, b: str = 's', *, c: 'T' = {m}) -> int:", "{b}"],
           ["@dec", "@mod.dec2({m}, k={m})", "class Deco{n}(Base, metaclass=Meta):", "    '''doc'''", "    x: int = {m}", "    __slots__ = ('a',)", "    @property", "    def p(self):", "    {b}", "    @classmethod", "    def c(cls, a={m}):", "    {b}"],
           ["class Gen{n}[T]:", "    def m(self) -> T: ..."], ["type Alias{n} = list[int]"],
           ["if __name__ == '__main__':", "{b}"],
           ["try:", "    import fast{n}", "except ImportError:", "    fast{n} = None"],
           ["@dec({m})", "def h{n}(*a, **k):", "{b}"],
           ["class C{n}(Base):", "    k = {m}", "    def __init__(self, a):", "        self.a = a", "    {b}",
            "    @staticmethod", "    def s(a):", "    {b}", "    def m(self):", "        return self.a + {m}"],
           ["class D{n}:", "    pass"], ["def gen{n}():", "    yield {m}", "{b}"]],
    empty_body="pass",
)

_JS_SIMPLE = [["mark({m});"], ["let {v}{n} = {m};"], ["{v} = {v} + {m};"], ["{v}.f = {m};"], ["{v}[{m}] = {v};"],
              ["console.log({v}, {m});"], ["var {v} = [{m}, {m}];"], ["const o{n} = {{k: {m}, [{v}]: {m}}};"],
              ["{v} = (a) => a + {m};"], ["{v} = {v} ? {v} : {m};"], ["{v}++;"], ["{v} += {m};"], ["{v} = new Foo({m});"],
              ["{v} = {v}.g({m}).h;"], ["{v} = !{v} && {m} < {v};"], ["{v} = `${{{v}}} {m}`;"], ["[{v}, {v}] = [{m}, {m}];"],
              ["{v} = function (a) {{ return a + {m}; }};"], ["{v} = typeof {v} === 'number' ? {m} : {m};"],
              ["delete {v}.f;"], ["throw new Error({m});"], [";"], ["{v} = {v}?.f ?? {m};"], ["{v} = [...{v}, {m}];"],
              ["{v} = await {v};"], ["const {{a: p{n}, b{n}, ...rest{n}}} = {v};"], ["({{a: {v}, b: {v} = {m}}} = {v});"], ["{v} = new Date;"],
              ["{v}.f += {m};"], ["{v}[{m}]++;"], ["--{v}.f;"], ["{v}.f.g[{m}].h = {v};"], ["{v} = {v}.f?.[{m}]?.({m});"], ["{v} ??= {m};"], ["{v} ||= {m}; {v} &&= {m};"],
              ["{v} = ({m}, {v});"], ["{v} = {m} ** {v} >>> {m};"], ["{v} = void {m};"], ["{v} = {v} in {v} || {v} instanceof Foo;"], ["{v} = /re{m}/gi.test({v});"],
              ["{v} = {{a: {m}, 'b': {m}, {m}: {v}, m() {{ return {m}; }}, get g() {{ return {m}; }}, ...{v}}};"], ["{v} = [ , {m}, ...{v}];"], ["{v} = async (a) => {{ await a; }};"],
              ["{v} = function* () {{ yield* {v}; }};"], ["{v} = class {{ m() {{ return {m}; }} }};"], ["{v} = new (foo())({m});"], ["{v} = new.target;"], ["{v} = import.meta.url;"],
              ["{v} = tag`a${{{v}}}b${{{m}}}`;"], ["{v} = {v} ? {v} ? {m} : {m} : {m};"], ["{v} = ((a, b = {m}, ...c) => a + b)({m});"], ["mark({m}, ...{v});"], ["{v}.g({m}).h({m}).i;"],
              ["var {v} = {m}, {v} = {m};"], ["let [a{n}, [b{n}, c{n} = {m}], ...d{n}] = {v};"], ["debugger;"], ["'use strict';"], ["{v} = {m}n + 0x{m}n;"], ["{v} = {v} == null;"],
              ["return {v};"], ["{v} = !!{v};"], ["{v} = -{v};"], ["{v} = typeof {v};"], ["if ({v}) {v} = {m}; else {v} = {m};"], ["for (;;) break;"], ["while ({v}) {v}--;"],
              ["export default {v};"], ["export {{ {v} as w{n} }};"], ["import * as ns{n} from 'm';"], ["import {{ a as b{n}, c{n} }} from './m';"], ["import 'side{n}';"],
              ["{v} = super.m({m});"], ["{v} = this;"], ["{v} = arguments[{m}];"], ["{v} = {v}.#priv;"],
              ["// line comment {m}", "/* block comment */ {v} = /* inner */ {m} /* trailing */;", "/** jsdoc */", "mark(/* arg */ {m}, // eol", "    {v});", "{v} = [ // c", "    {m}, /* c */ {m},", "];", "{v} = {{ // c", "    a: {m}, /* c */", "    // c", "}};"]]
_JS_COMPOUND = [["if ({v} < {m}) {{", "{b}", "}}"], ["if ({v} < {m}) {{", "{b}", "}} else {{", "{b}", "}}"],
                ["if ({v}) {{", "{b}", "}} else if ({v} == {m}) {{", "{b}", "}} else {{", "{b}", "}}"],
                ["while ({v} < {m}) {{", "{b}", "}}"], ["do {{", "{b}", "}} while ({v} < {m});"],
                ["for (let i = {m}; i < {m}; i++) {{", "{b}", "}}"], ["for (const k in {v}) {{", "{b}", "}}"],
                ["for (const e of {v}) {{", "{b}", "}}"], ["for (;;) {{", "{b}", "    break;", "}}"],
                ["switch ({v}) {{", "    case {m}:", "    {b}", "        break;", "    default:", "    {b}", "}}"],
                ["try {{", "{b}", "}} catch (e) {{", "{b}", "}} finally {{", "{b}", "}}"], ["try {{", "{b}", "}} finally {{", "{b}", "}}"],
                ["lbl{n}: for (;;) {{", "{b}", "    break lbl{n};", "}}"], ["{{", "{b}", "}}"],
                ["function inner{n}(a, b = {m}, ...c) {{", "{b}", "    return a;", "}}"],
                ["for await (const e of {v}) {{", "{b}", "}}"], ["for (var i = {m}, j = {m}; i < j; i++, j--) {{", "{b}", "}}"], ["for ({v} in {v}) {{", "{b}", "}}"],
                ["for (const [k, e] of Object.entries({v})) {{", "{b}", "}}"], ["outer{n}: while ({v}) {{", "    inner{n}: do {{", "    {b}", "        continue outer{n};", "    }} while ({v});", "}}"],
                ["switch ({v}) {{", "    case {m}:", "    case {m}: {{", "    {b}", "    }}", "    default:", "}}"], ["switch ({v}) {{ }}"],
                ["try {{", "{b}", "}} catch {{", "{b}", "}}"], ["try {{", "{b}", "}} catch ({{ message }}) {{", "{b}", "}}"],
                ["if ({v}) {{", "{b}", "}} else if ({v}) {{", "}} else {{", "}}"], ["with ({v}) {{", "{b}", "}}"],
                ["switch ({v}) {{", "    // comment before a case", "    case {m}: // trailing", "    {b}", "        /* before break */ break;", "    /* before default */ default:", "        // only a comment", "}}"],
                ["if ({v} > {m}) {{", "    // only a comment", "}} else {{ /* c */", "{b}", "}}"], ["class Cm{n} {{", "    // comment in a class body", "    /* c */ m() {{ /* c */", "    {b}", "    }} // trailing", "}}"],
                ["(function () {{", "{b}", "}})();"], ["(() => {{", "{b}", "}})();"], ["{v}.forEach(function (e, i) {{", "{b}", "}});"], ["{v}.then((r) => {{", "{b}", "}}).catch((e) => {{", "{b}", "}});"]]
_JS_DECLS = [["function f{n}(a, b = {m}) {{", "{b}", "    return a;", "}}"], ["async function g{n}(a) {{", "{b}", "}}"],
             ["function* gen{n}() {{", "    yield {m};", "{b}", "}}"],
             ["class C{n} extends Base {{", "    k = {m};", "    static s = {m};", "    constructor(a) {{", "        super(a);", "    {b}", "    }}",
              "    m(a) {{", "    {b}", "        return a + {m};", "    }}", "    static sm() {{", "    {b}", "    }}",
              "    get p() {{ return {m}; }}", "}}"],
             ["class D{n} {{}}"], ["const arrow{n} = (a, b) => {{", "{b}", "}};"],
             ["class Priv{n} {{", "    #p = {m};", "    static #sp;", "    static {{", "    {b}", "    }}", "    set v(a) {{ this.#p = a; }}", "    async *ag() {{ yield {m}; }}", "    ['computed' + {m}]() {{", "    {b}", "    }}", "    static async sm(a, {{b, c = {m}}}, [d]) {{", "    {b}", "    }}", "}}"],
             ["export default class {{", "    m() {{", "    {b}", "    }}", "}}"], ["export function ef{n}() {{", "{b}", "}}"], ["export async function* eg{n}() {{", "{b}", "}}"],
             ["var fe{n} = function named{n}(a) {{", "{b}", "}};"], ["module.exports = {{ f{n}: function () {{ return {m}; }} }};"]]

JS = Spec("javascript", simple=_JS_SIMPLE + [["import d{n} from './m.js';"], ["export const e{n} = {m};"]],
          compound=_JS_COMPOUND, decls=_JS_DECLS)

_TS_SIMPLE = _JS_SIMPLE + [
    ["let t{n}: number = {m};"], ["const u{n}: string[] = [];"], ["{v} = {v} as any;"], ["{v} = <number>{m};"],
    ["let w{n}: Array<number> = [{m}];"], ["{v} = {v}!;"], ["type A{n} = number | string;"], ["declare const dc{n}: number;"],
    ["let tu{n}: [number, string?] = [{m}];"], ["let fnT{n}: (a: number) => void = (a) => {{}};"], ["let un{n}: 'a' | 'b' | {m} = {m};"], ["{v} = {v} satisfies object;"],
    ["let gen{n} = new Map<string, number[]>();"], ["{v} = mark<number>({m});"], ["let ob{n}: {{ a: number; b?: string; [k: string]: any }} = {{ a: {m} }};"], ["{v} = {v}!.f!.g;"],
    ["let ko{n}: keyof typeof {v};"], ["for (const e{n} of {v} as number[]) mark(e{n});"], ["let opt{n} = {v}?.f ?? ({m} as const);"], ["const enumv{n} = E.A;"],
    ["let ar{n} = (a: number, b?: string): number => a + {m};"], ["let asr{n} = async <T,>(a: T): Promise<T> => a;"], ["type Fn{n}<T> = T extends string ? {m} : never;"],
    ["declare function df{n}(a: number): void;"], ["import type {{ T{n} }} from './t';"], ["export type {{ X{n} }};"], ["let big{n}: bigint = {m}n;"], ["let x{n}: unknown = {v} as unknown as string;"]]
TS = Spec("typescript", simple=_TS_SIMPLE, compound=_JS_COMPOUND + [
    ["function innerT{n}(a: number, b?: string): number {{", "{b}", "    return a;", "}}"]],
    decls=_JS_DECLS + [
        ["interface I{n} {{", "    a: number;", "    m(x: number): void;", "}}"], ["enum E{n} {{ A = {m}, B, C }}"],
        ["function tf{n}<T>(a: T, b: number = {m}): T {{", "{b}", "    return a;", "}}"],
        ["class K{n}<T> implements I {{", "    private a: number = {m};", "    readonly b: string;", "    constructor(private c: number) {{", "    {b}", "    }}",
         "    m(x: number): number {{", "    {b}", "        return x;", "    }}", "}}"],
        ["abstract class AB{n} {{", "    abstract m(): void;", "}}"],
        ["export function ex{n}(a: number): void {{", "{b}", "}}"],
        ["namespace NS{n} {{", "    export const a = {m};", "    export function nf() {{", "    {b}", "    }}", "}}"], ["declare module 'm{n}' {{", "    export const a: number;", "}}"],
        ["export default interface DI{n} extends A, B {{", "    readonly a: number;", "    new (x: number): DI{n};", "    <T>(y: T): T;", "    [k: string]: any;", "}}"],
        ["const enum CE{n} {{ A = 'a', B = {m} }}"], ["export abstract class EA{n}<T> extends Base<T> implements I, J {{", "    protected abstract a: number;", "    static readonly s: string = 's';", "    declare d: number;", "    private constructor(public x: number, protected y?: string) {{", "        super();", "    {b}", "    }}",
         "    get g(): number {{ return {m}; }}", "    set g(v: number) {{ this.x = v; }}", "    protected async m<U>(this: EA{n}<T>, a: U, ...r: number[]): Promise<void> {{", "    {b}", "    }}", "    m2?(): void;", "    @dec() dm(@inj() p: number) {{", "    {b}", "    }}", "}}"],
        ["function ov{n}(a: number): number;", "function ov{n}(a: string): string;", "function ov{n}(a: any): any {{", "{b}", "    return a;", "}}"],
        ["function guard{n}(a: unknown): a is string {{", "    return typeof a === 'string';", "}}"], ["function asrt{n}(a: unknown): asserts a {{", "{b}", "}}"],
        ["@Component({{ selector: 's{n}' }})", "class Cmp{n} {{", "    @Input() a: number = {m};", "    constructor(private readonly svc: Svc) {{}}", "}}"],
        ["let v{n} = {{ m(this: Window) {{ return {m}; }} }};"], ["export = ex{n};"], ["import req{n} = require('m');"], ["export * from './m{n}';"], ["export * as ns{n} from './m';"]])

JAVA = Spec(
    "java",
    simple=[["mark({m});"], ["int {v}{n} = {m};"], ["{v} = {v} + {m};"], ["this.f = {m};"], ["arr[{m}] = {v};"],
            ["System.out.println({m});"], ["Object o{n} = new Object();"], ["Runnable r{n} = () -> mark({m});"],
            ["{v} = {v} > {m} ? {v} : {m};"], ["{v}++;"], ["{v} += {m};"], ["int[] a{n} = new int[{m}];"],
            ["int[] b{n} = {{{m}, {m}}};"], ["String s{n} = \"s\" + {m};"], ["{v} = obj.g({m}).h;"], ["obj.f.g = {m};"],
            ["boolean q{n} = !({v} < {m}) && {v} == {m};"], ["{v} = (int) {m}L;"], ["throw new RuntimeException(\"{m}\");"],
            [";"], ["var l{n} = java.util.List.of({m});"], ["assert {v} > {m};"], ["Function<Integer,Integer> fn{n} = a -> a + {m};"],
            ["{v} = obj instanceof String s{n} ? {m} : {m};"], ["this.f++;"], ["arr[{m}]++;"], ["obj.f += {m};"], ["arr[{v}] += {m};"], ["--{v};"], ["{v} = -{v} + ~{m};"],
            ["{v} = {v} << {m} >>> {m} & {m};"], ["{v} <<= {m};"], ["char c{n} = 'c';"], ["long l{n} = {m}L; float fl{n} = 1.5f; double d{n} = {m}e2;"], ["int[][] mat{n} = new int[{m}][{m}];"],
            ["mat[{m}][{m}] = {v};"], ["String tb{n} = \"\"\"", "    text {m}", "    \"\"\";"], ["Object an{n} = new Runnable() {{ public void run() {{ mark({m}); }} }};"],
            ["Supplier<Integer> su{n} = Main::stat;"], ["list.forEach(System.out::println);"], ["BiFunction<Integer,Integer,Integer> bf{n} = (a, b) -> {{ return a + b + {m}; }};"],
            ["{v} = switch ({v}) {{ case {m} -> {m}; case {m}, {m} -> {{ yield {m}; }} default -> {m}; }};"], ["List<String> gl{n} = new ArrayList<>();"], ["Map<String, List<Integer>> gm{n} = new HashMap<String, List<Integer>>({m});"],
            ["{v} = obj.<Integer>gen({m});"], ["{v} = (obj).f.g.h({m})[{m}];"], ["{v} = Main.this.f;"], ["{v} = super.m({m});"], ["final int fi{n} = {m};"], ["return;"], ["int u{n};"], ["int a{n} = {m}, b{n} = a{n} + {m};"],
            ["{v} = {v} > {m} ? {v} < {m} ? {m} : {m} : {m};"], ["{v} = (Integer) obj;"], ["{v} = ((String) obj).length();"], ["Class<?> k{n} = String.class;"], ["{v} = arr.length;"], ["new Thread(() -> mark({m})).start();"],
            ["if ({v} > {m}) {v} = {m}; else {v} = {m};"], ["for (;;) break;"], ["while ({v} > {m}) {v}--;"], ["@SuppressWarnings(\"x\") int an{n} = {m};"], ["class Local{n} {{ int g = {m}; }}"], ["record LR{n}(int a) {{}}"],
            ["{v} = obj == null ? {m} : obj.hashCode();"], ["String cc{n} = \"a\" + {v} + 'c' + {m} + null;"], ["{v} += {v}++ + ++{v};"], ["boolean bb{n} = {v} > {m} || {v} < {m} && !({v} == {m}) ^ true;"],
            ["// line comment {m}", "/* block comment */ {v} = /* inner */ {m} /* trailing */;", "/** javadoc */", "mark(/* arg */ {m}, // eol", "    {v});"]],
    compound=[["if ({v} < {m}) {{", "{b}", "}}"], ["if ({v} < {m}) {{", "{b}", "}} else {{", "{b}", "}}"],
              ["if ({v} > {m}) {{", "{b}", "}} else if ({v} == {m}) {{", "{b}", "}} else {{", "{b}", "}}"],
              ["while ({v} < {m}) {{", "{b}", "}}"], ["do {{", "{b}", "}} while ({v} < {m});"],
              ["for (int i = {m}; i < {m}; i++) {{", "{b}", "}}"], ["for (int e : arr) {{", "{b}", "}}"],
              ["switch ({v}) {{", "    case {m}:", "    {b}", "        break;", "    default:", "    {b}", "}}"],
              ["switch ({v}) {{", "    case {m} -> {{", "    {b}", "    }}", "    default -> {{", "    {b}", "    }}", "}}"],
              ["try {{", "{b}", "}} catch (Exception e) {{", "{b}", "}} finally {{", "{b}", "}}"],
              ["try (AutoCloseable c{n} = open({m})) {{", "{b}", "}}"], ["synchronized (this) {{", "{b}", "}}"],
              ["lbl{n}: for (;;) {{", "{b}", "    break lbl{n};", "}}"], ["{{", "{b}", "}}"],
              ["for (int i = {m}, j = {m}; i < j; i++, j--) {{", "{b}", "}}"], ["for (final String e : list) {{", "{b}", "}}"], ["for (var en : map.entrySet()) {{", "{b}", "}}"],
              ["try {{", "{b}", "}} catch (IllegalStateException | IllegalArgumentException e) {{", "{b}", "}} catch (Exception e) {{", "{b}", "}}"], ["try {{", "{b}", "}} finally {{", "{b}", "}}"],
              ["try (InputStream a = open(); OutputStream b = open2()) {{", "{b}", "}} catch (IOException e) {{", "{b}", "}}"],
              ["switch ({v}) {{", "    case {m}: case {m}:", "    {b}", "    case {m}: {{", "    {b}", "    }}", "}}"], ["switch (obj) {{", "    case String s -> mark({m});", "    case Integer i when i > {m} -> {{", "    {b}", "    }}", "    default -> {{}}", "}}"],
              ["outer{n}: while ({v} > {m}) {{", "    do {{", "    {b}", "        continue outer{n};", "    }} while ({v} < {m});", "}}"], ["if ({v} > {m}) {{", "}} else {{", "{b}", "}}"],
              ["new Object() {{", "    void am() {{", "    {b}", "    }}", "}}.am();"], ["list.forEach(e -> {{", "{b}", "}});"], ["while (true) {{", "{b}", "    if ({v} > {m}) break;", "}}"],
              ["switch ({v}) {{", "    // comment before a case", "    case {m}: // trailing", "    {b}", "        /* before break */ break;", "    /* before default */ default:", "        // only a comment", "}}"],
              ["if ({v} > {m}) {{", "    // only a comment", "}} else {{ /* c */", "{b}", "}}"]],
    decls=[["interface I{n} {{", "    int m(int a);", "    default int d() {{ return {m}; }}", "}}"],
           ["enum E{n} {{", "    A({m}), B({m});", "    private final int v;", "    E{n}(int v) {{ this.v = v; }}", "}}"],
           ["record R{n}(int a, String b) {{", "    int sum() {{ return a + {m}; }}", "}}"],
           ["@interface An{n} {{", "    int value() default {m};", "}}"],
           ["class P{n}<T extends Comparable<T>> extends Base implements I {{", "    static int s = {m};", "    int f = {m};", "    static {{", "    {b}", "    }}",
            "    {{", "    {b}", "    }}", "    P{n}(int a) {{", "        super(a);", "    {b}", "    }}", "    int m(int a, int... rest) throws Exception {{", "        int x = 0, y = 0, z = 0;", "    {b}",
            "        return a;", "    }}", "    class In{n} {{ int g = {m}; }}", "}}"],
           ["public final class Pub{n} {{", "    public static final String K = \"k\";", "    private volatile transient int a, b = {m}, c[];", "    protected List<Map<String, int[]>> g = new ArrayList<>();", "    public static void main(String[] args) {{", "        int x = 0, y = 0, z = 0;", "    {b}", "    }}",
            "    abstract static class N{n} implements Comparable<N{n}> {{", "        abstract <T> T gm(T a);", "        public int compareTo(N{n} o) {{ return {m}; }}", "    }}",
            "    enum Col {{ R, G {{ @Override int v() {{ return {m}; }} }}, B; int v() {{ return {m}; }} }}", "    interface Cb {{ void call(int a); }}", "    synchronized native void nat();", "    @Deprecated @SafeVarargs final <T> void va(T... a) {{", "    {b}", "    }}", "}}"],
           ["sealed interface Sh{n} permits Ci{n}, Sq{n} {{}}", "record Ci{n}(double r) implements Sh{n} {{", "    Ci{n} {{", "        if (r < {m}) throw new IllegalArgumentException();", "    }}", "    static int cnt = {m};", "}}", "final class Sq{n} implements Sh{n} {{}}"],
           ["enum Op{n} implements I {{", "    ADD(\"+\") {{", "        int ap(int a) {{ return a + {m}; }}", "    }};", "    final String s;", "    Op{n}(String s) {{ this.s = s; }}", "    abstract int ap(int a);", "    static {{", "    {b}", "    }}", "}}"],
           ["@FunctionalInterface", "interface Fi{n}<T, R> extends Function<T, R> {{", "    R ap(T t);", "    static <T> Fi{n}<T, T> id() {{ return t -> t; }}", "    int K = {m};", "}}"],
           ["@Retention(RetentionPolicy.RUNTIME)", "@Target({{ElementType.METHOD, ElementType.FIELD}})", "@interface Cfg{n} {{", "    String name() default \"n\";", "    int[] v() default {{{m}, {m}}};", "}}"],
           ["class Gen{n}<K extends Comparable<? super K>, V> {{", "    private final Map<K, ? extends V> m = null;", "    <T extends K> V get(T k) throws IOException, RuntimeException {{", "        int x = 0, y = 0, z = 0;", "    {b}", "        return null;", "    }}", "}}"]],
    top_simple=[], top_compound=[],
    header=["package p.q;", "import java.util.*;", "import static java.lang.Math.*;", "import java.util.function.Function;"],
    wrap_main=(["class Main{n} {{", "    int f;", "    int[] arr;", "    void main(int x, int y, int z, Object obj) {{"], ["    }}", "}}"]),
)

GO = Spec(
    "go",
    simple=[["mark({m})"], ["{v}{n} := {m}"], ["{v} = {v} + {m}"], ["t.a = {m}"], ["arr[{m}] = {v}"], ["fmt.Println({v}, {m})"],
            ["defer mark({m})"], ["go mark({m})"], ["{v}++"], ["{v} += {m}"], ["var v{n} int = {m}"], ["s{n} := []int{{{m}, {m}}}"],
            ["m{n} := map[string]int{{\"k\": {m}}}"], ["p{n} := &T{{a: {m}}}"], ["f{n} := func(a int) int {{ return a + {m} }}"],
            ["{v}, {v} = {m}, {m}"], ["{v} = obj.g({m}).h"], ["ch <- {m}"], ["{v} = <-ch"], ["b{n} := !({v} < {m}) && {v} == {m}"],
            ["panic({m})"], ["const c{n} = {m}"], ["{v} = int(float64({m}))"], ["_ = {v}"], ["q{n}, ok := obj.(int)"], ["t.a++"], ["arr[{m}] += {m}"], ["t.in.b = {m}"], ["*p = {m}"], ["p.a = {m}"],
            ["{v} = arr[{m}:{m}][{m}]"], ["sl{n} := arr[:{m}:{m}]"], ["{v}, ok{n} := m[\"k\"]"], ["m[\"k\"] = {m}"], ["delete(m, \"k\")"], ["arr = append(arr, {m}, {v})"], ["arr = append(arr, arr...)"], ["{v} = len(arr) + cap(arr)"],
            ["mk{n} := make([]int, {m}, {m})"], ["mc{n} := make(chan int, {m})"], ["nw{n} := new(T)"], ["st{n} := T{{{m}, \"s\"}}"], ["an{n} := struct {{ a int }}{{{m}}}"], ["ms{n} := map[string][]T{{\"k\": {{{{a: {m}}}}}}}"], ["ar{n} := [...]int{{{m}, 2: {m}}}"],
            ["var (", "    va{n} = {m}", "    vb{n} int", ")"], ["var fu{n} func(int) (int, error)"], ["var if{n} interface{{}} = {m}"], ["{v} = t.m({m})"], ["{v} = T.m(t, {m})"], ["fv{n} := t.m"], ["{v} = func(a int) int {{ return a * {m} }}({m})"],
            ["defer func() {{ recover() }}()"], ["go func(a int) {{ mark(a) }}({m})"], ["{v} = {v} &^ {m} << {m} | {m}"], ["{v} = -{v} + ^{m}"], ["b{n} := {v} > {m} || {v} < {m} && !ok"], ["s{n} := \"a\" + `raw {m}` + string(rune({m}))"],
            ["r{n} := 'x'"], ["c{n} := 1i * {m}"], ["f{n}, g{n} := {m}.5, 0x{m}p-2"], ["return"], ["goto end{n}", "end{n}:"], ["close(ch)"], ["<-ch"], ["{v}, {v} = {v}, {v}"], ["var x{n}, y{n} = {m}, \"s\""], ["type L{n} struct {{ a int }}"], ["type F{n} func(int) int"],
            ["if {v} > {m} {{ {v} = {m} }}"], ["for {v} < {m} {{ {v}++ }}"], ["e{n} := fmt.Errorf(\"e %d: %w\", {m}, err)"], ["{v} = obj.(T).a"], ["{v} = (*p).a"], ["pp{n} := &arr[{m}]"], ["{v} = mark({m}, arr...)"], ["g{n} := gen[int, string]({m})"], ["const (", "    ca{n} = iota + {m}", "    cb{n}", ")"]],
    compound=[["if {v} < {m} {{", "{b}", "}}"], ["if {v} < {m} {{", "{b}", "}} else {{", "{b}", "}}"],
              ["if k := {m}; k < {v} {{", "{b}", "}} else if {v} == {m} {{", "{b}", "}} else {{", "{b}", "}}"],
              ["for {v} < {m} {{", "{b}", "}}"], ["for i := {m}; i < {m}; i++ {{", "{b}", "}}"], ["for {{", "{b}", "    break", "}}"],
              ["for i, e := range arr {{", "{b}", "}}"], ["switch {v} {{", "case {m}:", "{b}", "    fallthrough", "default:", "{b}", "}}"],
              ["switch {{", "case {v} > {m}:", "{b}", "}}"], ["switch y{n} := obj.(type) {{", "case int:", "{b}", "default:", "{b}", "}}"],
              ["select {{", "case v := <-ch:", "{b}", "default:", "{b}", "}}"], ["func() {{", "{b}", "}}()"],
              ["lbl{n}:", "for {{", "{b}", "    break lbl{n}", "}}"], ["{{", "{b}", "}}"],
              ["for i, j := {m}, {m}; i < j; i, j = i+1, j-1 {{", "{b}", "}}"], ["for range arr {{", "{b}", "}}"], ["for k, e := range m {{", "{b}", "}}"], ["for _, e := range []int{{{m}, {m}}} {{", "{b}", "}}"], ["for e := range ch {{", "{b}", "}}"], ["for i := range {m} {{", "{b}", "}}"],
              ["if e, ok := obj.(error); ok && e != nil {{", "{b}", "}}"], ["if err := mark({m}); err != nil {{", "{b}", "    return", "}}"], ["switch k := {v} + {m}; k {{", "case {m}, {m}:", "{b}", "case {m}:", "default:", "{b}", "}}"],
              ["switch obj.(type) {{", "case nil:", "{b}", "case int, string:", "{b}", "case *T:", "{b}", "}}"], ["select {{", "case ch <- {m}:", "{b}", "case v, ok := <-ch:", "{b}", "case <-done:", "    return", "}}"], ["select {{}}"],
              ["outer{n}:", "for {v} < {m} {{", "    for {{", "    {b}", "        continue outer{n}", "    }}", "}}"], ["go func() {{", "{b}", "}}()"], ["defer func() {{", "    if r := recover(); r != nil {{", "    {b}", "    }}", "}}()"],
              ["f{n} := func(a, b int, c ...string) (r int, err error) {{", "{b}", "    return", "}}"], ["if {v} > {m} {{", "}} else {{", "{b}", "}}"], ["arrF(func(a int) bool {{", "{b}", "    return a > {m}", "}})"]],
    decls=[["var g{n} = {m}"], ["var (", "    ga{n} int = {m}", "    gb{n} = \"s\"", ")"], ["const k{n} = {m}"],
           ["type T{n} struct {{", "    a int", "    b string `json:\"b\"`", "}}"], ["type I{n} interface {{", "    M(a int) int", "}}"],
           ["type A{n} = int"], ["func f{n}(a int, b ...string) (int, error) {{", "    x, y, z := 0, 0, 0", "{b}", "    return a, nil", "}}"],
           ["func (t *T) m{n}(a int) int {{", "    x, y, z := 0, 0, 0", "{b}", "    return a + {m}", "}}"],
           ["func gen{n}[K comparable, V any](m map[K]V) {{", "{b}", "}}"], ["func init() {{", "{b}", "}}"],
           ["type Emb{n} struct {{", "    T", "    *U", "    a, b int", "    f func(int) error", "    m map[string][]int", "    c chan<- int", "    in struct {{ b int }}", "}}"], ["type Ifc{n} interface {{", "    I", "    M(a int, b ...string) (int, error)", "    ~int | ~string", "}}"],
           ["type St{n}[T any] struct {{ v []T }}", "func (s *St{n}[T]) Push(v T) {{", "    x, y, z := 0, 0, 0", "{b}", "}}"], ["type En{n} int", "const (", "    A{n} En{n} = iota", "    B{n}", "    _", "    C{n} = \"s\"", ")"],
           ["func (T) val{n}() {{}}"], ["func mr{n}() (a, b int, err error) {{", "    x, y, z := 0, 0, 0", "{b}", "    return {m}, {m}, nil", "}}"], ["func hof{n}(f func(int) int, g ...func()) func() int {{", "    x, y, z := 0, 0, 0", "{b}", "    return func() int {{ return f({m}) }}", "}}"],
           ["var fnv{n} = func() int {{ return {m} }}"], ["var arrv{n} = [3]int{{{m}, {m}, {m}}}"], ["var mv{n} = map[string]int{{\"a\": {m}}}", "var sv{n} = []T{{{{a: {m}}}, {{a: {m}}}}}"], ["var pv{n} = &T{{a: {m}}}"], ["var _ I = (*T)(nil)"],
           ["import (", "    \"os\"", "    str \"strings\"", "    _ \"embed\"", "    . \"math\"", ")"], ["//go:generate x", "// comment {m}", "/* block", "   comment */"],
           ["type (", "    // comment in a type group {m}", "    TG{n} int /* trailing */", "    // another", ")"],
           ["var (", "    // comment in a var group", "    vg{n} = {m} // trailing", ")", "const (", "    // comment in a const group", "    cg{n} = iota /* c */", ")", "import (", "    // comment in an import group", "    \"io\"", ")"],
           ["type CS{n} struct {{", "    // field comment", "    a int // trailing {m}", "    /* block */", "}}", "type CI{n} interface {{", "    // method comment", "    M() // trailing", "}}"],
           ["func cf{n}(a int, // parameter comment", "    b int) (r int /* result comment */) {{", "    x, y, z := 0, 0, 0", "    // leading comment {m}", "{b}", "    switch a {{", "    // comment before a case", "    case {m}: // trailing", "    }}",
            "    s := []int{{", "        // element comment", "        {m}, // trailing", "    }}", "    mark(a, // argument comment", "        b)", "    return /* c */ a", "}}"]],
    top_simple=[], top_compound=[],
    header=["package main", "import \"fmt\""],
    wrap_main=(["func main{n}() {{", "    x, y, z := 0, 0, 0"], ["}}"]),
)

C = Spec(
    "c",
    simple=[["mark({m});"], ["int {v}{n} = {m};"], ["{v} = {v} + {m};"], ["s.a = {m};"], ["arr[{m}] = {v};"], ["p = &{v};"],
            ["*p = {m};"], ["printf(\"%d\", {m});"], ["{v}++;"], ["{v} += {m};"], ["ps->a = {m};"], ["{v} = {v} > {m} ? {v} : {m};"],
            ["int a{n}[3] = {{{m}, {m}, {m}}};"], ["struct S t{n} = {{.a = {m}}};"], ["{v} = (int) {m}L;"], ["{v} = sizeof(int) + {m};"],
            [";"], ["{v} = !({v} < {m}) && {v} == {m};"], ["char *str{n} = \"s{m}\";"], ["{v} = obj.g({m});"], ["goto end{n};", "end{n}: ;"],
            ["{v} = fp({m});"], ["static int st{n} = {m};"], ["unsigned long ul{n} = {m}UL;"], ["arr[{m}]++;"], ["ps->a += {m};"], ["(*ps).a = {m};"], ["s.in.b = {m};"], ["*(p + {m}) = {v};"], ["p[{m}] = *p + {m};"], ["--{v};"],
            ["{v} = -{v} + ~{m} * sizeof {v};"], ["{v} = {v} << {m} >> {m} & {m} | {m} ^ {m};"], ["{v} <<= {m}; {v} %= {m};"], ["{v} = ({v}, {m});"], ["{v} = {v} > {m} ? {v} < {m} ? {m} : {m} : {m};"], ["int *q{n} = &arr[{m}], **qq{n} = &q{n};"],
            ["char c{n} = 'c', nl{n} = '\\n';"], ["float f{n} = 1.5f; double d{n} = {m}e-2;"], ["int m{n}[2][3] = {{{{{m}, {m}}}, {{{m}}}}};"], ["struct S cl{n} = (struct S){{{m}}};"], ["struct {{ int a; }} an{n} = {{{m}}};"], ["int (*fpp{n})(int, char *) = &proto;"],
            ["{v} = (*fpp)({m}, 0);"], ["{v} = fparr[{m}]({m});"], ["const char *cs{n} = \"a\" \"b{m}\";"], ["void *vp{n} = (void *) p;"], ["{v} = *(int *) vp;"], ["{v} = (int) (long) {m};"], ["enum E e{n} = EA;"], ["typedef int ti{n}; ti{n} tv{n} = {m};"],
            ["return {v};"], ["int u{n};"], ["int a{n} = {m}, b{n} = a{n} + {m}, *c{n};"], ["if ({v} > {m}) {v} = {m}; else {v} = {m};"], ["for (;;) break;"], ["while ({v} > {m}) {v}--;"], ["do {v}++; while ({v} < {m});"], ["extern int ex{n};"], ["register int r{n} = {m};"],
            ["volatile const int vc{n} = {m};"], ["{v} = M({m});"], ["{v} = !{v} && {v} || {m};"], ["{v} = obj.f.g[{m}].h;"], ["{v} = ps->next->a;"], ["memset(&s, 0, sizeof(struct S));"], ["{v} = __builtin_expect({v}, {m});"], ["{v} = arr[arr[{m}]];"], ["long long ll{n} = {m}LL; unsigned u{n} = {m}u;"],
            ["{v} = sizeof(arr) / sizeof(arr[0]);"],
            ["/* block comment {m} */ {v} = /* inner */ {m} /* trailing */;", "mark(/* arg */ {m},", "    {v});", "{v} = {m}; // eol comment"], ["_Static_assert(sizeof(int) == 4, \"m\");"], ["{v} = _Generic({v}, int: {m}, default: {m});"], ["{v} = ({{ int t = {m}; t; }});"]],
    compound=[["if ({v} < {m}) {{", "{b}", "}}"], ["if ({v} < {m}) {{", "{b}", "}} else {{", "{b}", "}}"],
              ["if ({v} > {m}) {{", "{b}", "}} else if ({v} == {m}) {{", "{b}", "}} else {{", "{b}", "}}"],
              ["while ({v} < {m}) {{", "{b}", "}}"], ["do {{", "{b}", "}} while ({v} < {m});"],
              ["for (int i = {m}; i < {m}; i++) {{", "{b}", "}}"], ["for (;;) {{", "{b}", "    break;", "}}"],
              ["switch ({v}) {{", "    case {m}:", "    {b}", "        break;", "    default:", "    {b}", "}}"], ["{{", "{b}", "}}"],
              ["#ifdef A{n}", "{b}", "#else", "{b}", "#endif"],
              ["for (i = {m}, j = {m}; i < j; i++, j--) {{", "{b}", "}}"], ["for (struct S *it = ps; it; it = it->next) {{", "{b}", "}}"], ["switch ({v}) {{", "    case {m}: case {m}:", "    {b}", "    case {m}: {{", "    {b}", "    }}", "}}"], ["switch ({v}) {{ }}"],
              ["if ({v} > {m}) {{", "}} else {{", "{b}", "}}"], ["while (1) {{", "{b}", "    if ({v} > {m}) break;", "    continue;", "}}"], ["again{n}: ;", "{b}", "if ({v} < {m}) goto again{n};"], ["#if defined(A) && B > {m}", "{b}", "#elif C", "{b}", "#endif"],
              ["if ({v}) {{", "{b}", "}} else if ({v} == {m}) {{", "}} else {{", "}}"], ["do {{", "{b}", "    if ({v}) continue;", "}} while (0);"],
              ["switch ({v}) {{", "    /* comment before a case */", "    case {m}: /* trailing */", "    {b}", "        /* before break */ break;", "    /* before default */ default:", "        ;", "}}"],
              ["if ({v} > {m}) {{", "    /* only a comment */", "}} else {{ /* c */", "{b}", "}}"]],
    decls=[["int g{n} = {m};"], ["static const char *gs{n} = \"s\";"], ["struct S{n} {{", "    int a;", "    char b[{m}];", "    struct S{n} *next;", "}};"],
           ["union U{n} {{ int a; float b; }};"], ["enum E{n} {{ EA{n} = {m}, EB{n} }};"], ["enum X{n} {{ XA{n} = {m} + 2, XB{n} = sizeof(int), XC{n} = -1, XD{n} = XA{n} | {m}, XE{n} = (int) {m} }};"], ["typedef struct {{ int a; }} T{n};"],
           ["typedef int (*fp{n})(int);"], ["#define M{n}(a) ((a) + {m})"], ["int proto{n}(int a, char *b);"],
           ["int f{n}(int a, char **b) {{", "    int x = 0, y = 0, z = 0;", "{b}", "    return a;", "}}"],
           ["static void v{n}(void) {{", "    int x = 0, y = 0, z = 0;", "{b}", "}}"], ["int ga{n}[] = {{{m}, {m}}};"],
           ["struct N{n} {{", "    int a : 3;", "    unsigned b : {m};", "    union {{ int u; float f; }};", "    struct {{ int b; }} in;", "    int (*cb)(struct N{n} *, int);", "    char flex[];", "}};"], ["struct P{n} gp{n} = {{ .a = {m}, .in = {{ .b = {m} }}, .arr = {{ [{m}] = {m} }} }};"],
           ["typedef struct L{n} {{ struct L{n} *next; int v; }} L{n}_t, *L{n}_p;"], ["typedef enum {{ TA{n}, TB{n} = {m} }} te{n};"], ["typedef union {{ int i; char c[4]; }} tu{n};"], ["extern int ext{n}; extern void extf{n}(void);"],
           ["static inline int inl{n}(const int *restrict a, int n) {{", "    int x = 0, y = 0, z = 0;", "{b}", "    return a[0];", "}}"], ["int var{n}(int n, ...) {{", "    int x = 0, y = 0, z = 0;", "{b}", "    return n;", "}}"], ["int *retp{n}(void) {{ static int s = {m}; return &s; }}"],
           ["int (*retfp{n}(int a))(int) {{", "    return 0;", "}}"], ["void kr{n}(a, b) int a; char *b; {{", "}}"], ["int arrp{n}(int a[static {m}], int b[][{m}]) {{ return a[0]; }}"], ["__attribute__((noreturn)) void die{n}(void);"], ["#pragma once", "#undef M{n}", "#line {m}"],
           ["#define MM{n}(a, ...) do {{ f(a, __VA_ARGS__); }} while (0)", "#define STR{n}(x) #x", "#define CAT{n}(a, b) a##b"], ["#if 0", "int dead{n} = {m};", "#endif"], ["const int tbl{n}[] = {{ {m}, {m}, }};", "char str{n}[] = \"s\";", "char *names{n}[] = {{ \"a\", \"b\" }};"],
           ["int g1{n}, g2{n} = {m}, *g3{n}, g4{n}[{m}];"], ["/* block {m} */ // line", "int after{n};"], ["_Noreturn void nr{n}(void);"]],
    top_simple=[], top_compound=[],
    header=["#include <stdio.h>", "struct S {{ int a; }};"],
    wrap_main=(["int main{n}(int argc, char **argv) {{", "    int x = 0, y = 0, z = 0, arr[9], *p; struct S s, *ps, obj;"], ["    return 0;", "}}"]),
)

PHP = Spec(
    "php",
    simple=[["mark({m});"], ["${v} = {m};"], ["${v} = ${v} + {m};"], ["$o->f = {m};"], ["${v}[{m}] = ${v};"], ["echo {m};"],
            ["$f{n} = function($a) use (${v}) {{ return $a + {m}; }};"], ["${v} = ${v} ? ${v} : {m};"], ["${v}++;"], ["${v} .= \"s{m}\";"],
            ["${v} = [{m}, 'k' => {m}];"], ["${v} = array({m}, {m});"], ["${v} = new Foo({m});"], ["${v} = $o->g({m})->h;"],
            ["${v} = Foo::sm({m});"], ["${v} = !(${v} < {m}) && ${v} == {m};"], ["${v} = \"a ${v} {{${v}}} {m}\";"],
            ["list(${v}, ${v}) = [{m}, {m}];"], ["${v} = fn($a) => $a + {m};"], ["unset(${v});"], ["throw new Exception({m});"],
            ["${v} = ${v} ?? {m};"], ["${v} = (int) \"{m}\";"], ["global ${v};"], ["${v} = isset(${v}[{m}]);"], ["${v}[] = {m};"],
            ["print ${v};"], ["require_once 'a{n}.php';"], ["$o->f += {m};"], ["${v}[{m}]++;"], ["Foo::$s = {m};"], ["$o->a->b[{m}]['k'] = ${v};"], ["$o::K;"], ["static::sm({m});"], ["parent::m({m});"], ["${v} = $o?->f?->g({m});"], ["${v} ??= {m};"],
            ["${v} = ${v} <=> {m};"], ["${v} = ${v} ** {m} % {m};"], ["${v} = -${v} . 's' . {m};"], ["${v} = ${v} and {m} or ${v} xor {m};"], ["${v} = !${v} || ${v} && {m} === ${v};"], ["${v} = ${v} ?: {m};"], ["${v} = ${v} ? (${v} ? {m} : {m}) : {m};"], ["[${v}, [${v}, ${v}]] = ${v};"],
            ["['a' => ${v}, 'b' => ${v}] = ${v};"], ["${v} = <<<EOT", "text ${v} {{$o->f}} {m}", "EOT;"], ["${v} = <<<'EOT'", "raw {m}", "EOT;"], ["${v} = match(true) {{ ${v} > {m} => {m}, ${v} < {m}, ${v} == {m} => {m}, default => {m} }};"], ["${v} = new class({m}) extends Base {{ public function m() {{ return {m}; }} }};"],
            ["${v} = clone $o;"], ["${v} = $o instanceof Foo;"], ["${v} = (array) ${v}; ${v} = (string) {m}; ${v} = (bool) ${v};"], ["${v} = \"a{{${v}['k']}}b$o->f {m}\";"], ["${v} = 's' . \"d\" . `ls`;"], ["${v} = $f({m});"], ["${v} = $o->$name({m});"], ["${v} = $$name;"], ["${v} = $o->{{'f' . {m}}};"],
            ["${v} = Foo::{{$m}}({m});"], ["${v} = call_user_func([$o, 'm'], {m});"], ["${v} = mark(a: {m}, b: ${v});"], ["${v} = mark(...${v});"], ["${v} = mark(...);"], ["${v} = &${v};"], ["${v} = function &() use (&${v}, ${v}) {{ return ${v}; }};"], ["${v} = static fn(int $a): int => $a * {m};"],
            ["static $st{n} = {m};"], ["echo ${v}, 's', {m};"], ["echo <<<X", "h {m}", "X;"], ["exit({m});"], ["return ${v};"], ["yield {m} => ${v};"], ["${v} = yield from gen();"], ["${v} = isset(${v}, $o->f) && !empty(${v}[{m}]);"], ["unset(${v}[{m}], $o->f);"], ["${v} = @file({m});"],
            ["${v} = include 'a.php';"], ["${v} = __DIR__ . __LINE__ . PHP_EOL . \\Foo\\BAR;"], ["${v} = \\Ns\\f({m}) + namespace\\g({m});"], ["${v} = new \\Ns\\Cls;"], ["${v} = [{m}, ...${v}, 'k' => [{m}]];"], ["${v} = ${v}[{m}][${v}]['k'] ?? null;"], ["${v} = 0x{m} + 0b101 + 1_000 + 1.5e3 + .5;"],
            ["if (${v}) ${v} = {m}; else ${v} = {m};"], ["for (;;) break;"], ["while (${v}) ${v}--;"], ["declare(ticks={m});"], ["const LC{n} = {m};"], ["?>", "<p>html <?= ${v} ?> {m}</p>", "<?php"], ["${v} = print({m});"], ["/* block comment {m} */ ${v} = /* inner */ {m} /* trailing */;", "mark(/* arg */ {m}, # eol", "    ${v});", "${v} = [ // c", "    {m}, /* c */ {m},", "];", "${v} = 'http://not.a/comment'; // but this is"], ["list('a' => ${v}, 'b' => list(${v})) = ${v};"], [";"]],
    compound=[["if (${v} < {m}) {{", "{b}", "}}"], ["if (${v} < {m}) {{", "{b}", "}} else {{", "{b}", "}}"],
              ["if (${v}) {{", "{b}", "}} elseif (${v} == {m}) {{", "{b}", "}} else {{", "{b}", "}}"],
              ["while (${v} < {m}) {{", "{b}", "}}"], ["do {{", "{b}", "}} while (${v} < {m});"],
              ["for ($i = {m}; $i < {m}; $i++) {{", "{b}", "}}"], ["foreach (${v} as $k => $e) {{", "{b}", "}}"],
              ["foreach (${v} as $e) {{", "{b}", "}}"],
              ["switch (${v}) {{", "    case {m}:", "    {b}", "        break;", "    default:", "    {b}", "}}"],
              ["try {{", "{b}", "}} catch (Exception $e) {{", "{b}", "}} finally {{", "{b}", "}}"],
              ["if (${v}):", "{b}", "else:", "{b}", "endif;"], ["while (${v} < {m}):", "{b}", "endwhile;"],
              ["function inner{n}($a, $b = {m}, ...$c) {{", "{b}", "    return $a;", "}}"],
              ["for ($i = {m}, $j = {m}; $i < $j; $i++, $j--) {{", "{b}", "}}"], ["for ($i = {m}; $i < {m}; $i++):", "{b}", "endfor;"], ["foreach (${v} as $k => &$e) {{", "{b}", "}}"], ["foreach (${v} as [$a, $b]) {{", "{b}", "}}"], ["foreach (${v} as $e):", "{b}", "endforeach;"],
              ["switch (${v}) {{", "    case {m}: case {m}:", "    {b}", "    case 's': {{", "    {b}", "    }}", "}}"], ["switch (${v}):", "    case {m}:", "    {b}", "        break;", "endswitch;"], ["try {{", "{b}", "}} catch (A | B $e) {{", "{b}", "}} catch (\\Exception) {{", "{b}", "}}"], ["try {{", "{b}", "}} finally {{", "{b}", "}}"],
              ["if (${v}) {{", "}} else if (${v}) {{", "{b}", "}} else {{", "}}"], ["if (${v}):", "{b}", "elseif (${v} > {m}):", "{b}", "else:", "{b}", "endif;"], ["while (true) {{", "{b}", "    if (${v}) break 1;", "    continue;", "}}"], ["do {{", "{b}", "}} while (${v} < {m});"],
              ["declare(strict_types=1) {{", "{b}", "}}"], ["{{", "{b}", "}}"], ["array_map(function ($a) use (${v}) {{", "{b}", "    return $a;", "}}, ${v});"], ["$cl{n} = function () {{", "{b}", "}};"], ["if (!function_exists('cf{n}')) {{", "    function cf{n}() {{", "    {b}", "    }}", "}}"]],
    decls=[["function f{n}($a, $b = {m}) {{", "{b}", "    return $a;", "}}"], ["function t{n}(int $a, ?string $b = null): int {{", "{b}", "    return $a;", "}}"],
           ["class C{n} extends Base implements I {{", "    const K = {m};", "    public $a = {m};", "    private static $s = {m};", "    public function __construct($a) {{",
            "        $this->a = $a;", "    {b}", "    }}", "    public function m($x) {{", "    {b}", "        return $this->a + {m};", "    }}",
            "    public static function sm() {{", "    {b}", "        return self::$s;", "    }}", "}}"],
           ["interface I{n} {{", "    public function m($x);", "}}"], ["trait T{n} {{", "    public function tm() {{ return {m}; }}", "}}"],
           ["abstract class AB{n} {{", "    abstract protected function am();", "}}"], ["const GC{n} = {m};"],
           ["namespace App\\M{n};"], ["namespace N{n} {{", "{b}", "}}"],
           ["use Foo\\Bar{n} as Baz{n};"], ["use Foo\\{{A{n}, B{n} as C{n}}};", "use function Foo\\fn{n};", "use const Foo\\K{n};"],
           ["final class Fin{n} extends \\Ns\\Base implements I, \\Countable {{", "    use T1, T2 {{ T1::m insteadof T2; T2::m as protected m2; }}", "    public const A = {m}, B = 's';", "    private ?int $n = null;", "    protected static array $arr = [{m}];", "    public readonly string $ro;", "    var $old;",
            "    public function __construct(private int $p = {m}, protected ?Foo $q = null, string ...$r) {{", "    {b}", "    }}", "    abstract public function ab();", "    final protected static function fs(int|string $a, ?array &$b = null): ?static {{", "    {b}", "        return null;", "    }}",
            "    public function __get($n) {{ return $this->$n; }}", "    public function gen(): iterable {{", "        yield {m};", "    {b}", "    }}", "}}"],
           ["enum Suit{n}: string implements I {{", "    case H = 'h';", "    case S = 's';", "    const D = self::H;", "    public function label(): string {{", "    {b}", "        return $this->value;", "    }}", "}}"],
           ["interface Ex{n} extends A, B {{", "    const K = {m};", "    public static function sm(int $a): void;", "}}"], ["trait Tr{n} {{", "    use Other;", "    private $tp = {m};", "    abstract function req();", "    public static function ts() {{", "    {b}", "    }}", "}}"],
           ["#[Attr({m})]", "function attr{n}(#[Sens] $a) {{", "{b}", "}}"], ["function &refret{n}(array &$a, callable $c = null) {{", "{b}", "    return $a;", "}}"], ["function gen{n}() {{", "    $r = yield {m};", "{b}", "    return $r;", "}}"], ["function nev{n}(): never {{ throw new E; }}", "function un{n}(int|float $a, A&B $b): static|null {{}}"],
           ["define('DC{n}', {m});"], ["declare(strict_types=1);"], ["/** doc {m} */", "# hash comment", "// line"]],
    header=["<?php"],
)

SPECS = {"python": PY, "javascript": JS, "typescript": TS, "java": JAVA, "go": GO, "c": C, "php": PHP}


class Rendered:
    def __init__(self):
        self.lines = []
        self.next_marker = 90001
        self.next_n = 1
        self.cur_n = 0
        self.top_markers = []       # markers that belong to unit-level executable statements, in source order
        self.labels = set()


# Template groups that exercise a recorded (open) finding on VALID input.  While the finding is open the
# generator leaves the group out (step-over, counted) so that the search continues behind it; one replay file
# per finding keeps exercising it.  (language, group) -> predicate on the template's text.
def _has(*needles):
    return lambda text: any(n in text for n in needles)


GROUPS = {
    "ts-field-or-index-write": ("typescript", _has("{v}.f = {m};", "{v}[{m}] = {v};", ".h = {v};", "this.x = v", "this.#p = a", "module.exports = ")),
    "ts-destructuring-with-key": ("typescript", _has("{{a: p{n}", "({{a: {v}", "{{b, c = {m}}}")),
    "ts-abstract-class": ("typescript", _has("abstract class")),
    "ts-new-without-arguments": ("typescript", _has("new Date;")),
    "ts-catch-without-binding": ("typescript", _has("}} catch {{")),
    "ts-as-const": ("typescript", _has("as const")),
    "c-enum-value-expression": ("c", _has("enum X{n}")),
    "go-comment-in-type-group": ("go", _has("comment in a type group")),
    "php-namespace": ("php", _has("namespace ")),
}


def _filter(templates, lang, avoid):
    preds = [GROUPS[g][1] for g in avoid if g in GROUPS and GROUPS[g][0] == lang]
    if not preds:
        return list(templates)
    out = []
    for t in templates:
        text = "\n".join(t)
        if not any(p(text) for p in preds):
            out.append(t)
    return out


class Pools:
    def __init__(self, spec, avoid):
        self.simple = _filter(spec.simple, spec.lang, avoid)
        self.compound = _filter(spec.compound, spec.lang, avoid)
        self.decls = _filter(spec.decls, spec.lang, avoid)
        self.top_simple = _filter(spec.top_simple, spec.lang, avoid)
        self.top_compound = _filter(spec.top_compound, spec.lang, avoid)


def _subst(line, r, draw, vars_, st, note_top):
    out = []
    i = 0
    while i < len(line):
        if line.startswith("{{", i):
            out.append("{")
            i += 2
        elif line.startswith("}}", i):
            out.append("}")
            i += 2
        elif line.startswith("{m}", i):
            m = r.next_marker
            r.next_marker += 1
            if note_top:
                r.top_markers.append(m)
            out.append(str(m))
            i += 3
        elif line.startswith("{v}", i):
            out.append(draw(st.sampled_from(vars_)))
            i += 3
        elif line.startswith("{n}", i):
            out.append(str(r.cur_n))
            i += 3
        else:
            out.append(line[i])
            i += 1
    return "".join(out)


_DECL_HEADS = ("def ", "class ", "function", "async ", "@", "export ", "abstract ", "interface ", "enum ", "namespace ",
               "declare ", "type ", "const enum")


def _emit(template, r, spec, pools, draw, st, indent, depth, top):
    """Append the lines of one template instance.  `top`: the statement is a unit-level executable statement,
    so the markers on its own lines (not those of nested bodies) are top markers."""
    r.cur_n = r.next_n
    r.next_n += 1
    my_n = r.cur_n
    is_decl = template[0].lstrip().startswith(_DECL_HEADS)
    for line in template:
        stripped = line.strip()
        if stripped == "{b}":
            extra_indent = line[:len(line) - len(line.lstrip())]
            _body(r, spec, pools, draw, st, indent + extra_indent + "    ", depth + 1)
            r.cur_n = my_n
        else:
            r.lines.append(indent + _subst(line, r, draw, spec.var, st, top and not is_decl))


def _body(r, spec, pools, draw, st, indent, depth):
    n = draw(st.sampled_from([0, 1, 1, 2, 2, 3] if depth < 3 else [0, 1, 1]))
    if n == 0:
        r.labels.add("empty_body")
        if spec.empty_body:
            r.lines.append(indent + spec.empty_body)
        return
    for _ in range(n):
        if depth < 3 and draw(st.sampled_from([0, 1, 2, 3, 4, 5, 6, 7, 8, 9])) < 4:
            r.labels.add("nested_compound" if depth >= 1 else "compound")
            _emit(draw(st.sampled_from(pools.compound)), r, spec, pools, draw, st, indent, depth, False)
        else:
            _emit(draw(st.sampled_from(pools.simple)), r, spec, pools, draw, st, indent, depth, False)


def generate_program(lang, draw, st, avoid=()):
    """Returns (text, top_markers, labels).  `avoid`: names of template GROUPS to leave out (step-overs)."""
    spec = SPECS[lang]
    pools = Pools(spec, avoid)
    r = Rendered()
    for h in spec.header:
        r.lines.append(h.replace("{{", "{").replace("}}", "}"))
    n_items = draw(st.sampled_from([1, 2, 3, 4, 5, 6, 7, 8]))
    for _ in range(n_items):
        k = draw(st.sampled_from([0, 1, 2, 3, 4, 5, 6, 7, 8, 9]))
        has_top = bool(pools.top_simple)
        if k < 3 or not (has_top or spec.wrap_main):
            r.labels.add("decl")
            _emit(draw(st.sampled_from(pools.decls)), r, spec, pools, draw, st, "", 0, False)
        elif spec.wrap_main:
            r.labels.add("wrapped_main")
            op, cl = spec.wrap_main
            r.cur_n = r.next_n
            r.next_n += 1
            my_n = r.cur_n
            ind = ""
            for line in op:
                r.lines.append(_subst(line, r, draw, spec.var, st, False))
                ind = line[:len(line) - len(line.lstrip())] + "    "
            _body(r, spec, pools, draw, st, ind, 1)
            r.cur_n = my_n
            for line in cl:
                r.lines.append(_subst(line, r, draw, spec.var, st, False))
        elif k < 6:
            r.labels.add("top_compound")
            _emit(draw(st.sampled_from(pools.top_compound)), r, spec, pools, draw, st, "", 0, True)
        else:
            r.labels.add("top_simple")
            _emit(draw(st.sampled_from(pools.top_simple)), r, spec, pools, draw, st, "", 0, True)
    for f in spec.footer:
        r.lines.append(f)
    return "\n".join(r.lines) + "\n", r.top_markers, sorted(r.labels)


# ---------------------------------------------------------------------------------------------
# byte-level mutation

MUTATION_OPS = ["delete_range", "insert_token", "transpose", "truncate", "duplicate_line", "splice", "replace_byte",
                "delete_line", "swap_lines", "insert_bytes", "repeat_token"]
QUICK_OPS = ["delete_range", "insert_token", "transpose", "truncate", "duplicate_line", "splice", "replace_byte",
             "delete_line", "swap_lines"]


def _line_spans(data):
    spans = []
    start = 0
    for i, b in enumerate(data):
        if b == 10:
            spans.append((start, i + 1))
            start = i + 1
    if start < len(data):
        spans.append((start, len(data)))
    return spans


def mutate_once(data, lang, draw, st, op, other=None):
    """One mutation of bytes `data`; returns bytes."""
    n = len(data)
    if op == "delete_range":
        if n == 0:
            return data
        i = draw(st.integers(0, n - 1))
        ln = draw(st.integers(1, min(60, n - i)))
        return data[:i] + data[i + ln:]
    if op == "insert_token":
        tok = draw(st.sampled_from(tokens_for(lang))).encode("utf-8")
        i = draw(st.integers(0, n))
        return data[:i] + tok + data[i:]
    if op == "transpose":
        if n < 2:
            return data
        i = draw(st.integers(0, n - 2))
        w = draw(st.integers(1, min(12, (n - i) // 2)))
        return data[:i] + data[i + w:i + 2 * w] + data[i:i + w] + data[i + 2 * w:]
    if op == "truncate":
        if n == 0:
            return data
        return data[:draw(st.integers(0, n - 1))]
    if op in ("duplicate_line", "delete_line", "swap_lines"):
        spans = _line_spans(data)
        if not spans:
            return data
        j = draw(st.integers(0, len(spans) - 1))
        a, b = spans[j]
        if op == "duplicate_line":
            return data[:b] + data[a:b] + data[b:]
        if op == "delete_line":
            return data[:a] + data[b:]
        k = draw(st.integers(0, len(spans) - 1))
        if k == j:
            return data
        (a1, b1), (a2, b2) = sorted([spans[j], spans[k]])
        return data[:a1] + data[a2:b2] + data[b1:a2] + data[a1:b1] + data[b2:]
    if op == "splice":
        if not other:
            return data
        i = draw(st.integers(0, n))
        j = draw(st.integers(0, len(other)))
        return data[:i] + other[j:]
    if op == "replace_byte":
        if n == 0:
            return data
        i = draw(st.integers(0, n - 1))
        b = draw(st.one_of(st.sampled_from(list(b"(){}[];,.:=<>+-*/%&|!?\"'`\\#@$ \n\t0aZ_")), st.integers(32, 126),
                           st.sampled_from(list(b"(){}[];,.:=<>\"' \n")), st.integers(0, 255)))
        return data[:i] + bytes([b]) + data[i + 1:]
    if op == "insert_bytes":
        i = draw(st.integers(0, n))
        bs = draw(st.binary(min_size=1, max_size=6))
        return data[:i] + bs + data[i:]
    if op == "repeat_token":
        tok = draw(st.sampled_from(["(", "[", "{", "-", "!", "a.", "f(", "x+", "if (x) ", "[[", "* ", "not ", "lambda: ", "a = "])).encode()
        k = draw(st.integers(2, 40))
        i = draw(st.integers(0, n))
        return data[:i] + tok * k + data[i:]
    return data


class RandSt:
    """Look-alikes of the few Hypothesis strategies used above, evaluated by rand_draw() with a
    random.Random that Hypothesis supplies (st.randoms(use_true_random=True): seeded from Hypothesis data,
    so a case is still a pure function of the Hypothesis seed).  Reason: Hypothesis's own integers() and
    sampled_from() are skewed towards the ends of the range / the first elements; positions drawn that way
    hit byte 0 in a third of the cases (destroying e.g. `<?php`) and the first templates far too often."""

    @staticmethod
    def integers(a, b):
        return ("i", a, b)

    @staticmethod
    def sampled_from(xs):
        return ("s", xs)

    @staticmethod
    def booleans():
        return ("b",)

    @staticmethod
    def binary(min_size=0, max_size=8):
        return ("bin", min_size, max_size)

    @staticmethod
    def one_of(*alts):
        return ("o", alts)


def rand_draw(rnd):
    def draw(x):
        k = x[0]
        if k == "i":
            return rnd.randint(x[1], x[2])
        if k == "s":
            xs = x[1]
            return xs[rnd.randrange(len(xs))]
        if k == "b":
            return rnd.random() < 0.5
        if k == "bin":
            return bytes(rnd.randrange(256) for _ in range(rnd.randint(x[1], x[2])))
        if k == "o":
            return draw(x[1][rnd.randrange(len(x[1]))])
        raise ValueError(x)
    return draw


def encode_text(data):
    """bytes -> JSON-able {'text': str} or {'b64': str}"""
    try:
        return {"text": data.decode("utf-8")}
    except UnicodeDecodeError:
        import base64
        return {"b64": base64.b64encode(data).decode("ascii")}


def decode_text(case):
    if "b64" in case:
        import base64
        return base64.b64decode(case["b64"])
    return case["text"].encode("utf-8", "surrogateescape")
