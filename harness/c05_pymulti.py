"""C05 helper: multi-file Python projects with imports "from the answer".

A project is {"order": [relpath...], "files": {relpath: scope tree (c05_py format)}}.  Modules only import from
modules that come earlier in `order` (acyclic), a name bound by an import in a scope has no other binding in
that scope, and module stems are unique, so which declaration an imported name denotes is a static fact
(independent of sys.path order and of execution order).

  resolve_project(sources) -> per file, for every import-bound name of every scope: what it denotes
        ("decl", file, name) | ("module", path) | ("unresolvable", file, line)
  runtime_probe(sources)   -> the same facts for module-level names, observed by really importing the project
                              in a fresh CPython (harness self-check of the resolver)
"""
import ast
import json
import os
import subprocess
import sys
import tempfile
import shutil

from harness import c05_py

MALPHABET = ["x", "y", "z", "f", "g"]
MODNAMES = ["ma", "mb", "mc", "md"]


# ---------------------------------------------------------------------------------------------
# static resolver over sources (ast based; shares nothing with lian)

def dotted_of(relpath):
    p = relpath[:-3] if relpath.endswith(".py") else relpath
    parts = p.split("/")
    if parts[-1] == "__init__":
        parts = parts[:-1]
    return ".".join(parts)


def package_of(relpath):
    """dotted package a module lives in ('' for root-level modules); for pkg/__init__.py it is pkg itself."""
    parts = relpath[:-3].split("/")
    if parts[-1] == "__init__":
        return ".".join(parts[:-1])
    return ".".join(parts[:-1])


class ProjectResolver:
    def __init__(self, sources):
        self.sources = sources
        self.modules = {}          # dotted -> relpath of the file (package -> its __init__.py)
        self.dirs = set()
        for rel in sources:
            self.modules[dotted_of(rel)] = rel
            d = os.path.dirname(rel)
            while d:
                self.dirs.add(d)
                d = os.path.dirname(d)
        self.oracles = {rel: c05_py.PyOracle(src, rel) for rel, src in sources.items()}
        self._names_cache = {}

    # -- modules -------------------------------------------------------------------------------
    def absolute(self, importer, module, level):
        """dotted absolute module name of `from <level dots><module> import`."""
        if not level:
            return module or ""
        pkg = package_of(importer).split(".") if package_of(importer) else []
        if not pkg or level - 1 >= len(pkg) + 1:
            return None          # relative import outside a package / beyond the top-level package
        base = pkg[:len(pkg) - (level - 1)]
        if not base:
            return None
        return ".".join(base + ([module] if module else []))

    def module_target(self, dotted):
        """('module', path) for an existing module/package, else None."""
        if dotted in self.modules:
            rel = self.modules[dotted]
            if rel.endswith("/__init__.py"):
                return ("module", rel[:-len("/__init__.py")])
            return ("module", rel)
        if dotted and dotted.replace(".", "/") in self.dirs:
            return ("module", dotted.replace(".", "/"))     # namespace package (no __init__.py)
        return None

    # -- module-level names --------------------------------------------------------------------
    def top_bindings(self, rel):
        """module-level binding statements: [(line, name, extra)] in source order (stars have name '*')."""
        out = []
        for (ln, n, role, ps, extra) in self.oracles[rel].occs:
            if ps.kind == "module" and role in ("def", "star"):
                out.append((ln, n, extra))
        return out

    def names_of(self, rel, _stack=()):
        """all names a module's namespace holds after its body ran (explicit + star-imported)."""
        if rel in self._names_cache:
            return self._names_cache[rel]
        if rel in _stack:
            return set()
        out = set()
        for (ln, n, extra) in self.top_bindings(rel):
            if n == "*":
                tgt = self.absolute(rel, extra[1], extra[3])
                if tgt in self.modules:
                    out |= {k for k in self.names_of(self.modules[tgt], _stack + (rel,)) if not k.startswith("_")}
            else:
                out.add(n)
        if not _stack:
            self._names_cache[rel] = out
        return out

    def lookup(self, rel, name, _stack=()):
        """what module-level `name` of module rel denotes -> (target, trail) ; trail = list of qualifiers
        describing the import chain that was followed."""
        if (rel, name) in _stack:
            return ("unresolvable", rel, 0), ["cyclic"]
        st2 = _stack + ((rel, name),)
        found = None
        for (ln, n, extra) in self.top_bindings(rel):
            if n == name:
                found = (ln, extra)
                break
        if found is not None:
            ln, extra = found
            if isinstance(extra, tuple):
                return self.import_target(rel, ln, extra, st2)
            return ("decl", rel, name), []
        for (ln, n, extra) in self.top_bindings(rel):
            if n == "*":
                tgt = self.absolute(rel, extra[1], extra[3])
                if tgt in self.modules and name in self.names_of(self.modules[tgt]) and not name.startswith("_"):
                    t, trail = self.lookup(self.modules[tgt], name, st2)
                    return t, ["via-star"] + trail
        return None, []

    def star_names(self, rel):
        """names a module gets only through its star imports"""
        explicit = {n for (ln, n, extra) in self.top_bindings(rel) if n != "*"}
        return sorted(self.names_of(rel) - explicit)

    def namespace(self, rel):
        return {n: self.lookup(rel, n)[0] for n in self.names_of(rel)}

    def import_target(self, rel, line, extra, _stack=()):
        """-> (target, trail)"""
        if extra[0] == "import":
            _, name, asname = extra
            trail = ["dotted-import-as"] if (asname and "." in name) else []
            if "." not in name and name in self.modules and \
                    os.path.dirname(self.modules[name]).replace("/__init__.py", "") != os.path.dirname(rel) and \
                    not (self.modules[name].endswith("/__init__.py") and
                         os.path.dirname(os.path.dirname(self.modules[name])) == os.path.dirname(rel)):
                trail.append("plain-import-of-module-in-another-directory")
            if asname:
                return (self.module_target(name) or ("unresolvable", rel, line)), trail
            return (self.module_target(name.split(".")[0]) or ("unresolvable", rel, line)), trail
        _, module, name, level = extra
        base = self.absolute(rel, module, level)
        if base is None:
            return ("unresolvable", rel, line), []
        trail = []
        if level:
            trail = ["from-dots-import" if not module else "relative-import"]
        if base in self.modules:
            src = self.modules[base]
            for (ln2, n2, ex2) in self.top_bindings(src):
                if isinstance(ex2, tuple) and n2 != "*":
                    orig2 = ex2[2] if ex2[0] == "from" else ex2[1].split(".")[-1]
                    if orig2 == name and n2 != name:
                        # lian matches re-exported symbols by their original name
                        trail.append("reexported-under-alias")
                        break
            if name in self.names_of(src) and (src, name) not in _stack:
                t, tr = self.lookup(src, name, _stack)
                if t is not None and t[0] == "unresolvable":
                    t = ("unresolvable", rel, line)
                if src.endswith("__init__.py"):
                    trail.append("via-package-init")
                if t is not None and t != ("decl", src, name):
                    # the exporting module itself imported it
                    aliased = False
                    for (ln, n, ex) in self.top_bindings(src):
                        if n == name and isinstance(ex, tuple):
                            orig = ex[2] if ex[0] == "from" else ex[1].split(".")[-1]
                            aliased = orig != name
                    trail.append("reexported-under-alias" if aliased else "reexported")
                return t, trail + tr
        sub = (base + "." + name) if base else name
        t = self.module_target(sub)
        if t and (base in self.modules or base.replace(".", "/") in self.dirs):
            return t, trail
        return ("unresolvable", rel, line), trail

    # -- per occurrence ------------------------------------------------------------------------
    def import_stmts(self, rel):
        """every import binding of the unit: [(line, local name, owner PScope, target, trail)]"""
        orc = self.oracles[rel]
        out = []
        for (ln, n, role, ps, extra) in orc.occs:
            if role == "def" and isinstance(extra, tuple):
                o, how = orc.owner(ps, n)
                t, trail = self.import_target(rel, ln, extra)
                out.append((ln, n, o, t, trail))
        return out

    def import_bound(self, rel, owner_ps, name, use_line=None, use_scope=None):
        """what (owner scope, name) denotes if its bindings are imports -> (target, qualifiers) or None."""
        orc = self.oracles[rel]
        forms = orc.binding_forms(owner_ps, name)
        if forms == {"import"}:
            mine = [x for x in self.import_stmts(rel) if x[1] == name and x[2] is owner_ps]
            tgts = {x[3] for x in mine}
            if len(tgts) != 1:
                return ("ambiguous", sorted(tgts)), []
            tgt = mine[0][3]
            quals = list(mine[0][4])
            if owner_ps.kind == "func" and use_line is not None and (
                    use_line < min(x[0] for x in mine) or (use_scope is not None and use_scope is not owner_ps)):
                # textually earlier, or in a nested function (analysed before the importing function)
                quals.append("used-before-import")
            others = [x for x in self.import_stmts(rel) if not (x[1] == name and x[2] is owner_ps)]
            star = [(0, n, orc.module, self.lookup(rel, n)[0], []) for n in self.star_names(rel)]
            if any(x[3] == tgt and x[1] != name for x in others + star) and tgt[0] != "unresolvable":
                quals.append("same-target-imported-under-another-name")
            if any(x[1] == name and x[2] is not owner_ps for x in others + star):
                quals.append("same-local-name-imported-in-another-scope")
            # the unit imports the same ORIGINAL name from another module as well (`from a import g as x`,
            # `from b import g as y`): lian files imports per (unit, original name)
            froms = [(n, extra) for (ln, n, role, ps, extra) in orc.occs
                     if role == "def" and isinstance(extra, tuple) and extra and extra[0] == "from"]
            # `import a.b as c` is lowered by lian like `from a import b as c` (fix 352ede2): original name b of module a
            for (ln, n, role, ps, extra) in orc.occs:
                if role == "def" and isinstance(extra, tuple) and extra and extra[0] == "import" and len(extra) > 1 \
                        and isinstance(extra[1], str) and "." in extra[1] and n != extra[1].split(".")[0]:
                    parent, leaf = extra[1].rsplit(".", 1)
                    froms.append((n, ("from", parent, leaf, 0)))
            mine_orig = {(extra[2], extra[1], extra[3]) for n, extra in froms if n == name}
            if any(extra[2] in {o for o, _, _ in mine_orig} and (extra[2], extra[1], extra[3]) not in mine_orig
                   for n, extra in froms):
                quals.append("same-original-name-imported-from-another-module")
            if owner_ps.kind != "module" and (orc.binding_forms(orc.module, name) - {"import"}):
                quals.append("local-name-is-also-a-module-level-symbol")
            return tgt, quals
        if not forms and owner_ps.kind == "module":
            t, trail = self.lookup(rel, name)
            if t is not None:
                quals = list(trail)
                if any(x[1] == name for x in self.import_stmts(rel)):
                    quals.append("same-local-name-imported-in-another-scope")
                return t, quals
        return None

    def expectation(self, rel):
        """-> callable for c05_py.compare_unit(imports=...)"""
        def imports(r):
            res = self.import_bound(rel, r["owner"], r["name"], r["line"], r["scope"])
            if res is None:
                return None
            tgt, quals = res
            return lambda d: check_target(tgt, d, rel, quals)
        return imports


QUAL_PRIORITY = ["via-star", "dotted-import-as", "plain-import-of-module-in-another-directory", "from-dots-import",
                 "via-package-init", "reexported-under-alias", "used-before-import",
                 "same-target-imported-under-another-name", "same-local-name-imported-in-another-scope",
                 "same-original-name-imported-from-another-module", "local-name-is-also-a-module-level-symbol",
                 "reexported", "relative-import"]


def ordered_qualifiers(quals):
    return [q for q in QUAL_PRIORITY if q in quals]


def check_target(tgt, d, rel, quals=()):
    """-> (ok, [expected kinds, most specific first], description)"""
    qs = ordered_qualifiers(quals)
    note = (" [%s]" % ",".join(quals)) if quals else ""
    if tgt[0] == "decl":
        ok = (d["kind"] == "decl" and d["unit"] == tgt[1] and d["owner"][0] == "unit"
              and c05_py.decl_name(d) == tgt[2] and d["op"] not in ("import_stmt", "from_import_stmt"))
        return ok, ["imported:" + q for q in qs] + ["imported-decl"], \
            "the module-level declaration of %s in %s%s" % (tgt[2], tgt[1], note)
    if tgt[0] == "module":
        ok = d["kind"] == "module" and d["path"] in (tgt[1], tgt[1] + "/__init__.py")
        return ok, ["imported:" + q for q in qs] + ["imported-module"], "module %s%s" % (tgt[1], note)
    if tgt[0] == "unresolvable":
        ok = d["kind"] == "unresolved" or (d["kind"] == "decl" and d["unit"] == tgt[1] and d["line"] == tgt[2]
                                            and d["op"] in ("import_stmt", "from_import_stmt"))
        return ok, ["unresolvable-import:" + q for q in qs] + ["unresolvable-import"], \
            "the import statement at %s:%d itself (nothing to import)%s" % (tgt[1], tgt[2], note)
    return True, ["ambiguous"], "ambiguous"


# ---------------------------------------------------------------------------------------------
# runtime ground truth (harness self-check of ProjectResolver)

PROBE = r'''
import sys, json, importlib, types, os
root = os.getcwd()
sys.path.insert(0, root)
sys.dont_write_bytecode = True
mods = json.loads(sys.argv[1])
out = {}
def origin(v):
    if isinstance(v, types.ModuleType):
        f = getattr(v, "__file__", None)
        if f is None:
            p = list(getattr(v, "__path__", []) or [""])[0]
            return ["module", os.path.relpath(p, root)]
        rel = os.path.relpath(f, root)
        if rel.endswith("/__init__.py"):
            rel = rel[:-len("/__init__.py")]
        return ["module", rel]
    if isinstance(v, (types.FunctionType, type)):
        m = sys.modules.get(v.__module__)
        return ["decl", os.path.relpath(m.__file__, root), v.__qualname__]
    if isinstance(v, int):
        return ["value", v]
    return ["other", repr(v)[:40]]
for dotted in mods:
    try:
        m = importlib.import_module(dotted)
    except BaseException as e:
        out[dotted] = {"__error__": "%s: %s" % (type(e).__name__, e)}
        continue
    out[dotted] = {k: origin(v) for k, v in vars(m).items() if not k.startswith("__")}
print(json.dumps(out))
'''


def runtime_probe(sources, timeout=30):
    d = tempfile.mkdtemp(prefix="lianverif-c05rt-")
    try:
        for rel, src in sources.items():
            p = os.path.join(d, rel)
            os.makedirs(os.path.dirname(p), exist_ok=True)
            with open(p, "w") as f:
                f.write(src)
        mods = [dotted_of(rel) for rel in sources]
        env = {"PATH": os.environ.get("PATH", ""), "PYTHONDONTWRITEBYTECODE": "1", "PYTHONHASHSEED": "0"}
        p = subprocess.run([sys.executable, "-S", "-c", PROBE, json.dumps(mods)], cwd=d, env=env,
                           capture_output=True, text=True, timeout=timeout)
        if p.returncode != 0:
            return None, p.stderr[-800:]
        return json.loads(p.stdout.strip().splitlines()[-1]), None
    finally:
        shutil.rmtree(d, ignore_errors=True)


def _is_w(name):
    return len(name) > 1 and name[0] == "w" and name[1:].isdigit()


def crosscheck_runtime(sources, values):
    """values: {int value: (file, name)} of the project's unique module-level assignments.
    -> (list of mismatch strings, number of names compared, number of modules that failed to import)"""
    pr = ProjectResolver(sources)
    obs, err = runtime_probe(sources)
    if obs is None:
        return ["probe failed: %s" % err], 0, 0
    bad, n, failed = [], 0, 0
    for rel in sources:
        o = obs.get(dotted_of(rel), {})
        if "__error__" in o:
            failed += 1
            continue
        ns = pr.namespace(rel)
        for name, tgt in ns.items():
            if _is_w(name):
                continue          # copies of other values
            if name not in o:
                bad.append("%s: %s expected %r but the module has no such attribute" % (rel, name, tgt))
                continue
            got = o[name]
            n += 1
            if tgt[0] == "decl":
                if got[0] == "value":
                    g = values.get(got[1])
                    ok = g == (tgt[1], tgt[2])
                elif got[0] == "decl":
                    ok = (got[1], got[2]) == (tgt[1], tgt[2])
                else:
                    ok = False
            elif tgt[0] == "module":
                ok = got[0] == "module" and got[1] == tgt[1]
            else:
                ok = False    # an unresolvable import would have raised at import time
            if not ok:
                bad.append("%s: %s resolver says %r, CPython says %r" % (rel, name, tgt, got))
        for name in o:
            if name not in ns:
                if o[name][0] == "module" and rel.endswith("__init__.py") and \
                        o[name][1].startswith(os.path.dirname(rel) + "/"):
                    continue      # submodule attribute set by the import system
                bad.append("%s: CPython binds %s (%r) but the resolver does not" % (rel, name, o[name]))
    return bad, n, failed


# ---------------------------------------------------------------------------------------------
# generator

def project_strategy():
    from hypothesis import strategies as st
    name_st = st.sampled_from(MALPHABET)

    @st.composite
    def project(draw):
        nmods = draw(st.integers(1, 3))
        layout = draw(st.sampled_from(["flat", "pkg", "pkg", "sub", "deep"]))
        placements = []
        for i in range(nmods):
            if layout == "flat":
                placements.append("")
            elif layout == "pkg":
                placements.append(draw(st.sampled_from(["", "pk", "pk"])))
            elif layout == "sub":
                placements.append(draw(st.sampled_from(["", "pk", "pk/sub", "pk/sub"])))
            else:
                # three package levels: relative imports with three leading dots become possible
                placements.append(draw(st.sampled_from(["pk", "pk/sub", "pk/sub/low", "pk/sub/low"])) if i else "pk")
        if layout != "flat" and not any(placements):
            placements[0] = "pk"
        files = []      # (relpath, kind)
        for i, d in enumerate(placements):
            files.append(((d + "/" if d else "") + MODNAMES[i] + ".py", "mod"))
        dirs = set()
        for d in placements:
            parts = d.split("/") if d else []
            for k in range(1, len(parts) + 1):
                dirs.add("/".join(parts[:k]))
        dirs = sorted(dirs, key=lambda d: (-len(d), d))
        inits = draw(st.booleans()) or True
        for d in dirs:
            files.append((d + "/__init__.py", "init"))
        files.append(("main.py", "main"))
        order = [f for f, _ in files]
        vcount = [100]
        wcount = [1]
        values = {}
        trees = {}

        def uniq(rel, name):
            vcount[0] += 1
            values[vcount[0]] = (rel, name)
            return vcount[0]

        def import_stmt(rel, idx, avoid):
            """an import of something from an earlier module (or something that does not exist)"""
            earlier = order[:idx]
            if not earlier:
                return None
            tgt = draw(st.sampled_from(earlier))
            dotted = dotted_of(tgt)
            in_pkg = package_of(rel)
            form = draw(st.sampled_from(["import", "import-as", "from", "from", "from-as", "from-as", "star",
                                         "from-mod", "from-mod-as", "missing", "rel", "rel-mod"]))
            if layout == "deep" and in_pkg.count(".") >= 2:
                # importer three packages deep: mostly explicit relative imports (two or three leading dots)
                form = draw(st.sampled_from(["rel", "rel", "rel-mod", form]))
                shallow = [e for e in earlier if not e.endswith("__init__.py") and package_of(e) in ("pk", "pk.sub")]
                if shallow and draw(st.booleans()):
                    tgt = draw(st.sampled_from(shallow))
                    dotted = dotted_of(tgt)
            alias = draw(name_st)
            names = sorted(self_names.get(tgt, [])) or ["x"]
            nm = draw(st.sampled_from(names))
            if tgt.endswith("__init__.py") and in_pkg.startswith(dotted):
                return None            # modules of a package never import from their own package's __init__
            if form == "import":
                if "." in dotted:
                    return {"t": "import", "m": dotted, "as": alias}
                return {"t": "import", "m": dotted, "as": None}
            if form == "import-as":
                return {"t": "import", "m": dotted, "as": alias}
            if form == "from":
                return {"t": "from", "m": dotted, "n": nm, "as": None}
            if form == "from-as":
                return {"t": "from", "m": dotted, "n": nm, "as": alias}
            if form == "star":
                if tgt.endswith("__init__.py"):     # vars(package) also holds its imported submodules
                    return {"t": "from", "m": dotted, "n": nm, "as": None}
                return {"t": "from", "m": dotted, "n": "*", "as": None}
            if form == "missing":
                return {"t": "from", "m": dotted, "n": "q", "as": draw(st.sampled_from([None, alias]))}
            if form in ("from-mod", "from-mod-as"):
                if "." not in dotted:
                    return {"t": "import", "m": dotted, "as": alias if form == "from-mod-as" else None}
                parent, leaf = dotted.rsplit(".", 1)
                return {"t": "from", "m": parent, "n": leaf, "as": alias if form == "from-mod-as" else None}
            # explicit relative imports (only meaningful inside a package)
            if not in_pkg or tgt.endswith("__init__.py"):
                return {"t": "from", "m": dotted, "n": nm, "as": None}
            tp = package_of(tgt)
            mine = in_pkg.split(".")
            theirs = tp.split(".") if tp else []
            if not theirs or theirs != mine[:len(theirs)]:
                return {"t": "from", "m": dotted, "n": nm, "as": None}
            level = len(mine) - len(theirs) + 1
            leaf = dotted.rsplit(".", 1)[-1]
            if form == "rel":
                return {"t": "from", "m": "." * level + leaf, "n": nm, "as": draw(st.sampled_from([None, alias]))}
            return {"t": "from", "m": "." * level, "n": leaf, "as": draw(st.sampled_from([None, alias]))}

        self_names = {}
        for idx, (rel, kind) in enumerate(files):
            body = []

            def bound_here():
                t0 = c05_py.mk_scope("module")
                t0["body"] = body
                return sorted(c05_py.bound_names(t0) - {"*"})

            def function(depth=1):
                ps = draw(st.lists(name_st, max_size=2, unique=True))
                c = c05_py.mk_scope("func", draw(name_st), ps)
                fb = []
                for _ in range(draw(st.integers(1, 4))):
                    q = draw(st.integers(0, 19))
                    if q < 4:
                        im = import_stmt(rel, idx, None)
                        if im and not (im["t"] == "from" and im["n"] == "*"):
                            fb.append(im)
                            continue
                    if q < 6:
                        nm2 = draw(name_st)
                        fb.append({"t": "assign", "n": nm2, "v": uniq(rel + ":f", nm2)})
                    elif q < 8 and depth < 2:
                        fb.append({"t": "def", "s": function(depth + 1)})
                    else:
                        pool = bound_here() + MALPHABET + [dotted_of(o).split(".")[-1] for o in order[:idx]
                                                            if not o.endswith("__init__.py")]
                        local = [x["as"] or (x["n"] if x["t"] == "from" else x["m"]) for x in fb
                                 if x["t"] in ("import", "from")]
                        pool = pool + local + local
                        fb.append({"t": "read", "n": draw(st.sampled_from(pool)),
                                   "f": draw(st.sampled_from(["plain", "call", "attr", "plain"]))})
                c["body"] = fb
                return c

            n = draw(st.integers(2, 5)) if kind != "init" else draw(st.integers(0, 3))
            for _ in range(n):
                r = draw(st.integers(0, 99))
                if r < 25:
                    nm = draw(name_st)
                    body.append({"t": "assign", "n": nm, "v": uniq(rel, nm)})
                elif r < 35:
                    c = c05_py.mk_scope("func", draw(name_st), draw(st.lists(name_st, max_size=1)))
                    c["body"] = [{"t": "read", "n": draw(name_st), "f": "plain"}]
                    body.append({"t": "def", "s": c})
                elif r < 42:
                    c = c05_py.mk_scope("class", draw(name_st))
                    nm2 = draw(name_st)
                    c["body"] = [{"t": "assign", "n": nm2, "v": uniq(rel + ":c", nm2)}]
                    body.append({"t": "class", "s": c})
                else:
                    im = import_stmt(rel, idx, None)
                    if im:
                        body.append(im)
            if kind == "main":
                for _ in range(draw(st.integers(1, 2))):
                    im = import_stmt(rel, idx, None)
                    if im:
                        body.append(im)
            if idx > 0:
                for _ in range(draw(st.integers(0, 2)) + (1 if kind == "main" else 0)):
                    body.append({"t": "def", "s": function()})
                names = bound_here()
                if names:
                    for _ in range(draw(st.integers(1, 4))):
                        body.append({"t": "read", "n": draw(st.sampled_from(names + ["pk"])), "f": "plain"})
            t = c05_py.mk_scope("module")
            t["body"] = body
            trees[rel] = t
            self_names[rel] = set(c05_py.bound_names(t)) - {"*"}
        return {"order": order, "files": trees, "values": {str(k): list(v) for k, v in values.items()}}

    return project()


def fix_project(proj):
    """Make the project statically unambiguous and importable:
      * a name bound by an import (explicit or star) in a scope keeps only its FIRST binding statement there
      * module-level reads only of names bound earlier in the module body (else NameError at import time)
    Returns the number of dropped statements."""
    dropped = 0
    star_names = {}
    init_bound = {}
    for rel in proj["order"]:
        if rel.endswith("/__init__.py"):
            t0 = proj["files"][rel]
            if any(x["t"] == "from" and x["n"] == "*" for x in c05_py.walk_stmts(t0["body"])):
                init_bound[dotted_of(rel)] = None          # a star import: may bind anything
            else:
                init_bound[dotted_of(rel)] = set(c05_py.bound_names(t0))
    pos = {rel: i for i, rel in enumerate(proj["order"])}

    def through_later_init(rel, s):
        """`from P import X` where P's __init__.py comes later in the order and itself binds X: what X denotes
        would depend on the order in which the modules are first imported"""
        if s["t"] != "from" or s["n"] == "*":
            return False
        m = s["m"]
        level = len(m) - len(m.lstrip("."))
        mod = m.lstrip(".")
        if level:
            pkg = package_of(rel).split(".") if package_of(rel) else []
            if level - 1 > len(pkg):
                return False
            base = ".".join(pkg[:len(pkg) - (level - 1)] + ([mod] if mod else []))
        else:
            base = mod
        init = base.replace(".", "/") + "/__init__.py"
        if init not in pos or pos[init] <= pos[rel]:
            return False
        b = init_bound.get(base, ())
        return b is None or s["n"] in b

    for rel in proj["order"]:
        tree = proj["files"][rel]
        # exported names so far, for star imports from this module
        for sc in c05_py.Info(tree).scopes:
            bound = {p: "plain" for p in sc["params"]}
            keep = []

            def bind_names(s):
                t = s["t"]
                if t in ("assign", "aug", "for"):
                    return [(s["n"], "plain")]
                if t in ("def", "class"):
                    return [(s["s"]["name"], "plain")]
                if t == "import":
                    return [(s["as"] or s["m"].split(".")[0], "import")]
                if t == "from":
                    if s["n"] == "*":
                        tgt = s["m"]
                        src = None
                        for r2 in proj["order"]:
                            if dotted_of(r2) == tgt:
                                src = r2
                        return [(n, "import") for n in sorted(star_names.get(src, ()))]
                    return [(s["as"] or s["n"], "import")]
                return []
            for s in sc["body"]:
                names = bind_names(s)
                clash = False
                for n, how in names:
                    if n in bound and (how == "import" or bound[n] == "import"):
                        clash = True
                if s["t"] == "from" and s["n"] == "*" and sc["kind"] != "module":
                    clash = True
                if through_later_init(rel, s):
                    clash = True
                if s["t"] == "read" and sc["kind"] == "module" and s["n"] not in bound:
                    clash = True
                if clash:
                    dropped += 1
                    continue
                for n, how in names:
                    bound.setdefault(n, how)
                if s["t"] == "read" and s.get("w"):
                    bound.setdefault(s["w"], "plain")
                keep.append(s)
            sc["body"] = keep
            if sc["kind"] == "module":
                star_names[rel] = {n for n in bound if not n.startswith("_")}
    return dropped


def render_project(proj):
    """-> {relpath: source}"""
    out = {}
    w = 1
    for rel in proj["order"]:
        src, occs, sl = c05_py.render(proj["files"][rel], wprefix="w", wstart=w)
        w += sum(1 for o in occs if o.form == "w") + 1
        out[rel] = src
    return out


def hoist_function_imports(proj):
    """step-over for the open finding 'a name used before the import statement that binds it in the same function
    is not resolved': move the import statements of every function body to its top.  Returns the number of
    functions whose statement order changed."""
    changed = 0
    for rel in proj["order"]:
        for sc in c05_py.Info(proj["files"][rel]).scopes:
            if sc["kind"] != "func":
                continue
            imps = [s for s in sc["body"] if s["t"] in ("import", "from")]
            rest = [s for s in sc["body"] if s["t"] not in ("import", "from")]
            new = [s for s in sc["body"] if s["t"] in ("global", "nonlocal")] + imps + \
                  [s for s in rest if s["t"] not in ("global", "nonlocal")]
            if new != sc["body"]:
                changed += 1
                sc["body"] = new
    return changed


def labels(pr):
    """-> (labels, nontrivial) for a resolved project"""
    out = set()
    nontrivial = False
    bound_anywhere = {}
    for rel, orc in pr.oracles.items():
        for (ln, n, role, ps, extra) in orc.occs:
            if role in ("def", "param"):
                bound_anywhere.setdefault(n, set()).add((rel, ps.kind, ps.line))
    for rel, orc in pr.oracles.items():
        for (ln, n, role, ps, extra) in orc.occs:
            if role == "star":
                out.add("pymulti:import:from-star")
            elif role == "def" and isinstance(extra, tuple):
                if extra[0] == "import":
                    out.add("pymulti:import:" + ("import-dotted-as" if "." in extra[1] else
                                                 ("import-as" if extra[2] else "import")))
                else:
                    lvl = extra[3]
                    out.add("pymulti:import:" + ("from-relative" if lvl else "from") +
                            ("-as" if n != extra[2] else ""))
                if ps.kind != "module":
                    out.add("pymulti:import:inside-function")
        for r in orc.resolved():
            if r["role"] not in ("use", "usedef"):
                continue
            res = pr.import_bound(rel, r["owner"], r["name"], r["line"])
            if res is None:
                continue
            tgt, quals = res
            out.add("pymulti:use-of-imported:" + tgt[0])
            for q in quals:
                out.add("pymulti:qual:" + q)
            if r["scope"].kind != "module":
                out.add("pymulti:use-of-imported-name-inside-function")
            if len(bound_anywhere.get(r["name"], ())) >= 2:
                nontrivial = True
    out.add("pymulti:files:%d" % len(pr.sources))
    if any("/" in rel for rel in pr.sources):
        out.add("pymulti:layout:package")
    if any(rel.count("/") >= 2 for rel in pr.sources):
        out.add("pymulti:layout:sub-package")
    if any(rel.count("/") >= 3 for rel in pr.sources):
        out.add("pymulti:layout:three-package-levels")
    return out, nontrivial
