"""C03 — coverage-guided byte fuzzing of one frontend with atheris (thorough tier).

usage: python c03_atheris.py <lang> <out.json> <seed> <runs> [max_len]

Runs libFuzzer in-process on `check_single(bytes, lang)`; Python-level coverage of lian.lang.<lang>_parser,
common_parser, lang_analysis and the default event handlers is the gradient (tree-sitter itself is native and
not instrumented).  Discrepancies do not stop the campaign: they are bucketed by signature and written to
<out.json> (smallest inputs first) whenever a new bucket appears and at exit.  Bounded by -runs, not by time.
"""
import json
import os
import sys
import tempfile

HERE = os.path.dirname(os.path.dirname(os.path.abspath(__file__)))


def main():
    lang, out_path, seed, runs = sys.argv[1], sys.argv[2], int(sys.argv[3]), int(sys.argv[4])
    max_len = int(sys.argv[5]) if len(sys.argv) > 5 else 2048
    repo = os.environ.get("LIAN_REPO", "/repo")
    for p in (os.path.join(repo, "src"), HERE):
        if p not in sys.path:
            sys.path.insert(0, p)
    deps = os.path.join(HERE, ".deps")      # pip install --target /verif/.deps atheris  (DESIGN.md section 1)
    if deps not in sys.path:
        sys.path.append(deps)               # last: only what /venv does not have is taken from there
    state = {"execs": 0, "buckets": {}, "outcomes": {}, "status": "running", "lang": lang, "nontrivial": 0}

    def flush():
        tmp = out_path + ".tmp"
        with open(tmp, "w") as f:
            json.dump(state, f, default=str)
        os.replace(tmp, out_path)

    try:
        import atheris
    except Exception as e:      # pragma: no cover — recorded in the evidence by the caller
        state["status"] = "atheris unavailable: %r" % (e,)
        flush()
        return 0

    import builtins
    if not hasattr(builtins, "profile"):
        builtins.profile = lambda f: f
    # instrument only the code under test; everything else (pandas, tree_sitter ...) is imported normally
    with atheris.instrument_imports(include=["lian.lang", "lian.events.default_event_handlers"]):
        import lian.main  # noqa: F401
        import importlib
        importlib.import_module("lian.lang.%s_parser" % lang)
    from harness.props import c03
    from harness import c03_gen as G, common
    seen = set()

    def one(data):
        state["execs"] += 1
        ds, info = c03.check_single(bytes(data), lang, timeout=None)
        o = info.get("outcome")
        state["outcomes"][o] = state["outcomes"].get(o, 0) + 1
        if o in ("rows", "crash", "rejected"):
            h = common.jhash([lang, bytes(data).decode("utf-8", "replace")])
            if h not in seen and len(seen) < 2000000:
                seen.add(h)
                state["nontrivial"] += 1
        new = False
        for s, w in ds:
            k = json.dumps(list(s))
            b = state["buckets"].get(k)
            case = c03.single_case(lang, bytes(data))
            if b is None:
                state["buckets"][k] = {"count": 1, "what": w, "examples": [case]}
                new = True
            else:
                b["count"] += 1
                if common.jsize(case) < common.jsize(b["examples"][0]):
                    b["examples"] = [case]
        if state["execs"] >= runs - 1:
            state["status"] = "finished"
            new = True
        if new or state["execs"] % 1000 == 0:
            flush()

    # the caller owns (and removes) the scratch directory; libFuzzer leaves through _exit, so nothing here may
    # rely on atexit
    scratch = os.environ.get("C03_ATHERIS_SCRATCH") or tempfile.mkdtemp(prefix="lianverif-atheris-")
    corpus_dir = os.path.join(scratch, "corpus")
    os.makedirs(corpus_dir, exist_ok=True)
    files = sorted(G.corpus(include_real_cases=False)[lang], key=lambda kv: (len(kv[1]), kv[0]))
    for i, (rel, data) in enumerate([f for f in files if 0 < len(f[1]) <= max_len][:40]):
        with open(os.path.join(corpus_dir, "seed%03d" % i), "wb") as f:
            f.write(data)
    dict_path = os.path.join(scratch, "tokens.dict")
    with open(dict_path, "w") as f:
        for t in G.tokens_for(lang):
            esc = "".join(ch if 32 < ord(ch) < 127 and ch not in '"\\' else "".join("\\x%02x" % b for b in ch.encode("utf-8")) for ch in t)
            f.write('"%s"\n' % esc)
    argv = [sys.argv[0], "-runs=%d" % runs, "-seed=%d" % seed, "-max_len=%d" % max_len, "-timeout=120", "-rss_limit_mb=4096", "-artifact_prefix=%s/" % scratch,
            "-dict=%s" % dict_path, "-print_final_stats=0", "-verbosity=0", "-close_fd_mask=3", corpus_dir]
    state["runs"] = runs
    flush()
    atheris.Setup(argv, one)
    atheris.Fuzz()
    return 0


if __name__ == "__main__":
    main()
