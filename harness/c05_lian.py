"""C05 helper: run lian (P1 bindings) on a small project and read back, for every identifier occurrence,
the declaration lian bound it to.

A *binding* is read from the P1 symbol-state space (what `semantic_p1/s2space_p1.bundle*` holds): every
statement has `Symbol` rows (name, symbol_id).  symbol_id is

  * the stmt_id of a declaration row of the GIR (variable_decl / parameter_decl / method_decl / class_decl /
    import_stmt / from_import_stmt), possibly of another unit (imported names),
  * a module id (unit id of a file, or id of a directory) for a name bound to an imported module,
  * a negative id when unresolved.

Owning scope of a declaration row = nearest enclosing method_decl / class_decl row following parent_stmt_id in
the GIR (NOT lian's own scope tables: the observation must not depend on the computation under test).
"""
import math
import os

from harness import lianrun

DECL_OPS = {"variable_decl", "parameter_decl", "method_decl", "class_decl", "import_stmt", "from_import_stmt"}
SCOPE_OPS = {"method_decl", "class_decl"}


def _na(v):
    return v is None or (isinstance(v, float) and math.isnan(v)) or v == ""


def _s(v):
    return None if _na(v) else str(v)


def _i(v, default=-1):
    if _na(v):
        return default
    try:
        return int(v)
    except (TypeError, ValueError):
        return default


class Bindings:
    """All P1 bindings of one analysed project."""

    def __init__(self):
        self.units = {}        # relpath -> unit id
        self.unit_path = {}    # unit id -> relpath
        self.modules = {}      # module id (file or dir) -> relpath ('' for the root)
        self.rows = {}         # stmt_id -> row dict
        self.symbols = []      # dicts: unit, stmt_id, line, op, name, symbol_id, row
        self.error = None

    # -- declarations --------------------------------------------------------------------------
    def owner(self, stmt_id):
        """(kind, line, name, stmt_id) of the nearest enclosing method_decl/class_decl, ('unit',0,relpath,0)."""
        r = self.rows.get(stmt_id)
        if r is None:
            return ("?", -1, "?", -1)
        seen = 0
        p = r["parent"]
        while p and p in self.rows and seen < 10000:
            pr = self.rows[p]
            if pr["op"] in SCOPE_OPS:
                if pr["op"] == "method_decl" and pr["name"] == "%unit_init":
                    return ("unit", 0, r["unit"], 0)          # module-level statements live in %unit_init
                if pr["op"] == "method_decl" and pr["name"] == "%class_sinit":
                    p = pr["parent"]                           # class-body statements live in %class_sinit
                    seen += 1
                    continue
                return ("class" if pr["op"] == "class_decl" else "func", pr["line"], pr["name"], p)
            p = pr["parent"]
            seen += 1
        return ("unit", 0, r["unit"], 0)

    def owner_chain(self, stmt_id):
        """list of enclosing scope rows, innermost first: [(kind, line, name, stmt_id)...] ending with unit."""
        out = []
        cur = stmt_id
        for _ in range(10000):
            o = self.owner(cur)
            out.append(o)
            if o[0] in ("unit", "?"):
                break
            cur = o[3]
        return out

    def enclosing_block_owner(self, stmt_id):
        """For block-scoped languages: (op, line) of the statement owning the innermost block that contains the
        row (e.g. ('if_stmt', 7)); ('method_decl', line) / ('unit', 0) when the row sits directly in a body."""
        r = self.rows.get(stmt_id)
        if r is None:
            return ("?", -1)
        p = r["parent"]
        # parent is a block_start id (shared by block_start/block_end) or 0
        while p and p in self.rows:
            pr = self.rows[p]
            if pr["op"] == "block_start":
                p = pr["parent"]
                continue
            return (pr["op"], pr["line"])
        return ("unit", 0)

    def block_chain(self, stmt_id):
        """compound statements whose blocks enclose the row, innermost first: [(op, line)...], up to (excluding)
        the enclosing method_decl / class_decl / unit; second result: True if that enclosing scope is the unit
        (directly or through %unit_init)."""
        out = []
        r = self.rows.get(stmt_id)
        if r is None:
            return out, False
        p = r["parent"]
        n = 0
        while p and p in self.rows and n < 10000:
            pr = self.rows[p]
            n += 1
            if pr["op"] == "block_start":
                p = pr["parent"]
                continue
            if pr["op"] in SCOPE_OPS:
                return out, (pr["op"] == "method_decl" and pr["name"] == "%unit_init")
            out.append((pr["op"], pr["line"]))
            p = pr["parent"]
        return out, True

    def describe(self, symbol_id):
        """-> dict(kind='decl'|'module'|'unresolved'|'dangling', ...)"""
        sid = symbol_id
        if sid in self.rows and self.rows[sid]["op"] in DECL_OPS:
            r = self.rows[sid]
            return {"kind": "decl", "unit": r["unit"], "op": r["op"], "name": r["name"], "alias": r.get("alias"),
                    "line": r["line"], "owner": self.owner(sid), "stmt_id": sid, "attrs": r.get("attrs")}
        if sid in self.modules:
            return {"kind": "module", "path": self.modules[sid], "is_file": sid in self.unit_path}
        if sid < 0:
            return {"kind": "unresolved"}
        if sid in self.rows:
            r = self.rows[sid]
            return {"kind": "dangling", "why": "row %s is not a declaration" % r["op"], "unit": r["unit"],
                    "line": r["line"], "op": r["op"]}
        return {"kind": "dangling", "why": "id %d is no row, no module" % sid}

    # -- occurrences ---------------------------------------------------------------------------
    def at_line(self, unit, line, name):
        return [s for s in self.symbols if s["unit"] == unit and s["line"] == line and s["name"] == name
                and s["op"] not in ("variable_decl",)]

    def at_target(self, unit, target, name):
        """Symbols `name` of statements that write the (unique) variable/field `target`."""
        return [s for s in self.symbols if s["unit"] == unit and s["name"] == name
                and (s["row"].get("target") == target or s["row"].get("field") == target)]


ROW_COLS = ("operation", "name", "alias", "source", "attrs", "target", "field", "receiver_object", "operand",
            "operand2", "condition", "receiver")


def extract(res):
    """Read the bindings out of a finished lianrun.analyze() Result."""
    b = Bindings()
    if res.exc is not None or res.loader is None:
        b.error = "lian raised %r\n%s\n%s" % (res.exc, res.stdout[-1500:], res.stderr[-1500:])
        return b
    ld = res.loader
    from lian.common_structs import Symbol
    root = os.path.realpath(res.inputs)
    table = ld.get_module_symbol_table()
    ws_src = None
    for m in table:
        mid = _i(m.module_id)
        op = _s(getattr(m, "original_path", None))
        if op:
            rel = os.path.relpath(os.path.realpath(op), root)
            b.modules[mid] = rel
    # directories have no original_path: derive from unit_path relative to the workspace copy of the root
    dirs = [(m, _s(m.unit_path)) for m in table if _i(m.module_id) not in b.modules]
    files = [(m, _s(m.unit_path)) for m in table if _i(m.module_id) in b.modules]
    if dirs:
        base = None
        for m, up in files:
            rel = b.modules[_i(m.module_id)]
            if up and up.endswith(rel):
                base = up[:-len(rel)].rstrip("/")
                break
        for m, up in dirs:
            mid = _i(m.module_id)
            if base is not None and up and up.startswith(base):
                b.modules[mid] = up[len(base):].strip("/")
            else:
                b.modules[mid] = "<dir:%s>" % _s(m.symbol_name)
    for u in ld.get_all_unit_info():
        uid = _i(u.module_id)
        rel = b.modules.get(uid) or os.path.relpath(os.path.realpath(_s(u.original_path)), root)
        b.units[rel] = uid
        b.unit_path[uid] = rel
        gir = ld.get_unit_gir(uid)
        if gir is None:
            continue
        for r in gir:
            op = _s(r.operation)
            if op == "block_end":
                continue
            sid = _i(r.stmt_id)
            if sid in b.rows:
                continue
            d = {"unit": rel, "op": op, "parent": _i(r.parent_stmt_id, 0), "line": _i(r.start_row, -2) + 1,
                 "stmt_id": sid}
            for c in ROW_COLS[1:]:
                v = _s(getattr(r, c, None))
                if v is not None:
                    d[c] = v
            d.setdefault("name", None)
            b.rows[sid] = d
    for mid in sorted(ld.get_all_method_ids()):
        sp = ld.get_symbol_state_space_p1(mid)
        if sp is None:
            continue
        for item in sp:
            if not isinstance(item, Symbol):
                continue
            sid = _i(item.stmt_id)
            row = b.rows.get(sid)
            if row is None:
                continue
            b.symbols.append({"unit": row["unit"], "stmt_id": sid, "line": row["line"], "op": row["op"],
                              "name": str(item.name), "symbol_id": _i(item.symbol_id, -1),
                              "source_unit": _i(item.source_unit_id, -1), "row": row, "method": mid})
    return b


def analyze(files, lang, export=False, sub_command="semantic", settings_dir=None, capture_flows=False):
    """Run lian in-process on {relpath: text}; returns (Bindings, Result).  Caller must lianrun.cleanup(result).

    export=False skips Loader.export() (writing ~140 feather files costs 2/3 of a run); everything is then read
    from the loader's memory.  export=True is the unmodified run; main() cross-checks a sample of cases
    between the two and against the exported semantic_p1/s2space_p1 bundles."""
    restore = None
    if not export:
        from lian.util import loader as _loader
        orig = _loader.Loader.export
        _loader.Loader.export = lambda self: None
        restore = lambda: setattr(_loader.Loader, "export", orig)
    try:
        res = lianrun.analyze(files, lang=lang, sub_command=sub_command, capture_flows=capture_flows,
                              settings_dir=settings_dir)
    finally:
        if restore:
            restore()
    return extract(res), res


def triples(bind):
    return sorted(set((s["stmt_id"], s["name"], s["symbol_id"]) for s in bind.symbols))


def bindings_from_files(res):
    """Independent read-back of the same facts from the exported feather bundles (harness self-check):
    -> sorted list of (stmt_id, name, symbol_id)."""
    out = []
    i = 0
    while True:
        df = res.feather("semantic_p1/s2space_p1.bundle%d" % i)
        if df is None:
            break
        for row in df.itertuples():
            if getattr(row, "symbol_or_state", 0) == 0 and isinstance(getattr(row, "name", None), str):
                out.append((int(row.stmt_id), row.name, int(row.symbol_id)))
        i += 1
    return sorted(set(out))
