"""C18 helper: sandbox layouts, safety assertions, filesystem snapshots and the oracle.

Everything a case touches lives in ONE per-case sandbox directory `tempfile.mkdtemp(prefix="lianverif-c18-")`.
lian's `--force` deletes the children of the workspace path, so `assert_safe` refuses to launch anything whose
workspace (lexical or resolved), cwd, HOME, TMPDIR, inputs or symlink targets are not inside that sandbox.
"""
import hashlib
import os
import re
import shutil
import stat
import subprocess
import tempfile

from harness import common, lianrun

PREFIX = "lianverif-c18-"
DEFAULT = "lian_workspace"            # config.DEFAULT_WORKSPACE (re-read from lian at run time, see default_name())
NAMES = {"default": DEFAULT, "custom": "out", "contains": "my_lian_workspace_v2"}
REAL_WS = "real_ws"                   # name of the real directory behind a symlinked workspace

INPS = ["dir", "file", "two"]
PLACES = ["disjoint", "ws_in_input", "input_in_ws", "identical"]
WSOPTS = [("default", "none"), ("default", "symlink"),
          ("custom", "rel"), ("custom", "dot"), ("custom", "abs"), ("custom", "symlink"),
          ("contains", "rel"), ("contains", "dot"), ("contains", "abs"), ("contains", "symlink")]
PRES = ["absent", "empty", "foreign"]
MODES = ["plain", "f", "fq", "inc", "finc"]
VARIANTS = ["lang-mock", "semantic", "run-graph"]

MODE_FLAGS = {"plain": [], "f": ["-f"], "fq": ["-f", "-q"], "inc": ["-inc"], "finc": ["-f", "-inc"]}
VARIANT_ARGS = {"lang-mock": ("lang", []), "semantic": ("semantic", ["--nomock"]),
                "run-graph": ("run", ["--nomock", "--graph"])}

INPUT_TREE = {
    "a.py": "import os\nfrom pkg import b\n\n\ndef f(x):\n    y = x + 1\n    return y\n\n\nz = f(2)\n",
    "pkg/b.py": "def g(a):\n    b = a\n    return b\n",
    "pkg/sub/c.py": "class C:\n    def m(self, v):\n        self.v = v\n        return self.v\n",
    "README.txt": "not a source file\n",
    "data.js": "var x = 1;\n",
}
SINGLE = "def h(q):\n    return q * 2\n\n\nr = h(3)\n"
BIG = "# filler\n" + "".join("v%d = %d\n" % (i, i) for i in range(6000))      # ~ 70 kB, outside every input
SOURCE_EXT = (".py",)

DEPTH_SLACK = 6            # lian_workspace/bak/src/<input name>/... + margin
BYTES_CONST = 1500 * 1000  # analysis results + mock sources of a 3-file project are ~ 0.25 MB


def valid(case):
    inp, place, spell, pre = case["inp"], case["place"], case["spell"], case["pre"]
    if (case["name"], spell) not in WSOPTS:
        return False
    if inp == "file" and place not in ("disjoint", "input_in_ws"):
        return False
    if pre == "absent" and (place not in ("disjoint", "ws_in_input") or spell == "symlink"):
        return False
    if case["mode"] == "plain" and case["variant"] != VARIANTS[0]:
        return False      # lian refuses an unforced non-incremental run before the sub-command matters
    return True


def is_trivial(case):
    """DESIGN: trivial = workspace disjoint from the inputs, not pre-existing, named plainly (absolute custom
    path or no option at all).  A run without --force and without -inc stops before touching anything: it
    is non-trivial only if there is something it could have destroyed."""
    if case["mode"] == "plain" and case["pre"] == "absent":
        return True
    return (case["place"] == "disjoint" and case["pre"] == "absent"
            and (case["name"], case["spell"]) in (("custom", "abs"), ("default", "none")))


def case_key(case):
    return "|".join(str(case[k]) for k in ("inp", "place", "name", "spell", "pre", "mode", "variant"))


# ---------------------------------------------------------------------------------------------
# sandbox

def new_sandbox():
    s = os.path.realpath(tempfile.mkdtemp(prefix=PREFIX))
    base = os.path.realpath(tempfile.gettempdir())
    if not (os.path.dirname(s) == base and os.path.basename(s).startswith(PREFIX)):
        raise RuntimeError("unexpected sandbox location %r" % s)
    return s


def remove_tree(path):
    """Remove a sandbox even if it contains 4 kB-long paths; returns True when it is gone."""
    base = os.path.realpath(tempfile.gettempdir())
    rp = os.path.realpath(path)
    if not (os.path.dirname(rp) == base and os.path.basename(rp).startswith("lianverif-")):
        raise RuntimeError("refusing to remove %r" % path)

    # GNU rm walks with fts/chdir: no recursion or PATH_MAX limit (shutil.rmtree recurses once per level)
    subprocess.run(["rm", "-rf", "--", rp], stdout=subprocess.DEVNULL, stderr=subprocess.DEVNULL)
    if os.path.lexists(rp):
        subprocess.run(["chmod", "-R", "u+rwx", "--", rp], stdout=subprocess.DEVNULL, stderr=subprocess.DEVNULL)
        subprocess.run(["rm", "-rf", "--", rp], stdout=subprocess.DEVNULL, stderr=subprocess.DEVNULL)
    return not os.path.lexists(rp)


def _write(path, text):
    os.makedirs(os.path.dirname(path), exist_ok=True)
    with open(path, "w") as f:
        f.write(text)


def inside(path, root, min_depth=0):
    """path (already normalised/absolute) lies at least min_depth levels below root."""
    if path == root:
        return min_depth <= 0
    if not path.startswith(root + os.sep):
        return False
    return len(path[len(root) + 1:].split(os.sep)) >= min_depth


def build(S, case, default_name=DEFAULT):
    """Create the layout of `case` inside sandbox S.  Returns the layout description (all paths absolute)."""
    j = os.path.join
    area, proj, store, elsewhere = j(S, "area"), j(S, "area", "proj"), j(S, "area", "store"), j(S, "area", "elsewhere")
    for d in (j(S, "home"), j(S, "tmp"), j(S, "cfg"), proj, store, elsewhere):
        os.makedirs(d)
    lianrun.write_settings(j(S, "cfg", "settings"), entry=[{"method_list": ["%unit_init"]}])
    _write(j(S, "cfg", "empty_from_code.yaml"), lianrun.EMPTY_RULES)
    _write(j(area, "bystander.txt"), "do not touch\n")
    _write(j(area, "big.py"), BIG)
    _write(j(proj, "notes.txt"), "notes\n")
    _write(j(proj, "other.py"), "unrelated = 1\n")
    _write(j(elsewhere, "local.py"), "local = 2\n")
    _write(j(store, "precious", "p.py"), "precious = 3\n")

    name, spell, place, inp, pre = case["name"], case["spell"], case["place"], case["inp"], case["pre"]
    N = dict(NAMES, default=default_name)[name]
    symlink = spell == "symlink"
    links = []

    if place == "disjoint":
        D = D_lex = j(proj, "inp")
        lexical = j(proj, N)
        T = j(store, REAL_WS) if symlink else lexical
    elif place == "ws_in_input":
        D = D_lex = j(proj, "inp")
        if symlink:
            lexical, T = j(proj, N), j(D, REAL_WS)
        else:
            lexical = T = j(D, N)
    elif place == "input_in_ws":
        lexical = j(proj, N)
        T = j(store, REAL_WS) if symlink else lexical
        D, D_lex = j(T, "inp"), j(lexical, "inp")
    else:  # identical
        lexical = j(proj, N)
        if symlink:
            D = D_lex = T = j(proj, "inp")
        else:
            D = D_lex = T = lexical
    F = F_lex = j(proj, "single.py")
    if inp == "file" and place == "input_in_ws":
        F, F_lex = j(T, "single.py"), j(lexical, "single.py")

    # inputs
    if inp in ("dir", "two"):
        for rel, text in INPUT_TREE.items():
            _write(j(D, rel), text)
        big_rel = os.path.relpath(j(area, "big.py"), os.path.realpath(D))
        for rel, target in (("alias.py", "a.py"), ("pkg/loop", ".."), ("biglink.py", big_rel)):
            os.symlink(target, j(D, rel))
            links.append(j(D, rel))
    if inp in ("file", "two"):
        _write(F, SINGLE)

    # option text
    if spell == "abs":
        cwd = elsewhere
    elif name == "default":
        cwd = os.path.dirname(lexical)
    else:
        cwd = proj
    if name == "default":
        xarg = None
        xtext = default_name
    elif spell in ("rel", "symlink"):
        xarg = xtext = os.path.relpath(lexical, cwd)
    elif spell == "dot":
        xarg = xtext = j("..", os.path.basename(cwd), os.path.relpath(lexical, cwd))
    else:
        xarg = xtext = lexical
    appended = default_name not in xtext            # main.Lian.set_workspace_dir
    e_app = default_name if appended else ""

    # previous state of the workspace
    if pre != "absent" or place in ("input_in_ws", "identical") or symlink:
        os.makedirs(T, exist_ok=True)
    if pre == "foreign":
        _write(j(T, "keep.txt"), "user file in the workspace directory\n")
        _write(j(T, "old", "keep.py"), "kept = 1\n")
        _write(j(T, e_app, "stale.txt"), "left over\n")
        _write(j(T, e_app, "src", "stale.py"), "stale = 1\n")
        _write(j(T, e_app, "frontend", "junk.bin"), "junk\n")
        # links out of the workspace: a forced clean-up must remove the links, never what they point to
        e_dir = os.path.realpath(j(T, e_app))
        for n, target in (("ext_dir", j(store, "precious")), ("ext_file", j(area, "bystander.txt"))):
            os.symlink(os.path.relpath(target, e_dir), j(e_dir, n))
            links.append(j(e_dir, n))
    if symlink:
        os.symlink(os.path.relpath(T, os.path.dirname(lexical)), lexical)
        links.append(lexical)

    def spell_input(p):
        if spell == "abs":
            return p
        rel = os.path.relpath(p, cwd)
        if spell == "dot" and rel != ".":
            return "." + os.sep + rel
        return rel
    inputs = []
    if inp in ("dir", "two"):
        inputs.append({"arg": spell_input(D_lex), "lex": D_lex, "real": os.path.realpath(D_lex), "kind": "dir"})
    if inp in ("file", "two"):
        inputs.append({"arg": spell_input(F_lex), "lex": F_lex, "real": os.path.realpath(F_lex), "kind": "file"})

    sub, vargs = VARIANT_ARGS[case["variant"]]
    args = [sub, "-l", "python"] + MODE_FLAGS[case["mode"]] + vargs + ["--default-settings", j(S, "cfg", "settings")]
    if xarg is not None:
        args += ["-w", xarg]
    args += [i["arg"] for i in inputs]

    w_lex = os.path.normpath(j(cwd, xtext))
    e_lex = os.path.normpath(j(cwd, xtext, e_app))
    lay = {"S": S, "cwd": cwd, "args": args, "inputs": inputs, "links": links,
           "W_lex": w_lex, "W_real": os.path.realpath(w_lex), "E_lex": e_lex, "E_real": os.path.realpath(e_lex),
           "appended": appended, "force": "-f" in args,
           "env": {"HOME": j(S, "home"), "TMPDIR": j(S, "tmp"), "PYTHONDONTWRITEBYTECODE": "1",
                   "XDG_CACHE_HOME": j(S, "home", ".cache"), "XDG_CONFIG_HOME": j(S, "home", ".config")},
           "empty_from_code": j(S, "cfg", "empty_from_code.yaml")}
    return lay


def assert_safe(lay):
    """Raise unless nothing lian could delete or write, even when mis-targeted by one level, leaves the sandbox."""
    S = lay["S"]
    base = os.path.realpath(tempfile.gettempdir())
    if os.path.realpath(S) != S or os.path.dirname(S) != base or not os.path.basename(S).startswith(PREFIX):
        raise RuntimeError("sandbox %r is not a fresh %s* directory of %s" % (S, PREFIX, base))
    for k in ("W_lex", "W_real", "E_lex", "E_real"):
        p = lay[k]
        if os.path.normpath(p) != p or not os.path.isabs(p) or not inside(p, S, 2):
            raise RuntimeError("%s=%r is not >= 2 levels inside the sandbox %r" % (k, p, S))
        if not inside(os.path.realpath(os.path.dirname(p)), S, 1):
            raise RuntimeError("parent of %s=%r leaves the sandbox" % (k, p))
    for p in (lay["cwd"], lay["env"]["HOME"], lay["env"]["TMPDIR"]):
        if not inside(os.path.realpath(p), S, 1) or not os.path.isdir(p):
            raise RuntimeError("cwd/HOME/TMPDIR %r not inside the sandbox" % p)
    for i in lay["inputs"]:
        for p in (os.path.normpath(os.path.join(lay["cwd"], i["arg"])), i["real"]):
            if not inside(p, S, 1):
                raise RuntimeError("input %r not inside the sandbox" % p)
    for l in lay["links"]:
        if not inside(os.path.realpath(l), S, 1):
            raise RuntimeError("symlink %r points outside the sandbox" % l)
    # the -w text itself, resolved the way lian does it (abspath relative to cwd)
    a = lay["args"]
    if "-w" in a:
        x = os.path.abspath(os.path.join(lay["cwd"], a[a.index("-w") + 1]))
        if not inside(x, S, 2) or not inside(os.path.realpath(x), S, 2):
            raise RuntimeError("-w %r resolves outside the sandbox" % x)


# ---------------------------------------------------------------------------------------------
# snapshots (fd-relative so that paths longer than PATH_MAX are still read)

def snapshot(S):
    """{path relative to S: entry}; entry = ('d', mode) | ('f', size, sha256, mode) | ('l', target) | ('o',).
    Iterative and chdir-based: the runaway copies this check looks for produce trees that are deeper than
    Python's recursion limit and longer than PATH_MAX."""
    snap = {}
    old = os.getcwd()
    os.chdir(S)
    try:
        stack = [["", sorted(os.listdir(".")), 0]]
        while stack:
            frame = stack[-1]
            rel_root, names, idx = frame
            if idx >= len(names):
                stack.pop()
                if stack:
                    os.chdir("..")
                continue
            frame[2] += 1
            n = names[idx]
            rel = rel_root + os.sep + n if rel_root else n
            try:
                st = os.lstat(n)
            except OSError as e:
                snap[rel] = ("?", str(e.errno))
                continue
            m = st.st_mode
            if stat.S_ISLNK(m):
                snap[rel] = ("l", os.readlink(n))
            elif stat.S_ISDIR(m):
                snap[rel] = ("d", stat.S_IMODE(m))
                try:
                    os.chdir(n)
                    stack.append([rel, sorted(os.listdir(".")), 0])
                except OSError as e:
                    snap[rel] = ("?", str(e.errno))
            elif stat.S_ISREG(m):
                h = hashlib.sha256()
                with open(n, "rb") as f:
                    while True:
                        chunk = f.read(1 << 16)
                        if not chunk:
                            break
                        h.update(chunk)
                snap[rel] = ("f", st.st_size, h.hexdigest(), stat.S_IMODE(m))
            else:
                snap[rel] = ("o",)
    finally:
        os.chdir(old)
    return snap


def _under(rel, root_rel):
    return rel == root_rel or rel.startswith(root_rel + os.sep)


def _depth(rel, root_rel):
    if rel == root_rel:
        return 0
    return len(rel[len(root_rel) + 1:].split(os.sep))


# ---------------------------------------------------------------------------------------------
# running

TRACE_RE = re.compile(r"^Traceback \(most recent call last\)", re.M)
EXC_RE = re.compile(r"^([A-Za-z_][\w.]*(?:Error|Exception|Exit|Interrupt|Warning|Iteration)\w*)(?::|$)", re.M)
FRAME_RE = re.compile(r'^  File "([^"]+)", line \d+, in (\S+)', re.M)


def crash_signature(output):
    """None if the run printed no Python traceback, else 'ExcType@module.function' of the innermost lian frame."""
    m = None
    for m in TRACE_RE.finditer(output):
        pass
    if m is None:
        return None
    tail = output[m.start():]
    excs = EXC_RE.findall(tail)
    exc = excs[-1] if excs else "unknown"
    where = "?"
    for path, func in FRAME_RE.findall(tail):
        if "/lian/" in path:
            where = "%s.%s" % (os.path.splitext(os.path.basename(path))[0], func)
    return "%s@%s" % (exc.split(".")[-1], where)


def run_lian(lay, mpl_dir, timeout=300):
    assert_safe(lay)
    env = dict(lay["env"])
    env["MPLCONFIGDIR"] = mpl_dir
    try:
        p = lianrun.run_cli(lay["args"], lay["cwd"], env=env, timeout=timeout, empty_from_code=lay["empty_from_code"])
        return p.returncode, p.stdout
    except subprocess.TimeoutExpired as e:
        out = e.stdout or ""
        if isinstance(out, bytes):
            out = out.decode("utf-8", "replace")
        return "timeout", out


# ---------------------------------------------------------------------------------------------
# oracle

def relation(lay):
    """Placement of the EFFECTIVE workspace directory (what lian writes into and cleans) w.r.t. the inputs."""
    e = lay["E_real"]
    rels = set()
    for i in lay["inputs"]:
        r = i["real"]
        if r == e:
            rels.add("ws-is-input")
        elif i["kind"] == "dir" and inside(e, r, 1):
            rels.add("ws-inside-input")
        elif inside(r, e, 1):
            rels.add("input-inside-ws")
        elif inside(r, lay["W_real"], 0):
            rels.add("input-beside-ws")      # inside the directory the user named, outside <X>/lian_workspace
    for k in ("ws-inside-input", "ws-is-input", "input-inside-ws", "input-beside-ws"):
        if k in rels:
            return k
    return "disjoint"


def force_flag(case):
    return {"plain": "noforce", "f": "force", "fq": "force", "inc": "inc", "finc": "force+inc"}[case["mode"]]


def short(entry):
    if entry is None:
        return "absent"
    if entry[0] == "f":
        return "file(%d bytes, %s)" % (entry[1], entry[2][:10])
    if entry[0] == "l":
        return "link->%s" % re.sub(r"/\S*lianverif-c18-[^/]*", "<sandbox>", entry[1])
    return {"d": "dir", "o": "other", "?": "unreadable"}[entry[0]]


def oracle(ID, case, lay, before, after, code, output, baseline_crash):
    """-> list of (signature, what).  baseline_crash: callable () -> crash signature of the same command and
    flags on the trivial placement (used to tell a crash caused by the placement from a feature that always
    crashes)."""
    S = lay["S"]
    out = []
    rel_w = os.path.relpath(lay["W_real"], S)
    rel_e = os.path.relpath(lay["E_real"], S)
    rel_bak = os.path.join(rel_e, "bak")
    place = relation(lay)
    ff = force_flag(case)
    force = lay["force"]

    via = "symlinked" if lay["W_lex"] != lay["W_real"] else "direct"

    def sig(clause):
        return (ID, place, via, ff, clause)

    def diff(paths):
        bad = []
        for p in sorted(paths):
            if before.get(p) != after.get(p):
                bad.append(p)
        return bad

    def show(paths, n=4):
        return "; ".join("%s: %s -> %s" % (p if len(p) < 160 else p[:157] + "...", short(before.get(p)), short(after.get(p)))
                         for p in paths[:n]) + (" (+%d more)" % (len(paths) - n) if len(paths) > n else "")

    allp = set(before) | set(after)

    # (1) nothing outside the directory the user named as workspace changes, appears or disappears
    bad = diff(p for p in allp if not _under(p, rel_w))
    if bad:
        appeared = [p for p in bad if p not in before]
        gone = [p for p in bad if p not in after]
        kind = "created" if appeared and len(appeared) == len(bad) else "deleted" if gone and len(gone) == len(bad) else "changed"
        out.append((sig("1-outside-" + kind), "outside the workspace %s: %s" % (rel_w, show(bad))))

    # (2) inputs stay byte-identical (inputs inside the workspace may go when --force is given)
    input_paths = set()
    for i in lay["inputs"]:
        r = os.path.relpath(i["real"], S)
        input_paths.update(p for p in before if _under(p, r))
    bad = diff(p for p in input_paths if not (force and _under(p, rel_w)))
    bad = [p for p in bad if _under(p, rel_w)]       # outside W: already reported by clause 1
    if bad:
        out.append((sig("2-input-altered"), "input inside the workspace altered without --force: %s" % show(bad)))

    # (3) without --force nothing that existed in the workspace directory is deleted
    if not force:
        gone = sorted(p for p in before if _under(p, rel_w) and not _under(p, rel_bak)
                      and (p not in after or after[p][0] != before[p][0]))
        if gone:
            out.append((sig("3-unforced-delete"), "deleted without --force: %s" % show(gone)))

    # (4) bounded copying
    eligible_n = eligible_b = 0
    in_depth = 1
    for i in lay["inputs"]:
        r = os.path.relpath(i["real"], S)
        parent = os.path.dirname(r)
        for p, e in before.items():
            if e[0] == "f" and _under(p, r) and p.lower().endswith(SOURCE_EXT):
                eligible_n += 1
                eligible_b += e[1]
                in_depth = max(in_depth, _depth(p, parent))
    rel_src = os.path.join(rel_e, "src")
    new_src = [p for p, e in after.items() if e[0] == "f" and _under(p, rel_src) and before.get(p) != e]
    new_src_b = sum(after[p][1] for p in new_src)
    depth_before = max([_depth(p, rel_w) for p in before if _under(p, rel_w)] or [0])
    depth_after = max([_depth(p, rel_w) for p in after if _under(p, rel_w)] or [0])
    bytes_before = sum(e[1] for p, e in before.items() if e[0] == "f" and _under(p, rel_w))
    bytes_after = sum(e[1] for p, e in after.items() if e[0] == "f" and _under(p, rel_w))
    runaway = []
    if depth_after > depth_before + in_depth + DEPTH_SLACK:
        runaway.append("directory depth under the workspace %d (inputs are %d deep)" % (depth_after, in_depth))
    if len(new_src) > eligible_n or new_src_b > eligible_b:
        runaway.append("%d files / %d bytes written under src/ for %d eligible input files / %d bytes"
                       % (len(new_src), new_src_b, eligible_n, eligible_b))
    if bytes_after > 2 * bytes_before + eligible_b + BYTES_CONST:
        runaway.append("%d bytes under the workspace (before: %d, inputs: %d)" % (bytes_after, bytes_before, eligible_b))
    crash = crash_signature(output) if isinstance(output, str) else None
    if runaway:
        out.append((sig("4-runaway-copy"), "; ".join(runaway) + ("; ended with " + crash if crash else "")))
    elif code == "timeout":
        out.append((sig("4-timeout"), "no result within the time limit"))
    elif crash is not None and crash != baseline_crash():
        out.append((sig("4-crash-" + crash), "unhandled exception caused by the placement: %s (the same command on a "
                    "disjoint fresh workspace ends with: %s)" % (crash, baseline_crash())))
    stats = {"new_src_files": len(new_src), "eligible": eligible_n, "depth_after": depth_after,
             "bytes_after": bytes_after, "crash": crash, "relation": place}
    return out, stats
