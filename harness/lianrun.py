"""Drivers for lian (DESIGN.md 2.4): lower() in-process, analyze() in-process full pipeline,
run_cli() in a subprocess."""
import builtins
import contextlib
import copy
import io
import json
import os
import shutil
import subprocess
import sys
import tempfile
import types

if not hasattr(builtins, "profile"):
    builtins.profile = lambda f: f

from harness import common

LANG_FILE = {"python": "a.py", "javascript": "a.js", "typescript": "a.ts", "java": "A.java", "go": "a.go",
             "c": "a.c", "php": "a.php", "ruby": "a.rb", "llvm": "a.ll", "smali": "a.smali"}
ALL_LANGS = ["c", "go", "java", "javascript", "php", "python", "typescript"]

_state = {"inited": False, "scratch": None, "snapshot": None}


def _import():
    import lian.main  # noqa: F401  (sets pandas options, builtins.profile)
    from lian.config import lang_config, config
    from lian.args_parser import ArgsParser
    from lian.events.event_manager import EventManager
    from lian.lang.lang_analysis import GIRParser
    return lang_config, config, ArgsParser, EventManager, GIRParser


def scratch_dir():
    if _state["scratch"] is None or not os.path.isdir(_state["scratch"]) or _state.get("pid") != os.getpid():
        _state["scratch"] = tempfile.mkdtemp(prefix="lianverif-%d-" % os.getpid())
        _state["pid"] = os.getpid()
        import atexit
        d = _state["scratch"]
        pid = os.getpid()
        atexit.register(lambda: os.getpid() == pid and shutil.rmtree(d, ignore_errors=True))
    return _state["scratch"]


def cleanup_scratch():
    d = _state.get("scratch")
    if d and _state.get("pid") == os.getpid():
        shutil.rmtree(d, ignore_errors=True)
        _state["scratch"] = None


def default_options(langs):
    lang_config, config, ArgsParser, EventManager, GIRParser = _import()
    opts = ArgsParser().obtain_default_options()
    opts.lang = list(langs)
    opts.quiet = True
    opts.debug = False
    opts.strict_parse_mode = False
    opts.event_handlers = []
    lang_config.update_lang_extensions(lang_config.LANG_TABLE, opts.lang)
    return opts


def lower(text, lang, fname=None, start_id=120, module_id=101, event_manager=None, raw=False):
    """Lower one source text with the real frontend, event handlers and flattening.
    Returns (next_id, rows or None).  Exceptions (including SystemExit) propagate to the caller."""
    lang_config, config, ArgsParser, EventManager, GIRParser = _import()
    opts = default_options(ALL_LANGS)
    em = event_manager or EventManager(opts)
    d = scratch_dir()
    path = os.path.join(d, fname or LANG_FILE[lang])
    if isinstance(text, bytes):
        with open(path, "wb") as f:
            f.write(text)
    else:
        with open(path, "w", encoding="utf-8", errors="surrogateescape") as f:
            f.write(text)
    unit_info = types.SimpleNamespace(original_path=path, unit_path=path, module_id=module_id, lang=lang)
    gp = GIRParser(opts, em, None, d)
    return gp.deal_with_file_unit(start_id, unit_info, path, lang_config.LANG_TABLE)


# ---------------------------------------------------------------------------------------------
# full pipeline in-process

EMPTY_RULES = "[]\n"


def write_settings(dirpath, entry=None, source=None, sink=None, propagation=None):
    """Write a small settings directory.  Arguments are YAML texts (or python objects dumped as YAML)."""
    import yaml
    os.makedirs(dirpath, exist_ok=True)

    def dump(x, default):
        if x is None:
            return default
        if isinstance(x, str):
            return x
        return yaml.safe_dump(x, sort_keys=False)
    files = {"entry.yaml": dump(entry, EMPTY_RULES), "source.yaml": dump(source, EMPTY_RULES),
             "sink.yaml": dump(sink, EMPTY_RULES), "propagation.yaml": dump(propagation, EMPTY_RULES)}
    for n, t in files.items():
        with open(os.path.join(dirpath, n), "w") as f:
            f.write(t)
    return dirpath


def _module_snapshot():
    """Deep snapshot of the plain-data module-level attributes of every loaded lian.* module."""
    snap = {}
    for name, mod in list(sys.modules.items()):
        if not (name == "lian" or name.startswith("lian.")) or mod is None:
            continue
        attrs = {}
        for k, v in vars(mod).items():
            if k.startswith("__"):
                continue
            if isinstance(v, (int, str, float, bool, type(None))) and not isinstance(v, type):
                attrs[k] = v
            elif isinstance(v, (list, dict, set)):
                try:
                    attrs[k] = copy.deepcopy(v)
                except Exception:
                    pass
        snap[name] = attrs
    return snap


def _module_restore(snap):
    for name, attrs in snap.items():
        mod = sys.modules.get(name)
        if mod is None:
            continue
        for k, v in attrs.items():
            cur = getattr(mod, k, None)
            if isinstance(v, (list, dict, set)):
                # restore in place: other modules hold references (e.g. lang_analysis.EXTENSIONS_LANG)
                if isinstance(cur, list) and isinstance(v, list):
                    cur[:] = copy.deepcopy(v)
                elif isinstance(cur, dict) and isinstance(v, dict):
                    cur.clear()
                    cur.update(copy.deepcopy(v))
                elif isinstance(cur, set) and isinstance(v, set):
                    cur.clear()
                    cur.update(v)
                else:
                    setattr(mod, k, copy.deepcopy(v))
            else:
                if cur is not v and cur != v:
                    setattr(mod, k, v)


class Result:
    """Handle on one finished in-process analysis."""

    def __init__(self, lian, workspace, inputs, stdout, stderr, exc, flows):
        self.lian = lian
        self.workspace = workspace      # .../lian_workspace
        self.inputs = inputs
        self.stdout = stdout
        self.stderr = stderr
        self.exc = exc
        self.flows = flows
        self.loader = lian.loader if lian is not None else None

    # convenience accessors -------------------------------------------------------------------
    def units(self):
        """[(unit_id, original relative path, lang)] of analysed source units."""
        out = []
        for info in self.loader.get_all_unit_info():
            out.append(info)
        return out

    def gir(self, unit_id):
        return self.loader.get_unit_gir(unit_id)

    def feather(self, rel):
        import pandas as pd
        p = os.path.join(self.workspace, rel)
        if not os.path.exists(p):
            return None
        return pd.read_feather(p)


_FROM_CODE_EMPTY = {}


def _empty_rule_file():
    d = scratch_dir()
    p = os.path.join(d, "empty_from_code.yaml")
    if not os.path.exists(p):
        with open(p, "w") as f:
            f.write(EMPTY_RULES)
    return p


def analyze(files, settings_dir=None, lang="python", sub_command="run", enable_p2=False, extra_args=(),
            workdir=None, capture_flows=True, keep_from_code_rules=False, quiet=True, inputs=None):
    """Run lian in-process on a scratch project.

    files: {relative path: text}.  Returns a Result; Result.exc holds an escaped exception (SystemExit too).
    The scratch project lives under workdir (default: a fresh sub-directory of this process' scratch dir);
    the caller removes it with Result.cleanup() or by cleaning the scratch dir."""
    import lian.main as lmain
    from lian import common_structs
    from lian.config import config
    if _state["snapshot"] is None:
        _state["snapshot"] = _module_snapshot()
    _module_restore(_state["snapshot"])

    base = workdir or tempfile.mkdtemp(prefix="proj-", dir=scratch_dir())
    src = os.path.join(base, "in")
    os.makedirs(src, exist_ok=True)
    for rel, text in files.items():
        p = os.path.join(src, rel)
        os.makedirs(os.path.dirname(p), exist_ok=True)
        with open(p, "w", encoding="utf-8") as f:
            f.write(text)
    ws = os.path.join(base, "ws")
    if settings_dir is None:
        settings_dir = write_settings(os.path.join(base, "settings"))
    argv = ["lian", sub_command, "-l", lang, "-f", "-w", ws, "--nomock", "--default-settings", settings_dir]
    if quiet:
        argv.append("-q")
    if enable_p2:
        argv.append("--enable-p2")
    argv.extend(extra_args)
    if inputs is None:
        argv.append(src)
    else:
        argv.extend(os.path.join(src, i) for i in inputs)

    if not keep_from_code_rules:
        config.TAINT_SOURCE_FROM_CODE = _empty_rule_file()
        config.TAINT_SINK_FROM_CODE = _empty_rule_file()

    flows_box = []
    restore = []
    if capture_flows:
        from lian.taint import taint_analysis as ta
        orig_find = ta.TaintAnalysis.find_flows

        def rec_find(self, *a, **k):
            r = orig_find(self, *a, **k)
            try:
                flows_box.append(r)
            except Exception:
                pass
            return r
        ta.TaintAnalysis.find_flows = rec_find
        restore.append(lambda: setattr(ta.TaintAnalysis, "find_flows", orig_find))

    out, err = io.StringIO(), io.StringIO()
    exc = None
    lian_obj = None
    old_argv = sys.argv
    old_cwd = os.getcwd()
    sys.argv = argv
    try:
        os.chdir(base)
        with contextlib.redirect_stdout(out), contextlib.redirect_stderr(err):
            lian_obj = lmain.Lian()
            lian_obj.run()
    except BaseException as e:   # SystemExit included: error_and_quit
        if isinstance(e, KeyboardInterrupt):
            raise
        exc = e
    finally:
        sys.argv = old_argv
        os.chdir(old_cwd)
        for r in restore:
            r()
    res = Result(lian_obj, os.path.join(ws, "lian_workspace"), src, out.getvalue(), err.getvalue(), exc, flows_box)
    res.base = base
    res.argv = argv
    return res


def cleanup(res):
    shutil.rmtree(getattr(res, "base", ""), ignore_errors=True)


# ---------------------------------------------------------------------------------------------
# subprocess driver

LAUNCHER = r'''
import sys, os
sys.path.insert(0, os.environ["LIAN_SRC"])
import lian.main as m
from lian.config import config
if os.environ.get("LIAN_EMPTY_FROM_CODE"):
    config.TAINT_SOURCE_FROM_CODE = os.environ["LIAN_EMPTY_FROM_CODE"]
    config.TAINT_SINK_FROM_CODE = os.environ["LIAN_EMPTY_FROM_CODE"]
sys.argv = ["lian"] + sys.argv[1:]
m.main()
'''


def run_cli(args, cwd, env=None, timeout=600, empty_from_code=True, hashseed="0"):
    """Run `lian <args>` in a fresh interpreter.  Returns CompletedProcess (stdout+stderr merged, text)."""
    e = dict(os.environ)
    e.pop("PYTHONPATH", None)
    e["LIAN_SRC"] = common.REPO_SRC
    e["PYTHONHASHSEED"] = str(hashseed)
    if empty_from_code:
        p = os.path.join(cwd, ".empty_from_code.yaml") if not isinstance(empty_from_code, str) else empty_from_code
        if not isinstance(empty_from_code, str):
            with open(p, "w") as f:
                f.write(EMPTY_RULES)
        e["LIAN_EMPTY_FROM_CODE"] = p
    if env:
        e.update(env)
    return subprocess.run([common.PY, "-c", LAUNCHER] + list(args), cwd=cwd, env=e, timeout=timeout,
                          stdout=subprocess.PIPE, stderr=subprocess.STDOUT, text=True, errors="replace")
