"""Generator of small multi-file Python projects with labelled call sites (property C07).

Every call expression sits on its own line; `kinds["file:line"] = [kind, via]` says how the callee of that
line is reached (the generator's knowledge, used only to name the root-cause class of a missing edge).

  kind : what is called / through what kind of value (direct, constructor, method, inherited-method,
         callback-positional, returned-closure, stored-list, recursion, ...)
  via  : how the named entity of that line is reached from the calling module:
         local (defined in the same module / a local value), from-import, module-attribute (import m; m.f)

Termination by construction: entities are numbered in definition order (helper modules first) and a body
only references entities with a smaller number; `self.<m>` calls only go to method names that are smaller
in the fixed order of method names; recursion is bounded by a depth argument.

The generator is written against a tiny `Chooser` interface so that it runs under Hypothesis (`projects()`)
and under a plain random.Random for development (`random_project`).
"""
import random

METHOD_NAMES = ["ma", "mb", "mc", "md"]

# kinds that belong to the property's enumerated list ("core") and further kinds ("extended")
CORE_KINDS = [
    "direct", "nested-direct", "constructor", "constructor-inherited-init", "method", "inherited-method",
    "overriding-method", "self-method", "self-inherited-method", "method-on-param", "method-on-returned",
    "callback-positional", "callback-keyword", "callback-keyword-only", "callback-kwargs-call", "stored-global", "callback-bound-method", "returned-closure", "returned-function",
    "returned-function-local", "returned-param", "stored-variable", "stored-list", "stored-list-read", "stored-dict",
    "stored-field", "stored-field-self", "stored-class", "callback-constructor", "method-on-field", "method-on-self-field",
    "method-on-returned-self", "stored-list-loop", "stored-dict-loop", "method-on-list-element", "cond-alias", "recursion", "mutual-recursion", "recursive-method", "recursion-callback",
]
EXT_KINDS = [
    "self-dispatch-subclass", "self-dispatch-noinit-subclass", "self-dispatch-explicit-init-subclass",
    "self-dispatch-chained-subclass", "self-dispatch-indirect-entry-subclass", "diamond-init", "diamond-class-attr", "super-init", "super-method", "explicit-base-init", "closure-captured", "default-param", "staticmethod",
    "classmethod", "lambda", "class-attr-method", "diamond-method", "stored-list-append", "callback-star-args",
    "callback-kwargs", "callback-star-call",
]
ALL_KINDS = CORE_KINDS + EXT_KINDS
VIAS = ["local", "from-import", "from-import-pkg", "from-import-rel", "module-attribute", "module-attribute-class", "module-attribute-base",
        "module-attribute-value"]


class Chooser:
    """Hypothesis-backed chooser."""

    def __init__(self, draw):
        from hypothesis import strategies as st
        self._draw = draw
        self._st = st

    def int(self, lo, hi):
        return self._draw(self._st.integers(lo, hi))

    def pick(self, seq):
        seq = list(seq)
        return seq[self._draw(self._st.integers(0, len(seq) - 1))]

    def chance(self, pct):
        return self._draw(self._st.integers(0, 99)) < pct


class RandomChooser:
    def __init__(self, seed):
        self.r = random.Random(seed)

    def int(self, lo, hi):
        return self.r.randint(lo, hi)

    def pick(self, seq):
        seq = list(seq)
        return seq[self.r.randrange(len(seq))]

    def chance(self, pct):
        return self.r.randrange(100) < pct


class Line:
    __slots__ = ("text", "kind", "via")

    def __init__(self, text, kind=None, via=None):
        self.text = text
        self.kind = kind
        self.via = via


class Ent:
    def __init__(self, idx, mod, name, typ, **kw):
        self.idx = idx
        self.mod = mod
        self.name = name
        self.typ = typ
        self.__dict__.update(kw)


class Mod:
    def __init__(self, name, rank, counter=None, pkg=None):
        self.name = name
        self.pkg = pkg                       # None or the package directory the module lives in
        self.file = (pkg + "/" if pkg else "") + name + ".py"
        self.impname = (pkg + "." if pkg else "") + name
        self.rank = rank
        self._shared = counter if counter is not None else [0]
        self.imports = {}        # key -> (style, local name)
        self.import_lines = []
        self.body = []           # Line
        self.ents = []
        self.counter = 0

    def fresh(self, prefix):
        # names are unique in the whole project (a from-import never shadows a local definition)
        self._shared[0] += 1
        return "%s%d" % (prefix, self._shared[0])


class Scope:
    """Where statements are being emitted."""

    def __init__(self, gen, mod, max_idx, indent, out, intvar, self_cls=None, method_name=None, depth=0,
                 at_module_level=False):
        self.gen = gen
        self.mod = mod
        self.max_idx = max_idx
        self.indent = indent
        self.out = out
        self.intvar = intvar
        self.self_cls = self_cls
        self.method_name = method_name
        self.depth = depth
        self.at_module_level = at_module_level
        self.last = None      # last int-valued result variable

    def emit(self, text, kind=None, via=None):
        self.out.append(Line("    " * self.indent + text, kind, via))

    def sub(self, extra_indent=1):
        s = Scope(self.gen, self.mod, self.max_idx, self.indent + extra_indent, self.out, self.intvar, self.self_cls,
                  self.method_name, self.depth + 1, self.at_module_level)
        return s


class Gen:
    def __init__(self, ch, avoid=(), extended=True, max_files=3, size=None, no_classes=False):
        self.ch = ch
        # avoid: set of (kind or '*', via or '*') the generator must not emit (open known findings)
        self.avoid = set(tuple(a) for a in avoid)
        self.extended = extended
        self.max_files = max_files
        self.mods = []
        self.ents = []
        self.stepped = {}        # "kind/via" -> count
        self.self_calls = []     # {"line": Line, "cls": lexical class, "name": method name, "method": enclosing method}
        self.frozen_names = set()   # method names that must not become targets of further self-calls (see below)
        self.indirect_entries = set()   # (id(definer class), method name) entered as K.m(o, x) or through a bound-method value
        self.size = size
        self.no_classes = no_classes      # step-over for the --enable-p2 finding: programs without any class

    # -- bookkeeping ------------------------------------------------------------------------
    def avoided(self, kind, via="local"):
        for k, v in self.avoid:
            if (k == "*" or k == kind) and (v == "*" or v == via):
                key = "%s/%s" % (k, v)
                self.stepped[key] = self.stepped.get(key, 0) + 1
                return True
        if not self.extended and kind in EXT_KINDS:
            return True
        return False

    def new_ent(self, mod, name, typ, **kw):
        e = Ent(len(self.ents), mod, name, typ, **kw)
        self.ents.append(e)
        mod.ents.append(e)
        return e

    def visible(self, scope, typ, pred=None):
        out = []
        for e in self.ents:
            if e.idx >= scope.max_idx or e.typ != typ:
                continue
            if getattr(e, "nested_in", None) is not None:
                continue
            if pred is not None and not pred(e):
                continue
            out.append(e)
        return out

    def ref(self, scope, ent, value_use=False, as_base=False, mod_value=False):
        """-> (expression, via) naming module-level entity `ent` from scope's module, adding an import if needed.
        value_use: the name is used as a value (argument, container element, ...) - always a plain name then, unless
        mod_value asks for the attribute form (g = m.f)."""
        mod = scope.mod
        if ent.mod is mod:
            return ent.name, "local"
        key = (ent.mod.name, ent.name)
        mkey = (ent.mod.name, None)
        if ent.typ == "class":
            via_mod = "module-attribute-base" if as_base else "module-attribute-class"
        elif mod_value:
            via_mod = "module-attribute-value"
        else:
            via_mod = "module-attribute"
        attr_ok = (not value_use) or mod_value
        if key in mod.imports:
            style, local, via_from = mod.imports[key]
            return local, via_from
        if mkey in mod.imports and attr_ok and not self.avoided_via(via_mod):
            style, local = mod.imports[mkey]
            return "%s.%s" % (local, ent.name), via_mod
        # choose a style
        styles = ["from", "from", "from-as"]
        if attr_ok:
            styles = styles + (["use-module"] * 4 if mkey in mod.imports else ["import", "import", "import-as"])
        style = self.ch.pick(styles)
        if style in ("import", "import-as", "use-module") and self.avoided_via(via_mod):
            style = "from"
        if style == "use-module":
            return "%s.%s" % (mod.imports[mkey][1], ent.name), via_mod
        target = ent.mod
        relative = bool(target.pkg) and target.pkg == mod.pkg and self.ch.chance(60)
        from_mod = ("." + target.name) if relative else target.impname
        via_from = "from-import-rel" if relative else ("from-import-pkg" if target.pkg else "from-import")
        if style in ("from", "from-as") and via_from != "from-import" and self.avoided_via(via_from):
            # packaged helpers cannot be named without a dotted import; fall back to the absolute form
            relative, from_mod, via_from = False, target.impname, "from-import-pkg"
        if style == "from":
            mod.imports[key] = (style, ent.name, via_from)
            mod.import_lines.append("from %s import %s" % (from_mod, ent.name))
            return ent.name, via_from
        if style == "from-as":
            local = "%s_%s" % (ent.name, target.name[-1])
            mod.imports[key] = (style, local, via_from)
            mod.import_lines.append("from %s import %s as %s" % (from_mod, ent.name, local))
            return local, via_from
        if style == "import":
            mod.imports[mkey] = (style, target.name)
            if target.pkg:
                mod.import_lines.append("from %s import %s" % (target.pkg, target.name))
            else:
                mod.import_lines.append("import %s" % target.name)
            return "%s.%s" % (target.name, ent.name), via_mod
        local = "al_" + target.name
        mod.imports[mkey] = (style, local)
        if target.pkg:
            mod.import_lines.append("from %s import %s as %s" % (target.pkg, target.name, local))
        else:
            mod.import_lines.append("import %s as %s" % (target.name, local))
        return "%s.%s" % (local, ent.name), via_mod

    def avoided_via(self, via):
        for k, v in self.avoid:
            if k == "*" and v == via:
                key = "%s/%s" % (k, v)
                self.stepped[key] = self.stepped.get(key, 0) + 1
                return True
        return False

    def arg(self, scope):
        if scope.last is not None and self.ch.chance(30):
            return scope.last
        if scope.intvar is not None and self.ch.chance(60):
            return scope.intvar
        return str(self.ch.int(1, 9))

    def target(self, scope, prefix="v"):
        v = scope.mod.fresh(prefix)
        return v

    # -- class helpers ----------------------------------------------------------------------
    def mro(self, cls):
        """C3 linearisation for the generated hierarchies (single inheritance + one diamond shape)."""
        def merge(seqs):
            res = []
            seqs = [list(s) for s in seqs if s]
            while seqs:
                for s in seqs:
                    cand = s[0]
                    if not any(cand in t[1:] for t in seqs):
                        break
                else:
                    raise ValueError("inconsistent hierarchy")
                res.append(cand)
                seqs = [[c for c in s if c is not cand] for s in seqs]
                seqs = [s for s in seqs if s]
            return res
        return [cls] + merge([self.mro(b) for b in cls.bases] + [list(cls.bases)])

    def find_method(self, cls, name):
        """-> (definer class, number of classes of the MRO defining it) or None"""
        definers = [c for c in self.mro(cls) if name in c.methods]
        if not definers:
            return None
        return definers[0], len(definers)

    def init_info(self, cls):
        """-> (definer or None, init kind) following the MRO"""
        for c in self.mro(cls):
            if c.init is not None:
                return c, c.init
        return None, None

    def inner_of(self, cls):
        """class of the object that the running __init__ stores in self.inner, or None"""
        d, k = self.init_info(cls)
        return getattr(d, "inner", None) if d is not None else None

    def plain_methods(self, cls):
        return [n for n in self.method_names(cls) if n in METHOD_NAMES
                and self.find_method(cls, n)[0].methods[n]["flavour"] == "plain" and not self.diamond_differs(cls, n)]

    def method_names(self, cls):
        names = []
        for c in self.mro(cls):
            for n in c.methods:
                if n not in names:
                    names.append(n)
        return names

    def class_via(self, cls, via):
        """via of something that depends on the class hierarchy of cls: module-attribute wins if any base link
        on the way is written as module attribute."""
        for c in self.mro(cls):
            if getattr(c, "base_via", "local") == "module-attribute-base":
                return "module-attribute-base"
        return via

    # -- definitions ------------------------------------------------------------------------
    def body_calls(self, scope, n):
        for _ in range(n):
            self.stmt(scope)

    def def_func(self, mod):
        name = mod.fresh("f")
        e = self.new_ent(mod, name, "func")
        out = mod.body
        out.append(Line("def %s(x):" % name))
        sc = Scope(self, mod, e.idx, 1, out, "x")
        n = self.ch.pick([0, 0, 1, 1, 2])
        self.body_calls(sc, n)
        if sc.last is not None and self.ch.chance(50):
            sc.emit("return %s" % sc.last)
        else:
            sc.emit("return x")
        out.append(Line(""))
        return e

    def def_globalfn(self, mod):
        """function value kept in a module-level variable and called from inside another function"""
        if self.avoided("stored-global"):
            return None
        tmp = Scope(self, mod, len(self.ents), 0, mod.body, None)
        fs = self.visible(tmp, "func")
        if not fs:
            return None
        fexpr = self.ref(tmp, self.ch.pick(fs), value_use=True)[0]
        gv = mod.fresh("gv")
        name = mod.fresh("f")
        e = self.new_ent(mod, name, "func")
        out = mod.body
        out.append(Line("%s = %s" % (gv, fexpr)))
        out.append(Line(""))
        out.append(Line("def %s(x):" % name))
        r = mod.fresh("r")
        out.append(Line("    %s = %s(x)" % (r, gv), "stored-global", "local"))
        out.append(Line("    return %s" % r))
        out.append(Line(""))
        return e

    def def_ho(self, mod):
        """higher-order functions: the call line of the callback is labelled here."""
        flavour = self.ch.pick(["pos", "pos", "pos", "kw", "kw", "kw", "bm", "bm", "bm", "default", "pos2", "cls", "cls", "cls", "star", "kwargs",
                                "kwonly", "starcall", "kwcall"])
        if flavour in ("bm", "cls") and self.no_classes:
            flavour = "pos"
        kind = {"pos": "callback-positional", "pos2": "callback-positional", "kw": "callback-keyword",
                "bm": "callback-bound-method", "default": "default-param", "cls": "callback-constructor",
                "star": "callback-star-args", "kwargs": "callback-kwargs", "kwonly": "callback-keyword-only",
                "starcall": "callback-star-call", "kwcall": "callback-kwargs-call"}[flavour]
        if self.avoided(kind):
            flavour, kind = "pos", "callback-positional"
            if self.avoided(kind):
                return None
        name = mod.fresh("h")
        out = mod.body
        dflt = None
        if flavour == "default":
            # default value: a visible plain function of the same module
            cands = [f for f in self.ents if f.typ == "func" and f.mod is mod and getattr(f, "nested_in", None) is None]
            if not cands:
                flavour, kind = "pos", "callback-positional"
            else:
                dflt = self.ch.pick(cands)
        e = self.new_ent(mod, name, "ho", flavour=flavour, dflt=dflt)
        if flavour == "kw":
            out.append(Line("def %s(f=None, x=0):" % name))
        elif flavour == "default":
            out.append(Line("def %s(x, f=%s):" % (name, dflt.name)))
        elif flavour == "pos2":
            out.append(Line("def %s(x, f):" % name))
        elif flavour == "kwonly":
            out.append(Line("def %s(x, *, f):" % name))
        elif flavour == "star":
            out.append(Line("def %s(x, *fs):" % name))
            out.append(Line("    f = fs[0]"))
        elif flavour == "kwargs":
            out.append(Line("def %s(x, **kw):" % name))
            out.append(Line("    f = kw[\"cb\"]"))
        else:
            out.append(Line("def %s(f, x):" % name))
        sc = Scope(self, mod, e.idx, 1, out, "x")
        if self.ch.chance(25):
            self.stmt(sc)
        r = mod.fresh("r")
        if self.ch.chance(25):
            sc.emit("return f(x)", kind, "local")
        else:
            sc.emit("%s = f(x)" % r, kind, "local")
            sc.emit("return %s" % r)
        out.append(Line(""))
        return e

    def def_factory(self, mod):
        flavour = self.ch.pick(["closure", "closure", "direct", "local", "param", "captured", "lambda"])
        kind = {"closure": "returned-closure", "direct": "returned-function", "local": "returned-function-local",
                "param": "returned-param", "captured": "closure-captured", "lambda": "lambda"}[flavour]
        if self.avoided(kind):
            flavour, kind = "closure", "returned-closure"
            if self.avoided(kind):
                return None
        name = mod.fresh("k")
        idx_before = len(self.ents)
        out = mod.body
        tmp_scope = Scope(self, mod, idx_before, 1, out, None)
        target = None
        if flavour in ("direct", "local"):
            cands = self.visible(tmp_scope, "func")
            if not cands:
                flavour, kind = "closure", "returned-closure"
                if self.avoided(kind):
                    return None
            else:
                target = self.ch.pick(cands)
        e = self.new_ent(mod, name, "factory", flavour=flavour, call_kind=kind)
        if flavour == "closure":
            out.append(Line("def %s():" % name))
            inner = mod.fresh("n")
            out.append(Line("    def %s(y):" % inner))
            sc = Scope(self, mod, e.idx, 2, out, "y")
            if self.ch.chance(40):
                self.stmt(sc)
            sc.emit("return y")
            out.append(Line("    return %s" % inner))
        elif flavour == "captured":
            # the returned closure calls the function value captured from the factory's parameter
            out.append(Line("def %s(f):" % name))
            inner = mod.fresh("n")
            out.append(Line("    def %s(y):" % inner))
            r = mod.fresh("r")
            out.append(Line("        %s = f(y)" % r, "closure-captured", "local"))
            out.append(Line("        return %s" % r))
            out.append(Line("    return %s" % inner))
            e.call_kind = "returned-closure"
        elif flavour == "lambda":
            out.append(Line("def %s():" % name))
            out.append(Line("    return lambda y: y"))
        elif flavour == "direct":
            expr, via = self.ref(tmp_scope, target, value_use=True)
            out.append(Line("def %s():" % name))
            out.append(Line("    return %s" % expr))
        elif flavour == "local":
            expr, via = self.ref(tmp_scope, target, value_use=True)
            out.append(Line("def %s():" % name))
            g = mod.fresh("g")
            out.append(Line("    %s = %s" % (g, expr)))
            out.append(Line("    return %s" % g))
        else:  # param
            out.append(Line("def %s(f):" % name))
            out.append(Line("    return f"))
        out.append(Line(""))
        return e

    def def_recv(self, mod):
        """function that calls a method on its parameter"""
        if self.avoided("method-on-param"):
            return None
        tmp = Scope(self, mod, len(self.ents), 1, mod.body, None)
        classes = self.visible(tmp, "class", lambda c: any(n in METHOD_NAMES for n in self.method_names(c)))
        if not classes:
            return None
        cls = self.ch.pick(classes)
        mname = self.ch.pick([n for n in self.method_names(cls) if n in METHOD_NAMES])
        name = mod.fresh("u")
        e = self.new_ent(mod, name, "recv", root=cls, mname=mname)
        out = mod.body
        out.append(Line("def %s(o, x):" % name))
        r = mod.fresh("r")
        out.append(Line("    %s = o.%s(x)" % (r, mname), "method-on-param", self.class_via(cls, "local")))
        out.append(Line("    return %s" % r))
        out.append(Line(""))
        return e

    def def_objfactory(self, mod):
        if self.avoided("method-on-returned"):
            return None
        tmp = Scope(self, mod, len(self.ents), 1, mod.body, None)
        classes = self.visible(tmp, "class", lambda c: bool(self.method_names(c)) and self.init_info(c)[1] in (None, "plain", "super", "explicit"))
        if not classes:
            return None
        cls = self.ch.pick(classes)
        name = mod.fresh("w")
        e = self.new_ent(mod, name, "objfactory", cls=cls)
        out = mod.body
        out.append(Line("def %s():" % name))
        sc = Scope(self, mod, e.idx, 1, out, None)
        o = self.construct(sc, cls)
        sc.emit("return %s" % o)
        out.append(Line(""))
        return e

    def def_rec(self, mod):
        flavour = self.ch.pick(["self", "self", "mutual", "mutual", "mutual3", "self-cb", "self-cb"])
        if flavour == "self-cb" and (self.avoided("recursion-callback") or self.avoided("recursion")):
            flavour = "self"
        kind = "mutual-recursion" if flavour.startswith("mutual") else "recursion"
        if self.avoided(kind):
            return None
        out = mod.body
        if flavour == "self-cb":
            # the recursive call passes another callable than the outer call: the callee has to be analysed under the
            # recursive call site, not only recorded
            name = mod.fresh("r")
            e = self.new_ent(mod, name, "rec")
            outer, inner, work = name + "_o", name + "_i", name + "_w"
            for fn in (outer, inner):
                out.append(Line("def %s(x):" % fn))
                out.append(Line("    return x"))
                out.append(Line(""))
            out.append(Line("def %s(n, cb):" % work))
            out.append(Line("    %s = cb(n)" % mod.fresh("v"), "recursion-callback", "local"))
            out.append(Line("    if n <= 0:"))
            out.append(Line("        return 0"))
            out.append(Line("    return %s(n - 1, %s)" % (work, inner), "recursion", "local"))
            out.append(Line(""))
            out.append(Line("def %s(n):" % name))
            out.append(Line("    return %s(n, %s)" % (work, outer), "direct", "local"))
            out.append(Line(""))
            return e
        if flavour == "self":
            name = mod.fresh("r")
            e = self.new_ent(mod, name, "rec")
            out.append(Line("def %s(n):" % name))
            out.append(Line("    if n <= 0:"))
            out.append(Line("        return 0"))
            sc = Scope(self, mod, e.idx, 1, out, "n")
            if self.ch.chance(30):
                self.stmt(sc)
            v = mod.fresh("v")
            if self.ch.chance(30):
                out.append(Line("    return %s(n - 1)" % name, "recursion", "local"))
            else:
                out.append(Line("    %s = %s(n - 1)" % (v, name), "recursion", "local"))
                out.append(Line("    return %s" % v))
            out.append(Line(""))
            return e
        n = 2 if flavour == "mutual" else 3
        names = [mod.fresh("e") for _ in range(n)]
        e = self.new_ent(mod, names[0], "rec")
        for i, nm in enumerate(names):
            nxt = names[(i + 1) % n]
            out.append(Line("def %s(n):" % nm))
            out.append(Line("    if n <= 0:"))
            out.append(Line("        return %d" % i))
            if i == 1 and self.ch.chance(30):
                sc = Scope(self, mod, e.idx, 1, out, "n")
                self.stmt(sc)
            v = mod.fresh("v")
            out.append(Line("    %s = %s(n - 1)" % (v, nxt), "mutual-recursion", "local"))
            out.append(Line("    return %s" % v))
            out.append(Line(""))
        return e

    def def_diamond(self, mod):
        """A; B(A); C(A) overriding; D(B, C): the C3 order D B C A differs from a depth-first lookup"""
        if self.avoided("diamond-method"):
            return None
        ch = self.ch
        a = self.def_class(mod, force={"bases": [], "names": ch.pick([["ma"], ["ma", "mb"], ["mb", "mc"]]),
                                       "init": ch.pick(["none", "plain"])})
        b = self.def_class(mod, force={"bases": [a], "names": ch.pick([[], [], ["md"]]), "init": "none"})
        over = ch.pick(sorted(n for n in a.methods if n in METHOD_NAMES))
        c = self.def_class(mod, force={"bases": [a], "names": [over], "init": ch.pick(["none", "none", "plain"])})
        d = self.def_class(mod, force={"bases": [b, c], "names": ch.pick([[], [], ["md"]]), "init": "none"})
        return d

    def def_class(self, mod, force=None):
        name = mod.fresh("K").replace("K", "K") + mod.name[-1].upper()
        idx_before = len(self.ents)
        tmp = Scope(self, mod, idx_before, 1, mod.body, None)
        bases = []
        base_via = "local"
        base_exprs = []
        cands = self.visible(tmp, "class")
        shape = self.ch.pick(["none", "single", "single", "single", "single", "diamond"]) if cands else "none"
        if force is not None:
            shape = "forced"
            bases = list(force["bases"])
        if shape == "diamond" and self.avoided("diamond-method"):
            shape = "single"
        if shape == "single" and cands:
            b = self.ch.pick(cands)
            bases = [b]
        elif shape == "diamond":
            # two visible classes of the same module sharing a common base, both plain
            pairs = [(a, b) for a in cands for b in cands
                     if a.idx < b.idx and a.bases and b.bases and a.bases[0] is b.bases[0] and len(a.bases) == 1
                     and len(b.bases) == 1]
            if pairs:
                a, b = self.ch.pick(pairs)
                bases = [a, b]
        if len(bases) == 2 and (self.avoided("diamond-init") if self.diamond_init_would_differ(bases) else False):
            bases = bases[:1]
        if len(bases) == 2 and self.any_avoided(self.self_dispatch_kinds(
                bases, [], ([self.init_info(b)[1] for b in bases if self.init_info(b)[1]] or [None])[0])):
            bases = bases[:1]
        for b in bases:
            expr, via = self.ref(tmp, b, as_base=True)
            base_exprs.append(expr)
            if via == "module-attribute-base":
                base_via = "module-attribute-base"
            elif via.startswith("from-import") and base_via == "local":
                base_via = via

        e = self.new_ent(mod, name, "class", bases=bases, base_via=base_via, methods={}, init=None, init_line=None,
                         diamond=len(bases) == 2)
        out = mod.body
        out.append(Line("class %s%s:" % (name, "(%s)" % ", ".join(base_exprs) if base_exprs else "")))
        # __init__
        inherited_def, inherited_init = (None, None)
        for b in bases:
            d, k = self.init_info(b)
            if k is not None:
                inherited_def, inherited_init = d, k
                break
        options = ["none", "none", "plain", "plain", "cb", "obj"]
        if inherited_init in ("plain", "super", "explicit") and len(bases) == 1:
            options += ["super", "super", "explicit"]
        if inherited_init == "cb" or any(self.inner_of(b) is not None for b in bases):
            options = ["none"]
        if len(bases) == 2:
            options = ["none"]
        choice = self.ch.pick(options)
        if force is not None:
            choice = force["init"]
        if choice == "super" and self.avoided("super-init"):
            choice = "none"
        if choice == "explicit" and self.diamond_differs(bases[0], "__init__"):
            choice = "none"
        if choice == "explicit" and self.avoided("explicit-base-init"):
            choice = "none"
        if choice == "cb" and self.avoided("stored-field-self"):
            choice = "plain"
        inner_cls = None
        if choice == "obj":
            icands = [c for c in cands if self.init_info(c)[1] in (None, "plain") and self.plain_methods(c)
                      and self.class_via(c, "local") != "module-attribute-base" and self.inner_of(c) is None]
            if not icands or self.no_classes:
                choice = "plain"
            else:
                inner_cls = self.ch.pick(icands)
        n_members = 0
        if choice == "obj":
            out.append(Line("    def __init__(self, v):"))
            isc = Scope(self, mod, e.idx, 2, out, "v", self_cls=e, method_name="__init__")
            io = self.construct(isc, inner_cls)
            out.append(Line("        self.inner = %s" % io))
            e.init = "plain"
            e.inner = inner_cls
            n_members += 1
        if choice == "plain":
            out.append(Line("    def __init__(self, v):"))
            out.append(Line("        self.v = v"))
            e.init = "plain"
            n_members += 1
        elif choice == "cb":
            out.append(Line("    def __init__(self, cb):"))
            out.append(Line("        self.cb = cb"))
            e.init = "cb"
            n_members += 1
        elif choice == "super":
            out.append(Line("    def __init__(self, v):"))
            out.append(Line("        super().__init__(v)", "super-init", base_via))
            out.append(Line("        self.w = v"))
            e.init = "super"
            n_members += 1
        elif choice == "explicit":
            out.append(Line("    def __init__(self, v):"))
            out.append(Line("        %s.__init__(self, v)" % base_exprs[0], "explicit-base-init", base_via))
            e.init = "explicit"
            n_members += 1
        # methods
        nm = self.ch.pick([0, 1, 1, 2, 2, 3]) if bases else self.ch.pick([1, 1, 2, 2, 3])
        names = []
        pool = list(METHOD_NAMES)
        for _ in range(nm):
            n = self.ch.pick(pool)
            if n not in names:
                names.append(n)
        if force is not None:
            names = list(force["names"])
        names.sort()
        if bases and names and self.any_avoided(self.self_dispatch_kinds(bases, names, self.init_info(e)[1])):
            blocked = self.self_called_names(bases)
            names = [n for n in names if n not in blocked]
        if bases:
            self.self_dispatch_kinds(bases, names, self.init_info(e)[1], freeze=True)
        init_kind = self.init_info(e)[1]
        for n in names:
            flav = "plain"
            inherited = any(self.find_method(b, n) for b in bases)
            if not inherited and self.ch.chance(12):
                flav = self.ch.pick(["static", "class"])
                if self.avoided("staticmethod" if flav == "static" else "classmethod"):
                    flav = "plain"
            if inherited:
                # keep the flavour of the overridden method
                d = [self.find_method(b, n) for b in bases if self.find_method(b, n)][0][0]
                flav = d.methods[n]["flavour"]
            e.methods[n] = {"flavour": flav, "line": None}
            if flav == "static":
                out.append(Line("    @staticmethod"))
                out.append(Line("    def %s(x):" % n))
                out.append(Line("        return x"))
                n_members += 1
                continue
            if flav == "class":
                out.append(Line("    @classmethod"))
                out.append(Line("    def %s(cls, x):" % n))
                out.append(Line("        return x"))
                n_members += 1
                continue
            out.append(Line("    def %s(self, x):" % n))
            e.methods[n]["line"] = out[-1]
            sc = Scope(self, mod, e.idx, 2, out, "x", self_cls=e, method_name=n)
            k = self.ch.pick([0, 1, 1, 1, 2])
            for _ in range(k):
                self.method_stmt(sc)
            if inherited and len(bases) == 1 and self.ch.chance(35) and not self.avoided("super-method", base_via):
                r = mod.fresh("r")
                sc.emit("%s = super().%s(x)" % (r, n), "super-method", base_via)
                sc.last = r
            if sc.last is not None and self.ch.chance(50):
                sc.emit("return %s" % sc.last)
            else:
                sc.emit("return x")
            n_members += 1
        # method returning self
        if self.ch.chance(15) and not any(self.find_method(b, "me") for b in bases):
            e.methods["me"] = {"flavour": "retself", "line": None}
            out.append(Line("    def me(self):"))
            out.append(Line("        return self"))
            n_members += 1
        # recursive method
        if self.ch.chance(12) and not self.avoided("recursive-method"):
            e.methods["rm"] = {"flavour": "rec"}
            out.append(Line("    def rm(self, n):"))
            out.append(Line("        if n <= 0:"))
            out.append(Line("            return 0"))
            v = mod.fresh("v")
            out.append(Line("        %s = self.rm(n - 1)" % v, "recursive-method", "local"))
            out.append(Line("        return %s" % v))
            n_members += 1
        if n_members == 0:
            out.append(Line("    pass"))
        out.append(Line(""))
        return e

    # -- statements -------------------------------------------------------------------------
    def method_stmt(self, sc):
        """statement inside a method: self-calls (to smaller method names), self.cb calls, or a general statement"""
        cls = sc.self_cls
        r = self.ch.int(0, 9)
        if r < 6:
            smaller = [n for n in self.method_names(cls) if n in METHOD_NAMES and n < sc.method_name
                       and n not in self.frozen_names]
            smaller = [n for n in smaller if self.find_method(cls, n)[0].methods[n]["flavour"] == "plain"]
            if smaller:
                n = self.ch.pick(smaller)
                definer, cnt = self.find_method(cls, n)
                kind = "self-method" if definer is cls else "self-inherited-method"
                via = self.class_via(cls, "local")
                if not self.avoided(kind, via):
                    v = sc.mod.fresh("r")
                    sc.emit("%s = self.%s(%s)" % (v, n, self.arg(sc)), kind, via)
                    self.self_calls.append({"line": sc.out[-1], "cls": cls, "name": n, "method": sc.method_name})
                    sc.last = v
                    return
        inner = self.inner_of(cls)
        # a receiver read from a field does not carry its class into the callee frame (like K.m(o, x) and bound-method
        # values): methods that call through self are entered this way only while that finding is not stepped over
        inner_names = self.indirect_entry_names(inner, self.plain_methods(inner)) if inner is not None else []
        if r < 8 and inner is not None and inner_names and not self.avoided("method-on-self-field"):
            v = sc.mod.fresh("r")
            imn = self.ch.pick(inner_names)
            sc.emit("%s = self.inner.%s(%s)" % (v, imn, self.arg(sc)),
                    "method-on-self-field", "local")
            self.note_indirect_entry(inner, imn)
            sc.last = v
            return
        if r < 8 and self.init_info(cls)[1] == "cb" and not self.avoided("stored-field-self"):
            v = sc.mod.fresh("r")
            sc.emit("%s = self.cb(%s)" % (v, self.arg(sc)), "stored-field-self", "local")
            sc.last = v
            return
        self.stmt(sc)

    def construct(self, sc, cls, cbref=None, attr_form=False):
        """emit `o = K(...)`; returns the variable name.  The class is named m.K only when attr_form is set (the
        scenarios whose dependent call lines are labelled with the constructor's via); self.ctor_via tells which."""
        expr, via = self.ref(sc, cls, value_use=not attr_form)
        self.ctor_via = via
        definer, kind = self.init_info(cls)
        o = sc.mod.fresh("o")
        if kind is None:
            sc.emit("%s = %s()" % (o, expr))      # no Python-level call happens
            return o
        k = "constructor" if definer is cls else "constructor-inherited-init"
        if self.diamond_differs(cls, "__init__"):
            k = "diamond-init"
        via2 = self.class_via(cls, via) if definer is not cls else via
        if kind == "cb":
            if cbref is None:
                fs = self.visible(sc, "func")
                if fs:
                    cbref = self.ref(sc, self.ch.pick(fs), value_use=True)[0]
                else:
                    cbref = "None"
            sc.emit("%s = %s(%s)" % (o, expr, cbref), k, via2)
        else:
            sc.emit("%s = %s(%s)" % (o, expr, self.arg(sc)), k, via2)
        return o

    def method_call(self, sc, o, cls, via, recv_kind=None):
        """emit `v = o.m(arg)` for a random method of cls; False if there is none"""
        names = [n for n in self.method_names(cls) if self.find_method(cls, n)[0].methods[n]["flavour"] != "retself"]
        if not names:
            return False
        n = self.ch.pick(names)
        definer, cnt = self.find_method(cls, n)
        flav = definer.methods[n]["flavour"]
        if flav == "static":
            kind = "staticmethod"
        elif flav == "class":
            kind = "classmethod"
        elif flav == "rec":
            kind = "method" if definer is cls else "inherited-method"
        elif definer is cls:
            kind = "overriding-method" if cnt > 1 else "method"
        else:
            kind = "inherited-method"
        if self.diamond_differs(cls, n):
            kind = "diamond-method"
        if recv_kind is not None:
            # the way the receiver was obtained is what the line is about (whatever the method's flavour)
            kind = recv_kind
        via = self.class_via(cls, via)
        if self.avoided(kind, via):
            return False
        v = sc.mod.fresh("v")
        a = "2" if flav == "rec" else self.arg(sc)
        sc.emit("%s = %s.%s(%s)" % (v, o, n, a), kind, via)
        sc.last = v
        return True

    def diamond_differs(self, cls, name):
        """True when a depth-first, left-to-right lookup finds another definer than the C3 MRO"""
        def has(c):
            return c.init is not None if name == "__init__" else name in c.methods

        def dfs(c):
            if has(c):
                return c
            for b in c.bases:
                r = dfs(b)
                if r is not None:
                    return r
            return None
        mro_def = [c for c in self.mro(cls) if has(c)]
        return bool(mro_def) and dfs(cls) is not mro_def[0]

    def diamond_init_would_differ(self, bases):
        class Tmp:
            pass
        t = Tmp()
        t.bases = list(bases)
        t.methods = {}
        t.init = None
        try:
            return self.diamond_differs(t, "__init__")
        except ValueError:
            return True

    @staticmethod
    def self_dispatch_kind(init_kind):
        """kind of a self-call edge that lands in an override of the receiver's (sub)class, by how the receiver was built"""
        if init_kind is None:
            return "self-dispatch-noinit-subclass"
        if init_kind == "explicit":
            return "self-dispatch-explicit-init-subclass"
        return "self-dispatch-subclass"

    def self_called_names(self, classes):
        """names that methods of the given classes (or of their bases) call through self"""
        involved = set()
        for c in classes:
            involved.update(id(k) for k in self.mro(c))
        return {r["name"] for r in self.self_calls if id(r["cls"]) in involved}

    def self_dispatch_kinds(self, new_bases, new_names, init_kind, freeze=False):
        """kinds of the self-call edges that a class with these bases / own method names / running __init__ would
        redirect to an override (empty set: it redirects nothing)"""
        class Tmp:
            pass
        t = Tmp()
        t.bases = list(new_bases)
        t.methods = {n: {} for n in new_names}
        t.init = None
        try:
            mro = self.mro(t)
        except ValueError:
            return {"self-dispatch-subclass", "self-dispatch-chained-subclass"}
        out = set()
        for r in self.self_calls:
            if not any(r["cls"] is c for c in mro):
                continue
            lexical = self.find_method(r["cls"], r["name"])
            runtime = [c for c in mro if r["name"] in c.methods]
            if lexical is None or not runtime or runtime[0] is not lexical[0]:
                k = self.self_dispatch_kind(init_kind)
                if k == "self-dispatch-subclass" and (id(r["cls"]), r["method"]) in self.indirect_entries:
                    k = "self-dispatch-indirect-entry-subclass"
                if k == "self-dispatch-subclass" and any(r2["name"] == r["method"] for r2 in self.self_calls):
                    # r's method can itself be entered through a self-call: the receiver's class travels one level only
                    k = "self-dispatch-chained-subclass"
                out.add(k)
                if freeze and k == "self-dispatch-subclass":
                    # keep it one-level: nothing may call r's method through self from now on
                    self.frozen_names.add(r["method"])
        return out

    def indirect_entry_names(self, cls, names):
        """filter the method names that may be entered indirectly (K.m(o, x), f = o.m; f(x)): the receiver's class does
        not reach the frame then, so a method that calls through self may only be entered this way while the
        corresponding finding is not stepped over; such entries are remembered for the edge labels"""
        out = []
        for n in names:
            definer = self.find_method(cls, n)[0]
            has_self_calls = any(r["method"] == n and r["cls"] is definer for r in self.self_calls)
            if has_self_calls and self.avoided("self-dispatch-indirect-entry-subclass"):
                continue
            out.append(n)
        return out

    def note_indirect_entry(self, cls, n):
        definer = self.find_method(cls, n)[0]
        if any(r["method"] == n and r["cls"] is definer for r in self.self_calls):
            self.indirect_entries.add((id(definer), n))

    def any_avoided(self, kinds):
        return any(self.avoided(k) for k in sorted(kinds))

    def stmt(self, sc):
        """emit one call scenario (1-4 lines) in scope sc"""
        for _attempt in range(6):
            if self.scenario(sc):
                return True
        return False

    def call_func_line(self, sc, expr, kind, via, a=None, allow_return=False):
        a = self.arg(sc) if a is None else a
        if self.ch.chance(15):
            sc.emit("%s(%s)" % (expr, a), kind, via)
            return None
        v = sc.mod.fresh("v")
        sc.emit("%s = %s(%s)" % (v, expr, a), kind, via)
        sc.last = v
        return v

    def scenario(self, sc):
        ch = self.ch
        which = ch.pick(self.scenarios)
        if sc.depth >= 2 and which in ("wrap-if", "wrap-loop", "wrap-try", "cond-alias"):
            which = "func"
        if which == "func":
            fs = self.visible(sc, "func")
            if not fs:
                return False
            f = ch.pick(fs)
            expr, via = self.ref(sc, f)
            if self.avoided("direct", via):
                return False
            self.call_func_line(sc, expr, "direct", via)
            return True
        if which == "method":
            cs = self.visible(sc, "class")
            if not cs:
                return False
            cls = ch.pick(cs + [c for c in cs if c.bases] * 2)
            o = self.construct(sc, cls, attr_form=True)
            via = self.ctor_via
            n = ch.pick([1, 2, 2, 3])
            for _ in range(n):
                self.method_call(sc, o, cls, via)
            inner = self.inner_of(cls)
            inner_names = self.indirect_entry_names(inner, self.plain_methods(inner)) if inner is not None else []
            if inner is not None and inner_names and ch.chance(60) and not self.avoided("method-on-field", self.class_via(cls, via)):
                v = sc.mod.fresh("v")
                imn = ch.pick(inner_names)
                sc.emit("%s = %s.inner.%s(%s)" % (v, o, imn, self.arg(sc)),
                        "method-on-field", self.class_via(cls, via))
                self.note_indirect_entry(inner, imn)
                sc.last = v
            me = self.find_method(cls, "me")
            if me is not None and ch.chance(70) and not self.avoided("method-on-returned-self", self.class_via(cls, via)):
                pv = sc.mod.fresh("p")
                sc.emit("%s = %s.me()" % (pv, o), "method" if me[0] is cls else "inherited-method", self.class_via(cls, via))
                self.method_call(sc, pv, cls, via, recv_kind="method-on-returned-self")
            return True
        if which == "callback":
            hs = self.visible(sc, "ho")
            if not hs:
                return False
            h = ch.pick(hs)
            hexpr, hvia = self.ref(sc, h)
            if self.avoided("direct", hvia):
                return False
            if h.flavour == "default":
                self.call_func_line(sc, hexpr, "direct", hvia)
                return True
            if h.flavour == "cls":
                cs = self.visible(sc, "class", lambda c: self.init_info(c)[1] in ("plain", "super", "explicit")
                                  and not self.diamond_differs(c, "__init__")
                                  and self.class_via(c, "local") != "module-attribute-base")
                if not cs:
                    return False
                cexpr = self.ref(sc, ch.pick(cs), value_use=True)[0]
                ov = sc.mod.fresh("o")
                sc.emit("%s = %s(%s, %s)" % (ov, hexpr, cexpr, self.arg(sc)), "direct", hvia)
                return True
            if h.flavour == "bm":
                cs = self.visible(sc, "class", lambda c: any(
                    self.find_method(c, n)[0].methods[n]["flavour"] == "plain" for n in self.method_names(c) if n in METHOD_NAMES)
                    and self.class_via(c, "local") == "local")
                if not cs:
                    return False
                cls = ch.pick(cs)
                o = self.construct(sc, cls)
                names = [n for n in self.method_names(cls) if n in METHOD_NAMES and self.find_method(cls, n)[0].methods[n]["flavour"] == "plain"
                         and not self.diamond_differs(cls, n)]
                # like K.m(o, x): a method entered through a bound-method value does not get the receiver's class, so
                # methods that call through self are not entered this way (see the self-dispatch findings)
                names = self.indirect_entry_names(cls, names)
                if not names:
                    return True
                bmn = ch.pick(names)
                self.note_indirect_entry(cls, bmn)
                fexpr = "%s.%s" % (o, bmn)
            else:
                fs = self.visible(sc, "func")
                if not fs:
                    return False
                fexpr = self.ref(sc, ch.pick(fs), value_use=True)[0]
            a = self.arg(sc)
            if h.flavour in ("starcall", "kwcall"):
                t = sc.mod.fresh("t")
                if h.flavour == "starcall":
                    sc.emit("%s = (%s, %s)" % (t, fexpr, a))
                    args = "*" + t
                else:
                    sc.emit("%s = {\"f\": %s, \"x\": %s}" % (t, fexpr, a))
                    args = "**" + t
            elif h.flavour == "kwonly":
                args = "%s, f=%s" % (a, fexpr)
            elif h.flavour == "star":
                args = "%s, %s" % (a, fexpr)
            elif h.flavour == "kwargs":
                args = "%s, cb=%s" % (a, fexpr)
            elif h.flavour == "kw":
                args = ch.pick(["f=%s, x=%s", "x=%s, f=%s"])
                args = args % ((fexpr, a) if args.startswith("f=") else (a, fexpr))
            elif h.flavour == "pos2":
                args = "%s, %s" % (a, fexpr)
            else:
                args = ch.pick(["%s, %s" % (fexpr, a), "%s, x=%s" % (fexpr, a)]) if h.flavour == "pos" else "%s, %s" % (fexpr, a)
            v = sc.mod.fresh("v")
            sc.emit("%s = %s(%s)" % (v, hexpr, args), "direct", hvia)
            sc.last = v
            return True
        if which == "factory":
            ks = self.visible(sc, "factory")
            if not ks:
                return False
            k = ch.pick(ks)
            kexpr, kvia = self.ref(sc, k)
            if self.avoided("direct", kvia):
                return False
            g = sc.mod.fresh("g")
            if k.flavour in ("param", "captured"):
                fs = self.visible(sc, "func")
                if not fs:
                    return False
                fexpr = self.ref(sc, ch.pick(fs), value_use=True)[0]
                sc.emit("%s = %s(%s)" % (g, kexpr, fexpr), "direct", kvia)
            else:
                sc.emit("%s = %s()" % (g, kexpr), "direct", kvia)
            self.call_func_line(sc, g, k.call_kind, "local")
            return True
        if which == "alias" and not self.no_classes and ch.chance(50) and not self.avoided("stored-class"):
            cs = self.visible(sc, "class", lambda c: self.init_info(c)[1] in ("plain", "super", "explicit")
                              and not self.diamond_differs(c, "__init__")
                              and self.class_via(c, "local") != "module-attribute-base")
            if cs:
                cexpr = self.ref(sc, ch.pick(cs), value_use=True)[0]
                c = sc.mod.fresh("c")
                sc.emit("%s = %s" % (c, cexpr))
                sc.emit("%s = %s(%s)" % (sc.mod.fresh("o"), c, self.arg(sc)), "stored-class", "local")
                return True
        if which == "alias":
            fs = self.visible(sc, "func")
            if not fs or self.avoided("stored-variable"):
                return False
            fexpr, fvia = self.ref(sc, ch.pick(fs), value_use=True, mod_value=ch.chance(50))
            g = sc.mod.fresh("g")
            sc.emit("%s = %s" % (g, fexpr))
            self.call_func_line(sc, g, "stored-variable", fvia if fvia == "module-attribute-value" else "local")
            return True
        if which == "list":
            fs = self.visible(sc, "func")
            if not fs:
                return False
            n = ch.pick([1, 2, 2, 3])
            refs = [self.ref(sc, ch.pick(fs), value_use=True)[0] for _ in range(n)]
            i = ch.int(0, n - 1)
            lst = sc.mod.fresh("l")
            if ch.chance(50):
                if self.avoided("stored-list"):
                    return False
                sc.emit("%s = [%s]" % (lst, ", ".join(refs)))
                self.call_func_line(sc, "%s[%d]" % (lst, i), "stored-list", "local")
            else:
                if self.avoided("stored-list-read"):
                    return False
                sc.emit("%s = [%s]" % (lst, ", ".join(refs)))
                g = sc.mod.fresh("g")
                sc.emit("%s = %s[%d]" % (g, lst, i))
                self.call_func_line(sc, g, "stored-list-read", "local")
            return True
        if which == "list-loop":
            fs = self.visible(sc, "func")
            if not fs or sc.depth >= 2:
                return False
            n = ch.pick([2, 2, 3])
            refs = [self.ref(sc, ch.pick(fs), value_use=True)[0] for _ in range(n)]
            form = ch.pick(["list", "tuple", "dict", "append"])
            kind = {"list": "stored-list-loop", "tuple": "stored-list-loop", "dict": "stored-dict-loop",
                    "append": "stored-list-append"}[form]
            if self.avoided(kind):
                return False
            g = sc.mod.fresh("g")
            if form == "list":
                lst = sc.mod.fresh("l")
                sc.emit("%s = [%s]" % (lst, ", ".join(refs)))
                sc.emit("for %s in %s:" % (g, lst))
                self.call_func_line(sc.sub(), g, kind, "local")
            elif form == "tuple":
                sc.emit("for %s in (%s):" % (g, ", ".join(refs)))
                self.call_func_line(sc.sub(), g, kind, "local")
            elif form == "dict":
                d = sc.mod.fresh("d")
                keys = ["a", "b", "c"][:n]
                sc.emit("%s = {%s}" % (d, ", ".join('"%s": %s' % (k, r) for k, r in zip(keys, refs))))
                sc.emit("for %s in %s:" % (g, d))
                self.call_func_line(sc.sub(), "%s[%s]" % (d, g), kind, "local")
            else:
                lst = sc.mod.fresh("l")
                sc.emit("%s = []" % lst)
                for r in refs:
                    sc.emit("%s.append(%s)" % (lst, r))
                self.call_func_line(sc, "%s[%d]" % (lst, ch.int(0, n - 1)), kind, "local")
            return True
        if which == "obj-loop":
            cs = self.visible(sc, "class", lambda c: self.init_info(c)[1] in (None, "plain", "super", "explicit")
                              and self.class_via(c, "local") != "module-attribute-base")
            if len(cs) < 1 or sc.depth >= 2 or self.avoided("method-on-list-element"):
                return False
            name = ch.pick(METHOD_NAMES)
            cs = [c for c in cs if self.find_method(c, name) and self.find_method(c, name)[0].methods[name]["flavour"] == "plain"
                  and not self.diamond_differs(c, name)]
            if not cs:
                return False
            objs = [self.construct(sc, ch.pick(cs)) for _ in range(ch.pick([1, 2, 2]))]
            o = sc.mod.fresh("o")
            sc.emit("for %s in [%s]:" % (o, ", ".join(objs)))
            inner = sc.sub()
            v = sc.mod.fresh("v")
            inner.emit("%s = %s.%s(%s)" % (v, o, name, self.arg(sc)), "method-on-list-element", "local")
            return True
        if which == "dict":
            fs = self.visible(sc, "func")
            if not fs or self.avoided("stored-dict"):
                return False
            n = ch.pick([1, 2])
            keys = ["a", "b"][:n]
            refs = [self.ref(sc, ch.pick(fs), value_use=True)[0] for _ in range(n)]
            d = sc.mod.fresh("d")
            sc.emit("%s = {%s}" % (d, ", ".join('"%s": %s' % (k, r) for k, r in zip(keys, refs))))
            self.call_func_line(sc, '%s["%s"]' % (d, ch.pick(keys)), "stored-dict", "local")
            return True
        if which == "field":
            cs = self.visible(sc, "class", lambda c: self.init_info(c)[1] in (None, "plain"))
            fs = self.visible(sc, "func")
            if not cs or not fs or self.avoided("stored-field"):
                return False
            cls = ch.pick(cs)
            o = self.construct(sc, cls)
            fexpr = self.ref(sc, ch.pick(fs), value_use=True)[0]
            sc.emit("%s.fn = %s" % (o, fexpr))
            self.call_func_line(sc, "%s.fn" % o, "stored-field", "local")
            return True
        if which == "cbclass":
            # class whose __init__ stores a callback; methods call self.cb
            cs = self.visible(sc, "class", lambda c: self.init_info(c)[1] == "cb")
            if not cs:
                return False
            cls = ch.pick(cs)
            o = self.construct(sc, cls)
            via = self.ctor_via
            if ch.chance(40) and not self.avoided("stored-field"):
                self.call_func_line(sc, "%s.cb" % o, "stored-field", "local")
            else:
                self.method_call(sc, o, cls, via)
            return True
        if which == "recv":
            us = self.visible(sc, "recv")
            if not us:
                return False
            u = ch.pick(us)
            # any visible class that is root or a subclass of root
            cs = self.visible(sc, "class", lambda c: u.root in self.mro(c) and self.init_info(c)[1] in (None, "plain", "super", "explicit")
                              and self.class_via(c, "local") == self.class_via(u.root, "local")
                              and not self.diamond_differs(c, u.mname))
            if not cs:
                return False
            cls = ch.pick(cs)
            definer = self.find_method(cls, u.mname)[0]
            if definer.methods[u.mname]["flavour"] != "plain":
                return False
            uexpr, uvia = self.ref(sc, u)
            if self.avoided("direct", uvia):
                return False
            o = self.construct(sc, cls)
            v = sc.mod.fresh("v")
            sc.emit("%s = %s(%s, %s)" % (v, uexpr, o, self.arg(sc)), "direct", uvia)
            sc.last = v
            return True
        if which == "objfactory":
            ws = self.visible(sc, "objfactory")
            if not ws:
                return False
            w = ch.pick(ws)
            wexpr, wvia = self.ref(sc, w)
            if self.avoided("direct", wvia):
                return False
            o = sc.mod.fresh("o")
            sc.emit("%s = %s()" % (o, wexpr), "direct", wvia)
            return self.method_call(sc, o, w.cls, "local", recv_kind="method-on-returned")
        if which == "rec":
            rs = self.visible(sc, "rec")
            if not rs:
                return False
            r = ch.pick(rs)
            rexpr, rvia = self.ref(sc, r)
            if self.avoided("direct", rvia):
                return False
            self.call_func_line(sc, rexpr, "direct", rvia, a=str(ch.int(1, 3)))
            return True
        if which == "classattr":
            cs = self.visible(sc, "class", lambda c: self.init_info(c)[1] in (None, "plain"))
            if not cs or self.avoided("class-attr-method"):
                return False
            cls = ch.pick(cs)
            names = [n for n in self.method_names(cls) if n in METHOD_NAMES and self.find_method(cls, n)[0].methods[n]["flavour"] == "plain"]
            # K.m(o, x) binds self as an ordinary argument; whether the receiver's class then reaches m's frame follows
            # yet other rules (see the self-dispatch findings), so methods that call through self are not entered this way
            names = self.indirect_entry_names(cls, names)
            if not names:
                return False
            o = self.construct(sc, cls)
            cexpr, cvia = self.ref(sc, cls)
            n = ch.pick(names)
            self.note_indirect_entry(cls, n)
            cvia = self.class_via(cls, cvia)
            ckind = "diamond-class-attr" if self.diamond_differs(cls, n) else "class-attr-method"
            if self.avoided(ckind, cvia):
                return False
            self.call_func_line(sc, "%s.%s" % (cexpr, n), ckind, cvia, a="%s, %s" % (o, self.arg(sc)))
            return True
        if which == "lambda":
            if self.avoided("lambda"):
                return False
            g = sc.mod.fresh("g")
            sc.emit("%s = lambda y: y" % g)
            self.call_func_line(sc, g, "lambda", "local")
            return True
        if which == "nested":
            if sc.at_module_level or sc.depth > 0 or self.avoided("nested-direct"):
                return False
            n = sc.mod.fresh("n")
            sc.emit("def %s(y):" % n)
            inner = sc.sub()
            inner.intvar = "y"
            inner.depth = 2
            if ch.chance(40):
                self.stmt(inner)
            inner.emit("return y")
            self.call_func_line(sc, n, "nested-direct", "local")
            return True
        if which == "cond-alias":
            fs = self.visible(sc, "func")
            if len(fs) < 2 or sc.intvar is None or self.avoided("cond-alias"):
                return False
            a, b = ch.pick(fs), ch.pick(fs)
            ea = self.ref(sc, a, value_use=True)[0]
            eb = self.ref(sc, b, value_use=True)[0]
            g = sc.mod.fresh("g")
            if ch.chance(50):
                sc.emit("if %s > %d:" % (sc.intvar, ch.int(0, 5)))
                sc.emit("    %s = %s" % (g, ea))
                sc.emit("else:")
                sc.emit("    %s = %s" % (g, eb))
            else:
                sc.emit("%s = %s if %s > %d else %s" % (g, ea, sc.intvar, ch.int(0, 5), eb))
            self.call_func_line(sc, g, "cond-alias", "local")
            return True
        if which == "wrap-if":
            if sc.intvar is None:
                return False
            sc.emit("if %s > %d:" % (sc.intvar, ch.int(0, 5)))
            inner = sc.sub()
            ok = self.stmt(inner)
            if not ok:
                inner.emit("pass")
            if ch.chance(50):
                sc.emit("else:")
                inner2 = sc.sub()
                if not self.stmt(inner2):
                    inner2.emit("pass")
            return True
        if which == "wrap-loop":
            if ch.chance(50):
                i = sc.mod.fresh("i")
                sc.emit("for %s in [1, 2]:" % i)
                inner = sc.sub()
                if not self.stmt(inner):
                    inner.emit("pass")
            else:
                c = sc.mod.fresh("c")
                sc.emit("%s = 0" % c)
                sc.emit("while %s < 2:" % c)
                inner = sc.sub()
                inner.emit("%s = %s + 1" % (c, c))
                self.stmt(inner)
            return True
        if which == "wrap-try":
            sc.emit("try:")
            inner = sc.sub()
            if not self.stmt(inner):
                inner.emit("pass")
            sc.emit("except Exception:")
            sc.emit("    pass")
            return True
        return False

    # -- project ----------------------------------------------------------------------------
    def build(self):
        ch = self.ch
        nfiles = ch.pick({1: [1], 2: [1, 2, 2], 3: [1, 2, 2, 3, 3]}[self.max_files])
        names = {1: ["main"], 2: ["hlpa", "main"], 3: ["hlpb", "hlpa", "main"]}[nfiles]
        counter = [0]
        self.layout = ch.pick(["flat", "flat", "flat", "package"]) if nfiles > 1 else "flat"
        self.theme = ch.pick(["mixed", "mixed", "classes", "classes", "values"])
        if self.no_classes and self.theme == "classes":
            self.theme = "values"
        self.def_types, self.scenarios = THEMES[self.theme]
        if self.no_classes:
            self.stepped["object-call(p2)/*"] = self.stepped.get("object-call(p2)/*", 0) + 1
            self.def_types = [t for t in self.def_types if t not in CLASS_DEF_TYPES] or ["func"]
            self.scenarios = [t for t in self.scenarios if t not in CLASS_SCENARIOS]
        self.mods = [Mod(n, i, counter, pkg="pkg" if (self.layout == "package" and n != "main") else None)
                     for i, n in enumerate(names)]
        for mod in self.mods:
            is_main = mod.name == "main"
            ndefs = ch.int(2, 5) if is_main or nfiles == 1 else ch.int(1, 4)
            if self.size:
                ndefs = self.size
            if mod.rank == 0:
                self.def_func(mod)
            for _ in range(ndefs):
                t = ch.pick(self.def_types)
                if t == "func":
                    self.def_func(mod)
                elif t == "ho":
                    self.def_ho(mod)
                elif t == "factory":
                    self.def_factory(mod)
                elif t == "class":
                    self.def_class(mod)
                elif t == "diamond":
                    self.def_diamond(mod)
                elif t == "globalfn":
                    self.def_globalfn(mod)
                elif t == "rec":
                    self.def_rec(mod)
                elif t == "recv":
                    self.def_recv(mod)
                elif t == "objfactory":
                    self.def_objfactory(mod)
            # module-level statements
            nst = ch.int(2, 6) if is_main else ch.int(0, 2)
            x = mod.fresh("x")
            mod.body.append(Line("%s = %d" % (x, ch.int(1, 9))))
            sc = Scope(self, mod, len(self.ents), 0, mod.body, x, at_module_level=True)
            for _ in range(nst):
                self.stmt(sc)
        case = self.render()
        # a configured entry method instead of %unit_init: a plain function of the main file
        cands = [e for e in self.mods[-1].ents if e.typ == "func" and getattr(e, "nested_in", None) is None]
        if cands and ch.chance(15):
            case["entry"] = {"name": ch.pick(cands[-2:]).name, "file": "main.py", "arg": ch.int(0, 9)}
        return case

    def render(self):
        files = {}
        kinds = {}
        pos = {}
        for mod in self.mods:
            lines = []
            for t in mod.import_lines:
                lines.append(Line(t))
            if mod.import_lines:
                lines.append(Line(""))
            lines.extend(mod.body)
            text = []
            for i, ln in enumerate(lines):
                text.append(ln.text)
                if ln.kind is not None:
                    kinds["%s:%d" % (mod.file, i + 1)] = [ln.kind, ln.via or "local"]
            files[mod.file] = "\n".join(text) + "\n"
            if mod.pkg:
                files[mod.pkg + "/__init__.py"] = ""
            for i, ln in enumerate(lines):
                pos[id(ln)] = (mod.file, i + 1)
        # a self-call is labelled by its lexical class; the edges it has to overriding methods of subclasses get an
        # edge-specific label "file:line>calleefile:calleeline"
        classes = [e for e in self.ents if e.typ == "class"]
        for r in self.self_calls:
            lexical = self.find_method(r["cls"], r["name"])
            if id(r["line"]) not in pos:
                continue
            for s_cls in classes:
                if s_cls is r["cls"] or not any(c is r["cls"] for c in self.mro(s_cls)):
                    continue
                runtime = self.find_method(s_cls, r["name"])
                if runtime is None or (lexical is not None and runtime[0] is lexical[0]):
                    continue
                dl = runtime[0].methods[r["name"]].get("line")
                if dl is None or id(dl) not in pos:
                    continue
                key = "%s:%d>%s:%d" % (pos[id(r["line"])] + pos[id(dl)])
                # the receiver's class is only known to the callee frame when the object was built by an __init__
                k = self.self_dispatch_kind(self.init_info(s_cls)[1])
                if k == "self-dispatch-subclass" and (id(r["cls"]), r["method"]) in self.indirect_entries:
                    k = "self-dispatch-indirect-entry-subclass"
                if k == "self-dispatch-subclass" and any(r2["name"] == r["method"] for r2 in self.self_calls):
                    # the method holding this self-call can itself be entered through a self-call: the receiver's
                    # class travels one level only
                    k = "self-dispatch-chained-subclass"
                kinds[key] = [k, r["line"].via or "local"]
        return {"files": files, "main": "main.py", "kinds": kinds, "stepped": dict(self.stepped)}


CLASS_DEF_TYPES = {"class", "diamond", "recv", "objfactory"}
CLASS_SCENARIOS = {"method", "cbclass", "recv", "objfactory", "classattr", "obj-loop", "field"}
# kinds whose callee is reached through a class or an instance (one root-cause family under --enable-p2)
OBJECT_KINDS = {
    "constructor", "constructor-inherited-init", "method", "inherited-method", "overriding-method", "self-method",
    "self-inherited-method", "self-dispatch-subclass", "self-dispatch-noinit-subclass",
    "self-dispatch-explicit-init-subclass", "self-dispatch-chained-subclass", "self-dispatch-indirect-entry-subclass",
    "stored-class",
    "callback-constructor", "method-on-field", "method-on-self-field", "method-on-returned-self", "method-on-param", "method-on-returned", "method-on-list-element",
    "callback-bound-method", "stored-field", "stored-field-self", "recursive-method", "super-init", "super-method",
    "explicit-base-init", "staticmethod", "classmethod", "class-attr-method", "diamond-method", "diamond-init",
    "diamond-class-attr",
}

THEMES = {
    "mixed": (
        ["func", "func", "func", "ho", "ho", "factory", "factory", "class", "class", "class", "class", "rec", "recv",
         "objfactory", "diamond", "globalfn"],
        ["func", "func", "func", "method", "method", "method", "callback", "callback", "callback", "factory",
         "factory", "alias", "list", "dict", "field", "cbclass", "recv", "objfactory", "rec", "rec", "classattr",
         "lambda", "nested", "cond-alias", "wrap-if", "wrap-loop", "wrap-try", "list-loop", "obj-loop"]),
    "classes": (
        ["func", "class", "class", "class", "class", "class", "diamond", "recv", "recv", "objfactory", "ho", "rec"],
        ["func", "method", "method", "method", "method", "method", "method", "recv", "recv", "objfactory",
         "objfactory", "cbclass", "cbclass", "classattr", "callback", "field", "wrap-if", "wrap-loop", "wrap-try",
         "obj-loop", "obj-loop"]),
    "values": (
        ["func", "func", "func", "ho", "ho", "ho", "ho", "factory", "factory", "factory", "class", "rec", "globalfn"],
        ["func", "callback", "callback", "callback", "factory", "factory", "factory", "alias", "list", "list", "dict",
         "dict", "field", "field", "cond-alias", "cond-alias", "lambda", "nested", "nested", "rec", "wrap-if",
         "wrap-loop", "wrap-try", "list-loop", "list-loop"]),
}


def random_project(seed, **kw):
    return Gen(RandomChooser(seed), **kw).build()


def projects(avoid=(), extended=True, max_files=3, no_classes=False):
    """Hypothesis strategy producing case dicts."""
    from hypothesis import strategies as st

    @st.composite
    def s(draw):
        # One 48-bit integer drawn from Hypothesis seeds a deterministic chooser: drawing every choice separately
        # makes Hypothesis favour the all-smallest programs and a third of the cases come out as duplicates.
        seed = draw(st.integers(0, 2 ** 48 - 1))
        case = Gen(RandomChooser(seed), avoid=avoid, extended=extended, max_files=max_files, no_classes=no_classes).build()
        case["gen_seed"] = seed
        return case
    return s()
