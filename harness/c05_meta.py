"""C05 helper: the metamorphic half -- consistent renaming.

One declaration (an identity = (owning scope, name)) is renamed to a fresh name together with exactly the
occurrences the oracle binds to it.  Both programs go through the full pipeline (`lian run`, entry %unit_init, one
source rule `srcobj.get()`, one sink rule `sink(arg0)`); bindings (as a relation between source positions), the P1
call graph, the P3 call paths and the taint flows must be identical up to the name.
"""
import copy
import os

from harness import common, lianrun
from harness import c05_lian as L
from harness import c05_py as P
from harness import c05_js as J

FRESH = "q7"


# ---------------------------------------------------------------------------------------------
# Python: taint-flavoured scope trees (same tree format as c05_py, extra statement kinds)

def py_taint_strategy():
    from hypothesis import strategies as st
    name_st = st.sampled_from(P.ALPHABET)

    @st.composite
    def tree(draw):
        body = []
        funcs = []

        def func(depth):
            nparams = draw(st.integers(0, 2))
            ps = draw(st.lists(name_st, min_size=nparams, max_size=nparams, unique=True))
            c = P.mk_scope("func", draw(name_st), ps)
            fb = []
            if draw(st.integers(0, 9)) == 0:
                fb.append({"t": "global", "n": draw(name_st)})
            for _ in range(draw(st.integers(1, 4))):
                r = draw(st.integers(0, 99))
                if r < 25:
                    fb.append({"t": "read", "n": draw(name_st), "f": "sink"})
                elif r < 40:
                    fb.append({"t": "assign", "n": draw(name_st), "v": draw(st.integers(1, 9))})
                elif r < 50:
                    fb.append({"t": "copy", "n": draw(name_st), "from": draw(name_st)})
                elif r < 58:
                    fb.append({"t": "src", "n": draw(name_st)})
                elif r < 75:
                    fb.append({"t": "call2", "fn": draw(name_st), "n": draw(name_st), "to": draw(name_st)})
                elif r < 85 and depth < 2:
                    fb.append({"t": "def", "s": func(depth + 1)})
                else:
                    fb.append({"t": "read", "n": draw(name_st), "f": draw(st.sampled_from(["plain", "call"]))})
            if draw(st.integers(0, 2)):
                fb.append({"t": "ret", "n": draw(name_st)})
            c["body"] = fb
            return c

        for _ in range(draw(st.integers(3, 8))):
            r = draw(st.integers(0, 99))
            if r < 18:
                body.append({"t": "src", "n": draw(name_st)})
            elif r < 30:
                body.append({"t": "assign", "n": draw(name_st), "v": draw(st.integers(1, 9))})
            elif r < 60:
                body.append({"t": "def", "s": func(1)})
            elif r < 68:
                c = P.mk_scope("class", draw(name_st))
                m = func(2)
                m["params"] = ["self"] + [p for p in m["params"]]
                c["body"] = [{"t": "def", "s": m}]
                body.append({"t": "class", "s": c})
            elif r < 85:
                body.append({"t": "call2", "fn": draw(name_st), "n": draw(name_st), "to": draw(name_st)})
            else:
                body.append({"t": "read", "n": draw(name_st), "f": "sink"})
        body.append({"t": "call2", "fn": draw(name_st), "n": draw(name_st), "to": draw(name_st)})
        body.append({"t": "read", "n": draw(name_st), "f": "sink"})
        t = P.mk_scope("module")
        t["body"] = body
        return {"tree": t, "pick": draw(st.integers(0, 1000)), "generic": False}

    @st.composite
    def generic(draw):
        return {"tree": draw(P.tree_strategy(extra_forms=False, imports=True)), "pick": draw(st.integers(0, 1000)),
                "generic": True}

    return st.one_of(tree(), tree(), generic())


def py_names_of_stmt(s):
    """[(field, name)] of the identifier fields of a statement (not descending into nested scopes)"""
    t = s["t"]
    if t in ("assign", "aug", "read", "ret", "for", "with", "except", "global", "nonlocal", "src"):
        return [("n", s["n"])]
    if t == "copy":
        return [("n", s["n"]), ("from", s["from"])]
    if t == "call2":
        return [("fn", s["fn"]), ("n", s["n"]), ("to", s["to"])]
    if t in ("import", "from"):
        return [("as", s["as"])] if s.get("as") else []
    return []


def py_identities(tree):
    """renamable identities [(owner scope or 'module', name)] in a deterministic order, with their occurrences
    as edit lists [(container dict, field)]."""
    info = P.Info(tree)
    ids = {}
    order = []

    def add(owner, name, container, field):
        key = (id(owner) if owner != "module" else 0, name)
        if key not in ids:
            ids[key] = {"owner": owner, "name": name, "edits": [], "uses": 0, "binds": 0, "bad": False}
            order.append(key)
        ids[key]["edits"].append((container, field))
        return ids[key]

    for sc in info.scopes:
        for i, p in enumerate(sc["params"]):
            e = add(sc, p, sc["params"], i)
            e["binds"] += 1
        for s in P.walk_stmts(sc["body"]):
            t = s["t"]
            if t in ("def", "class"):
                owner, how = info.resolve(sc, s["s"]["name"])
                e = add(owner, s["s"]["name"], s["s"], "name")
                e["binds"] += 1
                continue
            for field, name in py_names_of_stmt(s):
                owner, how = info.resolve(sc, name)
                e = add(owner, name, s, field)
                if t in ("assign", "for", "with", "except", "src", "import", "from") or field == "to" or \
                        (t == "copy" and field == "n"):
                    e["binds"] += 1
                else:
                    e["uses"] += 1
            if t in ("import", "from") and not s.get("as"):
                nm = s["m"].split(".")[0] if t == "import" else s["n"]
                owner, how = info.resolve(sc, nm)
                add(owner, nm, s, None)["bad"] = True          # cannot be renamed without changing the statement
    out = []
    for key in order:
        e = ids[key]
        if e["bad"] or e["name"] in ("self",) or not e["binds"] or not e["uses"]:
            continue
        if e["owner"] == "module" and not info.module_binds(e["name"]):
            continue
        out.append(e)
    return out, info


def py_render(tree):
    """render with the extra statement kinds of the taint profile"""
    # translate the extra kinds into c05_py's basic kinds with explicit forms
    return P.render(tree)


def build_py_case(spec):
    tree = copy.deepcopy(spec["tree"])
    P.fixup(tree)
    src, occs, sl = P.render(tree)
    cands, info = py_identities(tree)
    if not cands:
        return None
    e = cands[spec["pick"] % len(cands)]
    owner = e["owner"]
    where = ["module", 0] if owner == "module" else [owner["kind"], sl[id(owner)]]
    for container, field in e["edits"]:
        container[field] = FRESH
    src2, occs2, sl2 = P.render(tree)
    if src2.count("\n") != src.count("\n"):
        return None
    import_bound = any(isinstance(c, dict) and c.get("t") in ("import", "from") for c, f in e["edits"])
    return {"kind": "meta", "lang": "python", "files": {"a.py": src}, "renamed": {"a.py": src2},
            "rename": {"name": e["name"], "fresh": FRESH, "scope": where,
                       "decl_kind": "import-bound-name" if import_bound else where[0]}}


# ---------------------------------------------------------------------------------------------
# JavaScript

def js_identities(prog):
    out = []
    for sc in prog.scopes:
        for name in sorted(sc.decls):
            out.append(sc.decls[name])
    return out


def build_js_case(spec):
    tree = copy.deepcopy(spec["tree"])
    J.fixup(tree)
    prog = J.Program(tree)
    res = prog.resolved()
    decls = [d for d in js_identities(prog) if any(dd is d and o.role != "def" for o, dd in res)]
    if not decls:
        return None
    d = decls[spec["pick"] % len(decls)]
    occ_decl = {}
    for o, dd in res:
        occ_decl[(o.line, o.role == "def" and o.scope.kind == "block" and o.scope.bk == "for")] = dd
    lines = set(d.lines)
    t1 = J.strip(copy.deepcopy(tree))

    def walk(stmts):
        for s in stmts:
            ln = s.get("_line")
            t = s["t"]
            if t in ("decl", "read", "write", "call"):
                if s["n"] == d.name and occ_decl.get((ln, False)) is d:
                    s["n"] = FRESH
            elif t == "block":
                if s["bk"] == "for" and s.get("n") == d.name and occ_decl.get((ln, True)) is d:
                    s["n"] = FRESH
                walk(s["body"])
            elif t == "func":
                style = s.get("style", "decl")
                if s["name"] == d.name and ((ln, "method_decl") in lines if style == "decl"
                                            else (ln, "variable_decl") in lines):
                    s["name"] = FRESH
                if (ln, "parameter_decl") in lines and d.name in s["params"]:
                    s["params"] = [FRESH if p == d.name else p for p in s["params"]]
                walk(s["body"])
    walk(tree["body"])
    t2 = J.strip(tree)
    return {"kind": "meta", "lang": "javascript", "tree": t1, "tree2": t2,
            "files": {"a.js": prog.source}, "renamed": {"a.js": J.Program(copy.deepcopy(t2)).source},
            "rename": {"name": d.name, "fresh": FRESH, "scope": [d.scope.kind, d.scope.line], "decl_kind": d.kind}}


def meta_strategy(lang):
    from hypothesis import strategies as st
    if lang == "python":
        return py_taint_strategy()

    @st.composite
    def js(draw):
        return {"tree": draw(J.tree_strategy(bare_blocks=False, calls=True)), "pick": draw(st.integers(0, 1000))}
    return js()


def build_case(spec, lang):
    return build_py_case(spec) if lang == "python" else build_js_case(spec)


# ---------------------------------------------------------------------------------------------
# running and comparing

def shipped_propagation(lang):
    import yaml
    p = os.path.join(common.REPO, "default_settings", "propagation.yaml")
    try:
        with open(p) as f:
            data = yaml.safe_load(f)
        return [g for g in data if isinstance(g, dict) and g.get("lang") == lang]
    except Exception:
        return []


_PROP_CACHE = {}


def settings_dir(lang):
    key = (os.getpid(), lang)
    d = os.path.join(lianrun.scratch_dir(), "c05-settings-%s" % lang)
    if key in _PROP_CACHE and os.path.isdir(d):
        return d
    lianrun.write_settings(
        d, entry=[{"method_list": ["%unit_init"]}],
        source=[{"lang": lang, "rules": [{"operation": "object_call", "name": "srcobj.get"}]}],
        sink=[{"lang": lang, "rules": [{"operation": "call_stmt", "name": "sink", "target": ["\\%arg0"]}]}],
        propagation=shipped_propagation(lang))
    _PROP_CACHE[key] = True
    return d


def observe(files, lang, rename=None, prog=None):
    """run the pipeline -> dict of normalised observations (positions are (unit, line); the fresh name is mapped
    back to the original one)."""
    back = (lambda n: rename["name"] if (rename and n == rename["fresh"]) else n)
    b, res = L.analyze(files, lang, export=True, sub_command="run", settings_dir=settings_dir(lang),
                       capture_flows=True)
    try:
        if b.error:
            return {"error": b.error[:400]}, b

        def pos(stmt_id):
            r = b.rows.get(stmt_id)
            if r is None:
                return ("?", stmt_id if stmt_id < 0 else -999)
            return (r["unit"], r["line"], r["op"] if r["op"] in ("method_decl",) else "")

        obs = {"bindings": {}, "call_graph": set(), "call_paths": set(), "flows": set()}
        for s in b.symbols:
            if s["name"].startswith("%") or s["op"] == "variable_decl":
                continue          # (whether a repeated `var` keeps its own declaration row is representation)
            d = b.describe(s["symbol_id"])
            if d["kind"] == "decl":
                # identity of the bound VARIABLE, not of the row: lian may keep one row per `var` statement or
                # only the first one, depending on unrelated declarations
                if lang == "python":
                    tgt = ("decl", d["unit"], d["owner"][0], d["owner"][1], back(P.decl_name(d)),
                           "import" if d["op"] in ("import_stmt", "from_import_stmt") else "")
                else:
                    md = prog.decl_at.get((d["line"], d["name"], "param" if d["op"] == "parameter_decl" else "decl")) \
                        if prog is not None else None
                    if md is not None:
                        tgt = ("decl", md.scope.kind, md.scope.line, back(md.name))
                    else:
                        tgt = ("row", d["unit"], d["line"], d["op"], back(d["name"]))
            elif d["kind"] == "module":
                tgt = ("module", d["path"])
            else:
                tgt = (d["kind"],)
            obs["bindings"].setdefault((s["unit"], s["line"], s["op"], back(s["name"])), set()).add(tgt)
        cg = res.feather("semantic_p1/call_graph_p1")
        if cg is not None:
            for row in cg.itertuples():
                callee = int(row.target_method_id)
                obs["call_graph"].add((pos(int(row.source_method_id))[:2], pos(int(row.stmt_id))[:2],
                                       pos(callee)[:2] if callee > 0 else ("external",)))
        paths = res.loader.get_call_paths_p3()
        for p in paths or ():
            tp = []
            for cs in p:
                tp.append((pos(cs.caller_id)[:2], pos(cs.call_stmt_id)[:2], pos(cs.callee_id)[:2]))
            obs["call_paths"].add(tuple(tp))
        for fl in res.flows:
            for f in fl:
                obs["flows"].add((pos(f.source_stmt_id)[:2], pos(f.sink_stmt_id)[:2]))
        return obs, b
    finally:
        lianrun.cleanup(res)


def oracle_relation(case, which):
    """binding relation of the oracle as {(line, name mapped back): (owner kind, owner line)}"""
    ren = case["rename"]
    back = (lambda n: ren["name"] if (which == "renamed" and n == ren["fresh"]) else n)
    if case["lang"] == "python":
        out = {}
        for rel, src in case[which].items():
            orc = P.PyOracle(src, rel)
            for r in orc.resolved():
                out.setdefault((rel, r["line"], back(r["name"]), r["role"]), set()).add((r["owner"].kind, r["owner"].line))
        return out
    prog = J.Program(copy.deepcopy(case["tree"] if which == "files" else case["tree2"]))
    out = {}
    for o, d in prog.resolved():
        out.setdefault(("a.js", o.line, back(o.name), o.role), set()).add(
            None if d is None else (d.scope.kind, d.scope.line, tuple(sorted(d.lines))))
    return out


def check_meta(case, out):
    lang = case["lang"]
    ren = case["rename"]
    out.skipped = False
    out.stepovers = []
    # 0. self-check: the renaming is consistent according to the oracle
    try:
        r1, r2 = oracle_relation(case, "files"), oracle_relation(case, "renamed")
    except (SyntaxError, RuntimeError) as e:
        out.errors.append("renamed program is not analysable: %r" % (e,))
        return
    if r1 != r2:
        bad = sorted(k for k in set(r1) | set(r2) if r1.get(k) != r2.get(k))[:3]
        out.errors.append("renaming %s -> %s is not binding-preserving according to the oracle at %s" % (
            ren["name"], ren["fresh"], bad))
        return
    # 1. the original program must not touch an open known finding (stepped over, counted)
    prog1 = J.Program(copy.deepcopy(case["tree"])) if lang == "javascript" else None
    prog2 = J.Program(copy.deepcopy(case["tree2"])) if lang == "javascript" else None
    o1, b1 = observe(case["files"], lang, prog=prog1)
    if "error" in o1:
        out.discrepancies.append(((lang, "rename", "crash", "original"), "lian failed on the original: " + o1["error"]))
        return
    if lang == "python":
        ds = []
        for rel, src in case["files"].items():
            d0, _ = P.compare_unit(rel, P.PyOracle(src, rel), b1)
            ds.extend(d0)
    else:
        prog = J.Program(copy.deepcopy(case["tree"]))
        ds, _ = J.compare("a.js", prog, b1)
        if not ds and any(d.written_before_decl for sc in prog.scopes for d in sc.decls.values()):
            # the oracle accepts the implicit-global row such an assignment creates for otherwise undeclared
            # names; renaming moves that row to the new name -> same root cause as the known finding
            sig = ("javascript", "function", "implicit-global-row", "variable-assigned-before-its-declaration-in-the-function")
            if common.classify("C05", ("C05",) + sig)[0] == "known":
                ds = [(sig, "assignment before declaration")]
    if not ds and lang == "javascript":
        # an assignment inside a function to a variable / parameter / function name of an ENCLOSING function makes lian
        # add a spurious unit-level row for that name (open finding); other uses of the name may bind to that row,
        # and a renaming moves it -> same root cause
        sig = ("javascript", "function", "implicit-global-row", "unresolved")
        if common.classify("C05", ("C05",) + sig)[0] == "known":
            for pr in (prog, J.Program(copy.deepcopy(case["tree2"]))):
                for o in pr.occs:
                    if o.role != "write":
                        continue
                    d = pr.resolve(o.scope, o.name)
                    fn = o.scope
                    while fn is not None and fn.kind == "block":
                        fn = fn.parent
                    if d is not None and d.scope.kind != "module" and fn is not None and fn.kind == "function":
                        ds_scope = d.scope
                        while ds_scope is not None and ds_scope.kind == "block":
                            ds_scope = ds_scope.parent
                        if ds_scope is not fn:
                            ds = [(sig, "assignment to a variable of an enclosing function")]
    if ds:
        out.skipped = True
        for sig, what in ds:
            full = ("C05",) + tuple(sig)
            kind, entry = common.classify("C05", full)
            out.stepovers.append((entry.get("id") if kind == "known" else "unclassified:" + "/".join(full)))
        out.stepovers = sorted(set(out.stepovers))
        if not os.environ.get("C05_META_NO_SKIP"):
            return
    o2, b2 = observe(case["renamed"], lang, rename=ren, prog=prog2)
    if "error" in o2:
        out.discrepancies.append(((lang, "rename", "crash", "renamed"), "lian failed on the renamed program: " + o2["error"]))
        return
    # 1b. ... and neither must the renamed one: a binding defect that only shows under the new name (or that the
    # binding oracle reports for one of the two versions only) is that defect, reported by the binding half, not a
    # fresh violation of the renaming relation
    if lang == "python":
        ds2 = []
        for rel, src in case["renamed"].items():
            d0, _ = P.compare_unit(rel, P.PyOracle(src, rel), b2)
            ds2.extend(d0)
    else:
        ds2, _ = J.compare("a.js", J.Program(copy.deepcopy(case["tree2"])), b2)
    if ds2:
        out.skipped = True
        for sig, what in ds2:
            full = ("C05",) + tuple(sig)
            kind, entry = common.classify("C05", full)
            out.stepovers.append((entry.get("id") if kind == "known" else "unclassified:" + "/".join(full)))
        out.stepovers = sorted(set(out.stepovers))
        if not os.environ.get("C05_META_NO_SKIP"):
            return
    out.stats["compared-bindings"] = len(o1["bindings"])
    out.stats["call-graph-edges"] = len(o1["call_graph"])
    out.stats["call-paths"] = len(o1["call_paths"])
    out.stats["flows"] = len(o1["flows"])
    out.nontrivial = True
    out.labels.add("meta:%s:renamed-%s" % (lang, ren.get("decl_kind") or ren["scope"][0]))
    if o1["flows"]:
        out.labels.add("meta:%s:has-flows" % lang)
    if o1["call_paths"]:
        out.labels.add("meta:%s:has-call-paths" % lang)
    if any(len(e) == 3 and e[2] != ("external",) for e in o1["call_graph"]):
        out.labels.add("meta:%s:has-internal-call-edges" % lang)
    what_kind = ren.get("decl_kind") or ren["scope"][0]
    for key, label in (("bindings", "bindings"), ("call_graph", "call-graph"), ("call_paths", "call-paths"),
                       ("flows", "flows")):
        a, c = o1[key], o2[key]
        if a != c:
            if key == "bindings":
                diff = sorted(k for k in set(a) | set(c) if a.get(k) != c.get(k))[:2]
                desc = "; ".join("%s:%d `%s`: %s before, %s after" % (k[0], k[1], k[3], sorted(a.get(k, ())),
                                                                     sorted(c.get(k, ()))) for k in diff)
            else:
                desc = "only before: %s; only after: %s" % (sorted(a - c)[:2], sorted(c - a)[:2])
            out.discrepancies.append(((lang, "rename", label, what_kind),
                                      "renaming %s `%s` (scope %s) to `%s` changes the %s: %s" % (
                                          what_kind, ren["name"], ren["scope"], ren["fresh"], label, desc)))
