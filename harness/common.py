"""Shared runner infrastructure: collectors, sharded execution, known findings, evidence, exit codes.

Contract (see DESIGN.md section 1):
  exit 0  property held on everything explored (KNOWN-FINDING lines allowed)
  exit 1  a line "VIOLATION property=<id> replay=<path>" was printed
  exit 2  harness error (never reported as a violation)
"""
import collections
import hashlib
import json
import multiprocessing
import os
import shutil
import subprocess
import sys
import tempfile
import time
import traceback

VERIF = os.path.dirname(os.path.dirname(os.path.abspath(__file__)))
REPO = os.environ.get("LIAN_REPO", "/repo")
REPO_SRC = os.path.join(REPO, "src")
PY = sys.executable
NCPU = int(os.environ.get("VERIF_CORES", str(os.cpu_count() or 4)))
KNOWN_FINDINGS = os.path.join(VERIF, "known_findings.json")
OUT_DIR = os.path.join(VERIF, "out")

MAX_EXAMPLES_PER_BUCKET = 3
MAX_SAMPLES = 5


def jhash(obj):
    s = json.dumps(obj, sort_keys=True, default=str)
    return hashlib.blake2b(s.encode("utf-8", "replace"), digest_size=8).hexdigest()


def jsize(obj):
    try:
        return len(json.dumps(obj, default=str))
    except Exception:
        return 1 << 30


class Collector:
    """Picklable accumulator for one shard (or the merged run)."""

    def __init__(self):
        self.evaluations = 0
        self.nontrivial = set()          # content hashes of non-trivial cases
        self.nontrivial_enum = 0         # non-trivial cases distinct by construction (enumerations)
        self.labels = collections.Counter()
        self.samples = []
        self.buckets = {}                # sig(tuple) -> {"count", "what", "examples"}
        self.discards = collections.Counter()
        self.stepovers = collections.Counter()
        self.extra = collections.Counter()   # free-form numeric evidence
        self.errors = []                 # harness errors (strings)
        self.notes = []

    # -- recording -------------------------------------------------------
    def case(self, n=1):
        self.evaluations += n

    def nontriv(self, key):
        self.nontrivial.add(key if isinstance(key, str) and len(key) == 16 else jhash(key))

    def label(self, *names):
        for n in names:
            self.labels[n] += 1

    def sample(self, case):
        if len(self.samples) < MAX_SAMPLES:
            self.samples.append(case)

    def discrepancy(self, sig, what, case):
        sig = tuple(sig)
        b = self.buckets.get(sig)
        if b is None:
            b = self.buckets[sig] = {"count": 0, "what": what, "examples": []}
        b["count"] += 1
        ex = b["examples"]
        ex.append(case)
        ex.sort(key=jsize)
        del ex[MAX_EXAMPLES_PER_BUCKET:]

    def error(self, msg):
        if len(self.errors) < 20:
            self.errors.append(msg)

    # -- merging ---------------------------------------------------------
    def merge(self, other):
        self.evaluations += other.evaluations
        self.nontrivial |= other.nontrivial
        self.nontrivial_enum += other.nontrivial_enum
        self.labels.update(other.labels)
        for s in other.samples:
            if len(self.samples) < MAX_SAMPLES:
                self.samples.append(s)
        for sig, b in other.buckets.items():
            mine = self.buckets.get(sig)
            if mine is None:
                self.buckets[sig] = {"count": b["count"], "what": b["what"], "examples": list(b["examples"])}
            else:
                mine["count"] += b["count"]
                mine["examples"].extend(b["examples"])
                mine["examples"].sort(key=jsize)
                del mine["examples"][MAX_EXAMPLES_PER_BUCKET:]
        self.discards.update(other.discards)
        self.stepovers.update(other.stepovers)
        self.extra.update(other.extra)
        self.errors.extend(other.errors)
        self.notes.extend(other.notes)
        return self


# ---------------------------------------------------------------------------------------------
# sharded execution

def _shard_entry(packed):
    fn_module, fn_name, arg = packed
    import importlib
    try:
        mod = importlib.import_module(fn_module)
        fn = getattr(mod, fn_name)
        res = fn(arg)
        if not isinstance(res, Collector):
            c = Collector()
            c.error("shard %s.%s returned %r" % (fn_module, fn_name, type(res)))
            return c
        return res
    except SystemExit as e:
        c = Collector()
        c.error("shard %s.%s(%r) SystemExit %r\n%s" % (fn_module, fn_name, arg, e.code, traceback.format_exc()))
        return c
    except BaseException:
        c = Collector()
        c.error("shard %s.%s(%r) crashed:\n%s" % (fn_module, fn_name, arg, traceback.format_exc()))
        return c


def run_shards(fn, args, procs=None):
    """Run fn(arg) -> Collector for each arg over a process pool and merge the results (deterministic
    merge order = order of args)."""
    procs = min(procs or NCPU, max(1, len(args)))
    packed = [(fn.__module__, fn.__name__, a) for a in args]
    total = Collector()
    if procs <= 1 or os.environ.get("VERIF_NOPOOL"):
        for p in packed:
            total.merge(_shard_entry(p))
        return total
    ctx = multiprocessing.get_context("fork")
    with ctx.Pool(procs, maxtasksperchild=None) as pool:
        for res in pool.imap(_shard_entry, packed, chunksize=1):
            total.merge(res)
    return total


def shard_seed(base_seed, shard):
    return (int(base_seed) * 1009 + int(shard)) & 0x7FFFFFFF


# ---------------------------------------------------------------------------------------------
# scratch directories

class Scratch:
    def __init__(self, prefix="lianverif-"):
        self.prefix = prefix
        self.path = None

    def __enter__(self):
        self.path = tempfile.mkdtemp(prefix=self.prefix)
        return self.path

    def __exit__(self, *a):
        shutil.rmtree(self.path, ignore_errors=True)
        return False


# ---------------------------------------------------------------------------------------------
# known findings

def sig_matches(pattern, sig):
    if len(pattern) != len(sig):
        return False
    for p, s in zip(pattern, sig):
        if p == "*":
            continue
        if str(p) != str(s):
            return False
    return True


def load_known(prop_id):
    """Entries of known_findings.json for one property (a per-property file known_findings.d/<id>.json is read as well
    if present: used while a check is being developed, merged by tools/merge_known.py).  Read-only at run time."""
    out = []
    paths = [KNOWN_FINDINGS, os.path.join(VERIF, "known_findings.d", "%s.json" % prop_id)]
    for path in paths:
        if not os.path.exists(path):
            continue
        with open(path) as f:
            data = json.load(f)
        out.extend(e for e in data.get("findings", []) if e.get("property") == prop_id)
    return out


def classify(prop_id, sig):
    """-> ('known', entry) | ('new', None).  'fixed' entries suppress nothing."""
    for e in load_known(prop_id):
        if e.get("status") == "open" and sig_matches(e["signature"], sig):
            return "known", e
    return "new", None


# ---------------------------------------------------------------------------------------------
# finalisation

def write_violation_replay(prop_id, sig, what, case):
    d = os.path.join(OUT_DIR, "violations", prop_id)
    os.makedirs(d, exist_ok=True)
    name = "v-%s.json" % jhash([list(sig), case])
    path = os.path.join(d, name)
    with open(path, "w") as f:
        json.dump({"property": prop_id, "signature": list(sig), "what": what, "case": case}, f, indent=1, default=str)
    return path


def confirm_in_fresh_process(prop_id, path, timeout=600):
    """Re-run a saved case in a fresh interpreter.  Returns True if the violation reproduces."""
    env = dict(os.environ)
    env["PYTHONHASHSEED"] = "0"
    env["VERIF_CONFIRM"] = "1"
    try:
        p = subprocess.run([PY, os.path.join(VERIF, "check.py"), prop_id, "--replay", path],
                           env=env, stdout=subprocess.PIPE, stderr=subprocess.STDOUT, timeout=timeout, text=True)
    except subprocess.TimeoutExpired:
        return False, "timeout"
    return p.returncode == 1, p.stdout[-2000:]


def finish(prop_id, tier, seed, col, t0, rule, assumptions, level="exploration", exhaustive=False,
           confirm=True, extra_coverage=None):
    """Classify buckets, write evidence, print result lines, return the exit code."""
    known_hits = {}
    violations = []
    for sig, b in sorted(col.buckets.items(), key=lambda kv: str(kv[0])):
        kind, entry = classify(prop_id, sig)
        if kind == "known":
            k = entry.get("id") or jhash(entry["signature"])
            kh = known_hits.setdefault(k, {"entry": entry, "count": 0, "signatures": []})
            kh["count"] += b["count"]
            kh["signatures"].append(list(sig))
        else:
            violations.append((sig, b))

    exit_code = 0
    reported = []
    unconfirmed = []
    for sig, b in violations:
        case = b["examples"][0]
        path = write_violation_replay(prop_id, sig, b["what"], case)
        ok, out = (True, "") if (not confirm or os.environ.get("VERIF_CONFIRM")) else confirm_in_fresh_process(prop_id, path)
        if ok:
            reported.append((sig, b, path))
        else:
            unconfirmed.append((sig, b, path, out))

    for k, kh in known_hits.items():
        print("KNOWN-FINDING: property=%s %s (hits=%d)" % (prop_id, kh["entry"]["what"], kh["count"]))
    for sig, b, path in reported:
        print("VIOLATION property=%s replay=%s" % (prop_id, path))
        print("  signature=%s count=%d what=%s" % (list(sig), b["count"], b["what"]))
        exit_code = 1
    for sig, b, path, out in unconfirmed:
        print("HARNESS-ERROR: property=%s discrepancy did not reproduce in a fresh process: %s (%s)" % (prop_id, list(sig), path))
        print("   " + out.replace("\n", "\n   ")[-1500:])
        if exit_code == 0:
            exit_code = 2
    for e in col.errors:
        print("HARNESS-ERROR: property=%s %s" % (prop_id, e))
        if exit_code == 0:
            exit_code = 2

    nontriv = len(col.nontrivial) + col.nontrivial_enum
    coverage = {
        "evaluations": int(col.evaluations),
        "distinct_nontrivial": int(nontriv),
        "rule": rule,
        "samples": col.samples[:MAX_SAMPLES] or ["(no sample recorded)"],
        "exhaustive": bool(exhaustive),
        "labels": dict(sorted(col.labels.items())),
        "discarded": dict(sorted(col.discards.items())),
        "step_overs": dict(sorted(col.stepovers.items())),
        "known_finding_hits": {k: {"what": v["entry"]["what"], "count": v["count"], "signatures": v["signatures"][:8]}
                               for k, v in known_hits.items()},
        "violation_signatures": [list(s) for s, _, _ in reported],
        "counters": dict(sorted(col.extra.items())),
        "notes": col.notes[:20],
    }
    if extra_coverage:
        coverage.update(extra_coverage)
    ev = {
        "property_id": prop_id,
        "tier": tier,
        "seed": int(seed),
        "level": level,
        "coverage": coverage,
        "assumptions": list(assumptions),
        "wall_s": round(time.time() - t0, 2),
        "violations": len(reported),
    }
    if not os.environ.get("VERIF_CONFIRM") and not os.environ.get("VERIF_NO_EVIDENCE"):
        os.makedirs(os.path.join(VERIF, "evidence"), exist_ok=True)
        tmp = os.path.join(VERIF, "evidence", ".%s.json.tmp" % prop_id)
        with open(tmp, "w") as f:
            json.dump(ev, f, indent=1, default=str)
        os.replace(tmp, os.path.join(VERIF, "evidence", "%s.json" % prop_id))
    print("%s tier=%s seed=%s evaluations=%d distinct_nontrivial=%d known=%d violations=%d wall=%.1fs exit=%d" % (
        prop_id, tier, seed, col.evaluations, nontriv, len(known_hits), len(reported), time.time() - t0, exit_code))
    return exit_code


# ---------------------------------------------------------------------------------------------
# replays

def replay_files(prop_id):
    d = os.path.join(VERIF, "replays", prop_id)
    if not os.path.isdir(d):
        return []
    return [os.path.join(d, n) for n in sorted(os.listdir(d)) if n.endswith(".json")]


def load_replay(path):
    with open(path) as f:
        return json.load(f)


# ---------------------------------------------------------------------------------------------
# generic ddmin for list-shaped cases

def ddmin(items, still_fails, max_tests=400):
    """Classic delta debugging on a list; still_fails(list)->bool.  Returns a 1-minimal-ish sublist."""
    items = list(items)
    n = 2
    tests = 0
    while len(items) >= 2 and tests < max_tests:
        chunk = max(1, len(items) // n)
        reduced = False
        for i in range(0, len(items), chunk):
            cand = items[:i] + items[i + chunk:]
            tests += 1
            if cand and still_fails(cand):
                items = cand
                n = max(n - 1, 2)
                reduced = True
                break
            if tests >= max_tests:
                break
        if not reduced:
            if chunk == 1:
                break
            n = min(len(items), n * 2)
    return items
