"""C15 — every result saved through the loader is what later reads and the files return.

Stateful model-based test of the loader families of lian/util/loader.py against a dict model
(one operation history = one Hypothesis value, replayable without Hypothesis), plus a "real items"
clause: every Loader.save_*() made by whole-pipeline runs on small fixed projects is compared with
what the pipeline's own loader and a fresh Loader(options).restore() return.
"""
import collections
import contextlib
import io
import os
import shutil
import tempfile
import traceback

from harness import common
from harness.common import Collector
from harness import c15_norm as N
from harness import c15_families as F
from harness.c15_norm import EMPTY

ID = "C15"

RULE = ("one case = one operation history over one loader family: save(id, content) / get(id) / contain(id) / get_all / export / "
        "export_indexing / reopen (export + export_indexing + fresh loader on the same directory + restore) / fault-export "
        "(directory removed or replaced by a file, then two rounds of reads), <= 30 operations (thorough: 40) over a 4-id "
        "alphabet, contents drawn per family in the shapes lian's pipeline saves, item- and bundle-cache capacities 1..3, "
        "config.MAX_ROWS in {1,3,8}; dict model; every read is compared under the family's normal form after every get and, "
        "after a reopen, for every view of the model, plus the ids present in the bundle files (pandas), plus the pending-row "
        "bound after every save. 38 families (20 bundle loaders incl. GIR, scope hierarchy, CFG, symbol/state-flow graphs, bit "
        "vectors, statement status, symbol-state space, defined symbols/states, parameter mappings; 18 whole-file loaders incl. "
        "one-to-many maps, summaries, call graph, call paths, entry points). One case in six runs 'raw' (no step-over). "
        "Non-trivial = the history re-saves an id after a get or an export of the same id, or its exports produced >= 2 "
        "bundles; distinct by content hash of the whole history. Plus 'real' cases: every Loader.save_* call of a full lian run "
        "on 7 fixed Python projects (with and without P2; default MAX_ROWS, 50 and 8) is recorded (normal form at the time of "
        "the call) and each recorded key is read back from the pipeline's own loader and from a fresh Loader(options).restore().")

ASSUMPTIONS = [
    "normal forms: container type (list/set/numpy array/range), number representation (int, numpy int, integral float) and "
    "DataModel-vs-list-of-dicts are not content; None, an empty DataModel and an item without rows are the same EMPTY value "
    "- except that an item that WAS saved must not come back as a bare [] when its type is a dict / graph / manager",
    "a NaN/None cell and a missing column are the same (tables are stored in feather files with a union of columns)",
    "State.value is compared through str() (the loader stores the string form by design); ParameterMapping."
    "parameter_access_path None and the default AccessPoint() both mean 'no path'",
    "fields that no flatten function writes (State.data_type_ids, BitVectorManager.bit_vector_id, MethodSummaryTemplate."
    "raw_to_new_index entries of indexes no symbol map refers to) are transient, not content",
    "isolated graph nodes are not content (graphs are stored as edge lists and every reader walks edges); an SFG node's "
    "attributes are a function of its identity key",
    "ids are non-zero (DataModel.query_index_column_value treats 0 as 'no value'; lian ids start at 100 / are negative for "
    "builtins / 64-bit hashes for P3 contexts); tuple ids (no caller uses them any more) are not generated",
    "reopen always exports and exports the index first: what a loader that was never exported returns is outside the property",
    "one loader instance holds one shape of content (P1 defined-symbols = statement ids, P2/P3 = SymbolDefNodes; symbol and "
    "state bit vectors are separate loaders), as in Loader.__init__",
    "one-to-many maps: the members of different keys are disjoint (a statement belongs to one unit / method / class); an "
    "exported symbol's unit_id is the importing unit or unset (import_hierarchy.adjust_result_symbol_node)",
    "file loaders keep a reference to the saved object: in the real-items clause the value such a loader holds at the end of "
    "the run is what export() had to write (items mutated by the pipeline after the save are counted, not flagged)",
    "running as root: an unwritable directory cannot be produced with chmod, the fault clause removes the directory or replaces it by a file",
    "GeneralLoader.remove_unit_id (method cloning) and ImportGraph/ModuleSymbols loaders are covered by the real-items clause only",
]

_known_cache = {}


def known(sig):
    sig = tuple(sig)
    if sig not in _known_cache:
        _known_cache[sig] = common.classify(ID, sig)[0] == "known"
    return _known_cache[sig]


# ---------------------------------------------------------------------------------------------
# executing one history

class Stop(Exception):
    pass


def _exc_sig(e, detail=""):
    tb = traceback.extract_tb(e.__traceback__)
    fr = next((f for f in reversed(tb) if "/lian/" in f.filename), tb[-1] if tb else None)
    fn = fr.name if fr else "?"
    if fr is not None and fn == "__init__" and fr.filename.endswith("data_model.py"):
        # pandas rejects what the loader hands to DataModel(...): the exception type depends on the data
        return "exception:in-DataModel()"
    return "exception:%s@%s%s" % (type(e).__name__, fn, detail)


class Runner:
    def __init__(self, case):
        self.case = case
        self.fam = F.BY_NAME[case["family"]]
        self.raw = bool(case.get("raw"))
        self.discs = {}                 # sig -> what
        self.model = {}
        self.history = collections.defaultdict(list)
        self.stepovers = collections.Counter()
        self.labels = set()
        self.nontrivial = False
        self.since_save = collections.defaultdict(set)   # j -> {"get","export"} seen since the last save of j
        self.ever_saved = set()
        self.bundles = 0
        self.step = -1
        self.d = None
        self.loader = None
        self._out = None

    # -- recording --------------------------------------------------------------------------------
    def disc(self, phase, kind, what):
        sig = (ID, self.fam.cls, phase, kind)
        if sig not in self.discs:
            self.discs[sig] = "%s step %d (%s): %s" % (self.fam.name, self.step, self._op_str(), what)

    def _op_str(self):
        if 0 <= self.step < len(self.case["ops"]):
            op = self.case["ops"][self.step]
            return "%s%s" % (op[0], "(%s)" % op[1] if len(op) > 1 else "")
        return "-"

    # -- comparisons ------------------------------------------------------------------------------
    def _quit_detail(self, loader, view):
        """error_and_quit("Failed to find column ...") has two known root causes: a bundle written without any row
        (and therefore without columns) and a loader that queries a column its own rows do not have."""
        import re
        fam = self.fam
        msg = self._out.getvalue() if self._out is not None else ""
        m = re.findall(r'Failed to find column \\?"(\w+)', msg)
        col = m[-1] if m else "?"
        empty = False
        try:
            if fam.kind == F.BUNDLE:
                import pandas as pd
                if view is not None and view.startswith("item:"):
                    bundles = [loader.item_id_to_bundle_id.get(fam.mkid(int(view.split(":")[1])))]
                else:
                    bundles = sorted(set(loader.item_id_to_bundle_id.values()))
                for b in bundles:
                    if b is not None and b >= 0:
                        node = loader.bundle_cache.cache.get(b)
                        if node is not None:
                            empty = empty or len(node._data) == 0
                        elif os.path.exists(loader.get_bundle_path(b)):
                            empty = empty or len(pd.read_feather(loader.get_bundle_path(b))) == 0
        except Exception:
            pass
        return "[empty-bundle]" if empty else "[no-column:%s]" % col

    def compare(self, loader, view, phase):
        fam = self.fam
        default = fam.default(view)
        exp = self.model.get(view, default)
        cached = False
        if fam.kind == F.BUNDLE and view.startswith("item:"):
            cached = loader.item_cache.contain(fam.mkid(int(view.split(":")[1])))
            if phase == "fault" and getattr(self, "cached_before_fault", None) is not None:
                # the reads after a fault run in two rounds; what the first round put into the item cache (possibly an
                # outdated item served after the failed write) must not make the second round look like the
                # item-cache defect: only what was cached BEFORE the fault counts
                cached = cached and view in self.cached_before_fault
        try:
            got, shape = fam.read2(loader, view)
        except BaseException as e:
            if isinstance(e, KeyboardInterrupt):
                raise
            detail = self._quit_detail(loader, view) if isinstance(e, SystemExit) else ""
            self.disc(phase, _exc_sig(e, detail), "reading %s raised %r" % (view, e))
            raise Stop()
        if shape == "list" and view in self.model:
            # an item that was saved (without rows) comes back as a bare list instead of an empty dict / graph / manager:
            # lian's own consumers call .items() / .bit_pos_to_id on it
            self.disc("read" if phase == "fault" else phase, "empty-item-returned-as-list",
                      "%s was saved as an empty %s and is returned as []" % (view, fam.name))
        if got == exp:
            return
        # field-level differences and stale reads have the same root cause whenever they are observed: they are
        # reported under "read" (in-process) or "restore" (fresh loader); "fault" keeps only what the fault causes
        fphase = "read" if phase == "fault" else phase
        vkind = view.split(":")[0]
        diffs = N.diff_paths(exp, got, limit=40)
        kinds = sorted({"field:" + N.field_of(p, h) for p, h in diffs})
        new_kinds = [k for k in kinds if not known((ID, fam.cls, fphase, k))]
        if not new_kinds:
            for k in kinds:
                ex = next((p, h) for p, h in diffs if "field:" + N.field_of(p, h) == k)
                self.disc(fphase, k, "%s differs from the model at %s %s" % (view, ex[0], ex[1]))
            return
        # does the loader return an EARLIER explicitly saved content of this view (modulo the field-level deviations
        # already known)?
        # a bundle loader can only serve an outdated item out of its item cache (the known defect); an outdated item
        # that was not in the item cache before the read came from the index / a bundle: a different defect
        stale_kind = ("stale" if cached else "stale-not-from-item-cache") if fam.kind == F.BUNDLE else "stale:" + vkind
        lost_kind = "lost" if fam.kind == F.BUNDLE else "lost:" + vkind
        if fam.kind == F.BUNDLE and got == default and (phase == "restore" or not cached):
            # nothing comes back, and not out of the item cache (a fresh loader has none)
            self.disc(phase, lost_kind, "%s returns nothing, the model holds %s" % (view, _short(exp)))
            return
        for old in reversed(self.history.get(view, [])):
            if old == exp:
                continue
            okinds = {"field:" + N.field_of(p, h) for p, h in N.diff_paths(old, got, limit=40)}
            if all(known((ID, fam.cls, fphase, k)) for k in okinds):
                self.disc(fphase if stale_kind == "stale" else phase, stale_kind, "%s returns the content of an earlier save, not the latest one (differs at %s)" % (view, diffs[:2]))
                return
        if got == default and exp != default:
            self.disc(phase, lost_kind, "%s returns nothing, the model holds %s" % (view, _short(exp)))
            return
        for k in kinds:
            ex = next((p, h) for p, h in diffs if "field:" + N.field_of(p, h) == k)
            self.disc(fphase, k, "%s differs from the model at %s %s" % (view, ex[0], ex[1]))

    # -- operations -------------------------------------------------------------------------------
    def run(self):
        from lian.config import config
        fam, case = self.fam, self.case
        old_rows = config.MAX_ROWS
        self.d = tempfile.mkdtemp(prefix="lianverif-c15-")
        self.work = os.path.join(self.d, "ws")
        os.makedirs(self.work)
        out = self._out = io.StringIO()
        try:
            config.MAX_ROWS = case["max_rows"]
            self.loader = fam.new(self.work, case["icap"], case["bcap"])
            for self.step, op in enumerate(case["ops"]):
                out.seek(0)
                out.truncate()
                try:
                    with contextlib.redirect_stdout(out), contextlib.redirect_stderr(out):
                        self.apply(op)
                except Stop:
                    break
                except BaseException as e:
                    if isinstance(e, KeyboardInterrupt):
                        raise
                    detail = self._quit_detail(self.loader, None) if isinstance(e, SystemExit) else ""
                    self.disc(_phase_of(op[0]), _exc_sig(e, detail), "%s raised %r" % (op[0], e))
                    break
            self.bundles = max(self.bundles, getattr(self.loader, "bundle_count", 0))
            if self.bundles >= 2:
                self.nontrivial = True
                self.labels.add("multi-bundle")
        finally:
            config.MAX_ROWS = old_rows
            shutil.rmtree(self.d, ignore_errors=True)
        return self

    def apply(self, op):
        fam, loader = self.fam, self.loader
        kind = op[0]
        if kind == "save":
            j, spec = op[1], op[2]
            if self.since_save[j] and j in self.ever_saved:
                self.nontrivial = True
                for ev in self.since_save[j]:
                    self.labels.add("resave-after-" + ev)
            if fam.kind == F.BUNDLE and j in self.ever_saved:
                b = loader.item_id_to_bundle_id.get(fam.mkid(j), -1)
                if b >= 0 and not loader.item_cache.contain(fam.mkid(j)) and not loader.bundle_cache.contain(b):
                    self.labels.add("resave-after-eviction")
            fam.save(loader, j, spec)
            self._printed()
            if fam.kind == F.BUNDLE and loader.active_bundle_length > self.case["max_rows"]:
                # docs 7-2: the active bundle is written out when it reaches config.MAX_ROWS
                self.disc("save", "row-limit-exceeded", "%d rows are pending after save() although config.MAX_ROWS is %d" % (
                    loader.active_bundle_length, self.case["max_rows"]))
            before = dict(self.model)
            fam.model_save(self.model, j, spec)
            for v, nf in self.model.items():
                if v in before and before[v] != nf:
                    self.history[v].append(before[v])
            self.ever_saved.add(j)
            self.since_save[j] = set()
            if fam.kind == F.BUNDLE and not self.raw and known((ID, fam.cls, "read", "stale")):
                # step over the known stale-item-cache defect: do what save() fails to do
                idobj = fam.mkid(j)
                if loader.item_cache.contain(idobj):
                    loader.item_cache.remove(idobj)
                    self.stepovers["item_cache invalidated by the harness after save (known finding stale-item-cache)"] += 1
            if fam.kind == F.BUNDLE and not self.raw and known((ID, fam.cls, "restore", "exception:SystemExit@error_and_quit[empty-bundle]")):
                # step over the known row-count drift: a re-saved id is counted twice, so a bundle without rows (and
                # without columns) can be written; recompute what save() should have maintained
                real = sum(len(v.flattened_item) for v in loader.active_bundle.values())
                if loader.active_bundle_length != real and loader.active_bundle_length > 0:
                    loader.active_bundle_length = real
                    self.stepovers["active_bundle_length recomputed by the harness after a re-save (known finding empty-bundle)"] += 1
        elif kind == "get":
            j = op[1]
            for v in fam.probe_views(j):
                self.compare(loader, v, "read")
            self.since_save[j].add("get")
        elif kind == "contain":
            j = op[1]
            got = fam.contain(loader, j)
            if got is not None and got != (j in self.ever_saved):
                self.disc("contain", "got-%s" % got, "contain(%r) is %r, the id was %ssaved" % (fam.mkid(j), got, "" if j in self.ever_saved else "never "))
        elif kind == "all":
            if fam.kind == F.BUNDLE:
                keyn = lambda k: N.scalar(list(k.to_tuple()) if hasattr(k, "to_tuple") else k)
                got = N.sorted_any(keyn(k) for k in loader.get_all().keys())
                exp = N.sorted_any(keyn(fam.mkid(j)) for j in self.ever_saved)
                if got != exp:
                    self.disc("contain", "get_all-keys", "get_all() lists %s, saved ids are %s" % (got, exp))
        elif kind == "export":
            fam.export(loader)
            self._printed()
            self._exported()
        elif kind == "index":
            fam.export_indexing(loader)
            self._printed()
        elif kind == "reopen":
            fam.export(loader)
            fam.export_indexing(loader)
            self._printed()
            self._exported()
            self.bundles = max(self.bundles, getattr(loader, "bundle_count", 0))
            fresh = fam.new(self.work, self.case["icap"], self.case["bcap"])
            try:
                fam.restore(fresh)
            except FileNotFoundError:
                pass            # Loader.restore() ignores a missing file: nothing was exported
            except BaseException as e:
                if isinstance(e, KeyboardInterrupt):
                    raise
                self.disc("restore", _exc_sig(e), "restore raised %r" % (e,))
                raise Stop()
            self.loader = fresh
            self.labels.add("reopen")
            self.check_files(fresh)
            for v in fam.views(self.model):
                self.compare(fresh, v, "restore")
        elif kind == "fault":
            self.fault(op[1])
            raise Stop()
        else:
            raise ValueError("unknown op %r" % (op,))

    def _printed(self):
        """DataModel.save swallows the exception of a failed feather write and prints it: anything printed by a
        save / export is such a diagnostic"""
        printed = self._out.getvalue().strip()
        self._out.seek(0)
        self._out.truncate()
        if printed:
            self.disc("export", _diag_kind(printed), "a write failed and was only printed: %s" % printed[:160])

    def _exported(self):
        for j in self.ever_saved:
            self.since_save[j].add("export")

    def check_files(self, loader):
        import pandas as pd
        fam = self.fam
        if fam.kind == F.FILE:
            path = os.path.join(self.work, fam.name)
            need = any(nf != fam.default(v) for v, nf in self.model.items())
            if need and not os.path.exists(path):
                self.disc("files", "not-in-files", "no file %s although the model is not empty" % fam.name)
            return
        present = set()
        for n in range(getattr(loader, "bundle_count", 0)):
            path = loader.get_bundle_path(n)
            if not os.path.exists(path):
                self.disc("files", "bundle-file-missing", "bundle %d of the index does not exist" % n)
                continue
            try:
                df = pd.read_feather(path)
            except Exception as e:
                self.disc("files", "bundle-file-unreadable:%s" % type(e).__name__, "bundle %d cannot be read: %r" % (n, e))
                continue
            present |= fam.file_ids(df)
        for v, nf in sorted(self.model.items()):
            if not v.startswith("item:") or nf == EMPTY:
                continue
            j = int(v.split(":")[1])
            if fam.file_key(j) not in present:
                self.disc("files", "not-in-files", "id %r is in no bundle file (ids present: %s)" % (fam.mkid(j), sorted(present, key=str)[:6]))

    def fault(self, mode):
        fam, loader = self.fam, self.loader
        self.labels.add("fault")
        if fam.kind == F.BUNDLE:
            pending = loader.active_bundle_length > 0
        else:
            pending = any(nf != fam.default(v) for v, nf in self.model.items())
        away = self.work + ".away"
        os.rename(self.work, away)
        if mode == "file":
            open(self.work, "w").close()
        buf = io.StringIO()
        raised = None
        try:
            with contextlib.redirect_stdout(buf), contextlib.redirect_stderr(buf):
                fam.export(loader)
        except BaseException as e:
            if isinstance(e, KeyboardInterrupt):
                raise
            raised = e
        finally:
            if mode == "file":
                os.remove(self.work)
            os.rename(away, self.work)
        if pending:
            self.labels.add("fault-with-pending-data")
            if raised is None and not buf.getvalue().strip():
                self.disc("fault", "silent-failed-write", "export into a %s directory neither raised nor printed anything" % mode)
        # later reads must still return the model (two rounds, so that small caches are cycled)
        self.cached_before_fault = set()
        if fam.kind == F.BUNDLE:
            for v in fam.views(self.model):
                if v.startswith("item:") and loader.item_cache.contain(fam.mkid(int(v.split(":")[1]))):
                    self.cached_before_fault.add(v)
        try:
            for _ in range(2):
                for v in fam.views(self.model):
                    self.compare(loader, v, "fault")
        finally:
            self.cached_before_fault = None


def _diag_kind(text):
    import re
    m = re.search(r"Conversion failed for column (\w+)", text)
    if m:
        return "write-failed:column:" + m.group(1)
    return "write-failed:" + " ".join(re.findall(r"[A-Za-z]+", text)[:4])


def _phase_of(opname):
    return {"save": "save", "get": "read", "contain": "contain", "all": "read", "export": "export", "index": "export",
            "reopen": "export", "fault": "fault"}.get(opname, opname)


def _short(x, n=120):
    s = repr(x)
    return s if len(s) <= n else s[:n] + "..."


def run_case(case):
    """-> Runner (discs: {sig: what})"""
    return Runner(case).run()


# ---------------------------------------------------------------------------------------------
# generation

def case_strategy(fam, max_steps):
    from hypothesis import strategies as st

    @st.composite
    def cases(draw):
        icap, bcap = draw(st.integers(1, 3)), draw(st.integers(1, 3))
        max_rows = draw(st.sampled_from([1, 3, 8]))
        raw = draw(st.sampled_from(range(6))) == 0
        n = draw(st.integers(3, max_steps))
        ops = []
        used = []
        for _ in range(n):
            r = draw(st.sampled_from(range(100)))
            if used and draw(st.sampled_from(range(10))) < 7:
                j = draw(st.sampled_from(used))
            else:
                j = 0 if fam.whole else draw(st.integers(0, 3))
            if r < 36 or not used:
                ops.append(["save", j, fam.content(draw)])
                if j not in used:
                    used.append(j)
            elif r < 72:
                ops.append(["get", j])
            elif r < 75:
                ops.append(["contain", j])
            elif r < 77:
                ops.append(["all"])
            elif r < 86:
                ops.append(["export"])
            elif r < 89:
                ops.append(["index"])
            else:
                ops.append(["reopen"])
        tail = draw(st.sampled_from(range(12)))
        if tail == 0:
            ops.append(["fault", draw(st.sampled_from(["removed", "file"]))])
        elif tail < 5:
            ops.append(["reopen"])
        return {"kind": "seq", "family": fam.name, "icap": icap, "bcap": bcap, "max_rows": max_rows, "raw": raw, "ops": ops}
    return cases()


def record(col, case, r):
    col.case()
    fam = r.fam
    col.label("family:" + fam.name)
    for lab in r.labels:
        col.label(lab)
    if r.raw:
        col.label("raw(no step-over)")
    if r.nontrivial:
        col.nontriv(case)
        col.label("nontrivial")
    for k, v in r.stepovers.items():
        col.stepovers[k] += v
    for sig, what in r.discs.items():
        col.discrepancy(sig, what, case)


def seq_shard(arg):
    fam_name, seed, n_examples, max_steps = arg
    import hypothesis
    from hypothesis import settings, HealthCheck
    fam = F.BY_NAME[fam_name]
    col = Collector()

    @hypothesis.seed(seed)
    @settings(max_examples=n_examples, deadline=None, database=None, derandomize=False, report_multiple_bugs=False,
              suppress_health_check=list(HealthCheck), phases=[hypothesis.Phase.generate])
    @hypothesis.given(case_strategy(fam, max_steps))
    def prop(case):
        try:
            r = run_case(case)
        except BaseException as e:
            if isinstance(e, KeyboardInterrupt):
                raise
            col.error("harness crashed on a %s history: %s\ncase=%r" % (fam_name, traceback.format_exc(limit=6), case))
            return
        record(col, case, r)
        if len(col.samples) < 1 and r.nontrivial:
            col.sample(case)

    prop()
    return col


# ---------------------------------------------------------------------------------------------
# real items

def real_shard(arg):
    name, enable_p2, max_rows = arg
    from harness import c15_real
    from harness import lianrun
    col = Collector()
    try:
        res = c15_real.run_program(name, enable_p2, max_rows)
    except BaseException as e:
        if isinstance(e, KeyboardInterrupt):
            raise
        col.error("real-items run %r crashed: %s" % (arg, traceback.format_exc(limit=8)))
        return col
    finally:
        lianrun.cleanup_scratch()
    col.case()
    col.label("real:" + name + (":p2" if enable_p2 else "") + (":rows%d" % max_rows if max_rows else ""))
    if res["error"]:
        col.error("real-items run %r: %s" % (arg, res["error"]))
        return col
    st = res["stats"]
    col.extra["real:keys compared"] += st.get("keys", 0)
    col.extra["real:keys differing in-process"] += st.get("inproc_bad", 0)
    col.extra["real:keys differing after restore"] += st.get("restore_bad", 0)
    col.extra["real:file-loader items mutated by the pipeline after save (end-of-run value used)"] += st.get("mutated_after_save", 0)
    for n, c in st.get("save_calls", {}).items():
        col.extra["real:calls:" + n] += c
    for n in st.get("unmapped", []):
        col.error("real-items: no view registered for Loader.%s" % n)
    if st.get("keys", 0) > 0:
        col.nontriv(res["case"])
    for sig, what, case in res["discrepancies"]:
        col.discrepancy(sig, what, case)
    return col


# ---------------------------------------------------------------------------------------------
# replay / shrinking

def replay_shard(path):
    col = Collector()
    rec = common.load_replay(path)
    try:
        discs = check_case(rec["case"])
    except BaseException as e:
        if isinstance(e, KeyboardInterrupt):
            raise
        col.error("replay %s crashed: %s" % (path, traceback.format_exc(limit=5)))
        return col
    finally:
        if rec["case"].get("kind") == "real":
            from harness import lianrun
            lianrun.cleanup_scratch()
    col.case()
    col.label("replayed")
    for sig, what in discs.items():
        col.discrepancy(sig, what, rec["case"])
    return col

def check_case(case):
    """-> {sig: what} for one saved case (no Hypothesis)"""
    if case.get("kind") == "real":
        from harness import c15_real
        res = c15_real.run_program(case["program"], case.get("enable_p2", False), case.get("max_rows"))
        if res["error"]:
            raise RuntimeError(res["error"])
        out = {}
        for sig, what, _ in res["discrepancies"]:
            out.setdefault(tuple(sig), what)
        return out
    return dict(run_case(case).discs)


def shrink_case(case, sig):
    if case.get("kind") != "seq":
        return case

    def fails(ops):
        c = dict(case)
        c["ops"] = ops
        try:
            return tuple(sig) in check_case(c)
        except BaseException:
            return False
    ops = common.ddmin(case["ops"], fails, max_tests=250)
    c = dict(case)
    c["ops"] = ops
    return c


def replay(path):
    rec = common.load_replay(path)
    discs = check_case(rec["case"])
    want = rec.get("signature")
    code = 0
    new = []
    for sig, what in sorted(discs.items(), key=lambda kv: str(kv[0])):
        if known(sig) and not os.environ.get("VERIF_CONFIRM"):
            print("KNOWN-FINDING: property=%s %s" % (ID, what))
        elif os.environ.get("VERIF_CONFIRM") and want and list(sig) != list(want) and known(sig):
            continue        # confirming one signature: other known findings in the same case do not count
        else:
            new.append((sig, what))
    if new:
        print("VIOLATION property=%s replay=%s" % (ID, path))
        for sig, what in new:
            print("  signature=%s %s" % (list(sig), what))
        return 1
    if not discs:
        print("%s replay %s: holds" % (ID, path))
    return code


# ---------------------------------------------------------------------------------------------

REAL_QUICK = [("classes", False, None), ("classes", True, None), ("imports", False, 50), ("loops", False, 8),
              ("inherit", True, None), ("closures", False, None), ("data", False, 50), ("empty", False, None)]


def main(tier, seed, t0):
    from harness import c15_real
    col = Collector()
    # 1. committed regression inputs (minimal repros of open and of repaired defects)
    col.merge(common.run_shards(replay_shard, common.replay_files(ID)))
    # 2. sampled histories per family
    if tier == "quick":
        per_family, max_steps, shards = 300, 30, 2
        real = REAL_QUICK
    else:
        per_family, max_steps, shards = 3000, 40, 16
        real = [(n, p2, mr) for n in c15_real.PROGRAM_ORDER for p2 in (False, True) for mr in (None, 8, 50)]
    only = [x for x in os.environ.get("C15_ONLY", "").split(",") if x]      # development aid: restrict the families
    if only:
        real = [r for r in real if "real" in only][:2]
    args = []
    for si in range(shards):
        for fi, fam in enumerate(F.FAMILIES):
            if only and fam.name not in only:
                continue
            args.append((fam.name, common.shard_seed(seed, 1000 * fi + si), per_family // shards + 1, max_steps))
    col.merge(common.run_shards(seq_shard, args))
    # 3. real items
    col.merge(common.run_shards(real_shard, real))
    # shrink new violations
    for sig, b in list(col.buckets.items()):
        if not known(sig):
            try:
                b["examples"] = [shrink_case(b["examples"][0], sig)]
            except BaseException:
                pass
    return common.finish(ID, tier, seed, col, t0, RULE, ASSUMPTIONS,
                         extra_coverage={"families": [f.name for f in F.FAMILIES],
                                         "loader_classes": sorted({f.cls for f in F.FAMILIES})})
