"""C08 — abstract values cover every value a variable actually takes; literal text is only ever data.

(1) cover relation: 'values' programs incl. one-iteration loops and lists; every concrete value of every definition
    (CPython, all 2^k valuations of the branch parameters) must be covered by the abstract set of that definition.
(2) literal-is-data (metamorphic): replacing one string constant by a hostile one must leave the abstract values of
    all definitions that do not depend on it, the exit status and the analyser's step count unchanged.
"""
import os
import re

from harness import common, gen_val, lianrun, valcheck
from harness.common import Collector

ID = "C08"

RULE = ("(1) Python 'values' programs (integer / string constants, arithmetic, concatenation, allocation, field and element "
        "reads / writes, aliases, helper calls, branches on opaque parameters, for-loops over one-element lists) with m0 as entry: "
        "for every definition executed by CPython in any of the 2^k runs the abstract state set of that definition (all calling "
        "contexts) must cover the value: equal constant, or a state of the object's class whose field maps cover the fields "
        "recursively, or an explicit unknown state. (2) the same program with one string constant replaced by a hostile one "
        "(quotes, backslashes, operator text, format directives, long digit strings, import expressions): definitions whose "
        "concrete values did not change must keep their abstract values, the run must end the same way and with the same number "
        "of statement visits. Non-trivial = a program with an object reached through an alias or a call and >= 2 field writes, or a "
        "folded binary operation; distinct by source.")

ASSUMPTIONS = [
    "abstract values are read from the statement status of every P3 frame and the entry's state space (as for C09)",
    "the deterministic step count is the number of calls of P3's per-statement transfer function (compute_stmt_states), counted by wrapping it",
    "state_type != REGULAR (unsolved / uninit / anything) is the property's 'explicit unknown state'",
    "objects: the definition must carry a regular state of the object's class; field contents are checked where they are read (lian "
    "keeps copy-on-write versions of object states and selects the newest at each use, so an earlier version need not list later fields)",
]


def count_steps():
    """Wrap the per-statement state computation; returns (counter list, undo)."""
    from lian.core import prelim_semantics as ps
    counter = [0]
    orig = ps.P2PrelimSemanticAnalysis.compute_stmt_states

    def wrap(self, *a, **k):
        counter[0] += 1
        return orig(self, *a, **k)
    ps.P2PrelimSemanticAnalysis.compute_stmt_states = wrap
    return counter, lambda: setattr(ps.P2PrelimSemanticAnalysis, "compute_stmt_states", orig)


def analyse_counted(prog, name):
    counter, undo = count_steps()
    try:
        ab, res = valcheck.analyse(prog, name)
    finally:
        undo()
    return ab, res, counter[0]


def cover_oracle(prog):
    truth, runs = valcheck.ground_truth(prog)
    if truth is None:
        return [], {"discard": "concrete run raised"}
    ab, res, steps = analyse_counted(prog, "c08-settings")
    try:
        if ab is None:
            exc = res.exc
            return [((ID, "analysis-crash", type(exc).__name__), "pipeline fails: %s: %s" % (type(exc).__name__, str(exc)[:200]))], {"runs": runs}
        avals, ops = ab.defined_values()
        out = []
        checked = 0
        for (line, var), cset in sorted(truth.items()):
            aset = avals.get((line, var))
            op = ops.get((line, var), ("?", None))
            opname = op[0] + (":op" if op[1] else "")
            if aset is None:
                out.append(((ID, "not-covered", opname, "no-definition-recorded"), "line %d: %s has concrete values but the analysis recorded no definition" % (line, var)))
                continue
            for c in sorted(cset, key=repr):
                checked += 1
                if not valcheck.covers(c, aset):
                    out.append(((ID, "not-covered", opname, c[0], valcheck.describe(aset)),
                                "line %d: %s = %r is not covered by the abstract set %r" % (line, var, c, sorted(aset, key=repr)[:4])))
        return out, {"runs": runs, "checked": checked, "avals": avals, "truth": truth, "steps": steps}
    finally:
        lianrun.cleanup(res)


STR_RE = re.compile(r'"([^"\\\n]*)"')


def hostile_variants(prog, draw_index, hostile):
    """Replace the draw_index-th string literal occurrence of m0 by repr(hostile)."""
    lines = prog["source"].split("\n")
    occ = []
    for i, l in enumerate(lines):
        if i < len(gen_val.HEADER) + 1:
            continue
        for m in STR_RE.finditer(l):
            occ.append((i, m.start(), m.end()))
    if not occ:
        return None
    i, a, b = occ[draw_index % len(occ)]
    lines[i] = lines[i][:a] + repr(hostile) + lines[i][b:]
    src = "\n".join(lines)
    try:
        compile(src, "a.py", "exec")
    except SyntaxError:
        return None
    return {"source": src, "params": prog["params"], "defs": prog["defs"], "labels": prog["labels"]}


def literal_oracle(prog, base_info, idx, hostile):
    """Metamorphic clause.  base_info from cover_oracle(prog)."""
    variant = hostile_variants(prog, idx, hostile)
    if variant is None:
        return [], {"discard": "no string literal"}
    truth2, runs = valcheck.ground_truth(variant)
    if truth2 is None:
        return [], {"discard": "variant raises"}
    ab2, res2, steps2 = analyse_counted(variant, "c08-settings")
    try:
        kind = hostile_kind(hostile)
        if ab2 is None:
            exc = res2.exc
            return [((ID, "literal-changes-outcome", kind, type(exc).__name__),
                     "replacing a string constant by %r makes the pipeline fail: %s: %s" % (hostile, type(exc).__name__, str(exc)[:160]))], {}
        out = []
        avals2, _ = ab2.defined_values()
        truth1, avals1 = base_info["truth"], base_info["avals"]
        for key, cset in sorted(truth1.items()):
            if truth2.get(key) != cset:
                continue            # this definition depends on the replaced constant
            if avals1.get(key) != avals2.get(key):
                out.append(((ID, "literal-changes-other-value", kind),
                            "replacing a string constant by %r changes the abstract value of the unrelated definition line %d %s: %r -> %r" % (
                                hostile, key[0], key[1], sorted(avals1.get(key) or [], key=repr)[:3], sorted(avals2.get(key) or [], key=repr)[:3])))
                break
        if steps2 != base_info["steps"]:
            out.append(((ID, "literal-changes-step-count", kind),
                        "replacing a string constant by %r changes the number of statement visits from %d to %d" % (hostile, base_info["steps"], steps2)))
        # the variant's own values must be covered too
        for (line, var), cset in sorted(truth2.items()):
            aset = avals2.get((line, var))
            if aset is None:
                continue
            for c in sorted(cset, key=repr):
                if not valcheck.covers(c, aset):
                    out.append(((ID, "hostile-literal-not-covered", kind),
                                "with the constant %r: line %d %s = %r is not covered by %r" % (hostile, line, var, c, sorted(aset, key=repr)[:3])))
                    break
        return out, {}
    finally:
        lianrun.cleanup(res2)


def hostile_kind(h):
    if "\\" in repr(h):
        return "escape-sequence"
    if '"' in h or "'" in h:
        return "quote"
    if h.isdigit():
        return "digits"
    if "  " in h:
        return "blank-run"
    if "%" in h or "{" in h:
        return "format"
    return "other"


def nontrivial(prog):
    ls = set(prog["labels"])
    return ("binary_operation" in ls or "concatenation" in ls) or ("alias" in ls and "field_write" in ls) or "generated_callee" in ls


def shard(arg):
    seed, n_examples = arg
    import hypothesis
    from hypothesis import settings, HealthCheck, strategies as st
    col = Collector()
    # C06's open finding (definitions made in loop bodies may not reach later uses) would show here as uncovered values
    c06_open = any(e.get("id") == "C06-loop-visit-limit" and e.get("status") == "open" for e in common.load_known("C06"))
    if c06_open:
        col.stepovers["C06-loop-visit-limit: variables of the enclosing code are not re-assigned inside loop bodies; at most one loop per program"] += 1

    # C08's own open finding: the summary of a callee is computed for the first visit of a call statement and applied
    # again on later visits (code in or after a loop is visited up to three times)
    revisit_open = any(e.get("id") == "C08-callee-summary-reapplied-on-revisit" and e.get("status") == "open" for e in common.load_known(ID))
    if revisit_open:
        col.stepovers["C08-callee-summary-reapplied-on-revisit: generated callees (conditional field writes, early returns) are not called in or after a loop"] += 1

    @hypothesis.seed(seed)
    @settings(max_examples=n_examples, deadline=None, database=None, derandomize=False, report_multiple_bugs=False,
              suppress_health_check=list(HealthCheck), phases=[hypothesis.Phase.generate])
    @hypothesis.given(gen_val.programs(loops=True, lists=True, loop_overwrite=not c06_open, callee_revisit=not revisit_open, single_loop=c06_open), st.integers(0, 50), st.sampled_from(gen_val.HOSTILE))
    def prop(prog, idx, hostile):
        ds, info = cover_oracle(prog)
        col.evaluations += 1
        if "discard" in info:
            col.discards[info["discard"]] += 1
            return
        for l in prog["labels"]:
            col.labels[l] += 1
        col.extra["concrete_runs"] += info.get("runs", 0)
        col.extra["values_checked"] += info.get("checked", 0)
        case = {"source": prog["source"], "params": prog["params"], "defs": prog["defs"], "labels": prog["labels"]}
        if nontrivial(prog):
            col.nontriv(prog["source"])
            if len(col.samples) < 2:
                col.sample({"source": prog["source"]})
        for sig, what in ds:
            col.discrepancy(sig, what, case)
        if "avals" in info and '"' in "\n".join(prog["source"].split("\n")[len(gen_val.HEADER):]):
            ds2, info2 = literal_oracle(prog, info, idx, hostile)
            if "discard" in info2:
                col.discards["literal:" + info2["discard"]] += 1
            else:
                col.evaluations += 1
                col.labels["literal_variant"] += 1
                col.labels["hostile:" + hostile_kind(hostile)] += 1
                col.nontriv([prog["source"], idx, hostile])
            c2 = dict(case)
            c2["hostile"] = hostile
            c2["index"] = idx
            for sig, what in ds2:
                col.discrepancy(sig, what, c2)
    prop()
    lianrun.cleanup_scratch()
    return col


def check_case(case):
    prog = {"source": case["source"], "params": case["params"], "defs": {int(k): v for k, v in case["defs"].items()}, "labels": case.get("labels", [])}
    ds, info = cover_oracle(prog)
    if "hostile" in case and "avals" in info:
        ds2, _ = literal_oracle(prog, info, case.get("index", 0), case["hostile"])
        ds = ds + ds2
    return ds


def collapse(ds, finding_id):
    if not finding_id or not ds:
        return ds
    if not any(e.get("id") == finding_id and e.get("status") == "open" for e in common.load_known(ID)):
        return ds
    return [((ID, "finding", finding_id), ds[0][1])]


def replay(path):
    rec = common.load_replay(path)
    ds = collapse(check_case(rec["case"]), rec.get("finding"))
    rc = 0
    want = tuple(rec.get("signature") or ())
    for sig, what in ds:
        kind, _ = common.classify(ID, sig)
        if kind == "known" and not os.environ.get("VERIF_CONFIRM"):
            print("KNOWN-FINDING: property=%s %s" % (ID, what))
            continue
        if os.environ.get("VERIF_CONFIRM") and want and tuple(sig) != want:
            continue
        print("VIOLATION property=%s replay=%s" % (ID, path))
        print("  signature=%s %s" % (list(sig), what))
        rc = 1
    if rc == 0:
        print("%s replay %s: no unlisted discrepancy" % (ID, path))
    return rc


def main(tier, seed, t0):
    col = Collector()
    for path in common.replay_files(ID):
        rec = common.load_replay(path)
        for sig, what in collapse(check_case(rec["case"]), rec.get("finding")):
            col.discrepancy(sig, what, rec["case"])
        col.evaluations += 1
        col.labels["replayed"] += 1
    total = 800 if tier == "quick" else 15000
    nsh = common.NCPU * (1 if tier == "quick" else 4)
    col.merge(common.run_shards(shard, [(common.shard_seed(seed, i), total // nsh + 1) for i in range(nsh)]))
    lianrun.cleanup_scratch()
    return common.finish(ID, tier, seed, col, t0, RULE, ASSUMPTIONS)
